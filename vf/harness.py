"""Harness shared by every property check.

A property module (vf/props/cNN.py) provides

    PROPERTY  = "C07"
    RULE      = "how cases are generated, what makes one distinct / non-trivial"
    CLAUSES   = ["clause-a", ...]        # clauses that MUST be evaluated at least once
    QUICK     = dict(n=60, time=45)      # case count and wall-clock cap per tier
    THOROUGH  = dict(n=2000, time=420, shards=16)
    def gen(rng, tier) -> dict           # one JSON-able case description
    def check(ctx, case) -> None         # runs the real code, feeds monitors via ctx

The harness draws cases, runs `check` under a watchdog, collects monitor
counters / residuals / violations, classifies against known_findings.json,
writes evidence/<id>.json and prints the verdict lines.

Verdicts are three-valued: exit 0 (held on what was observed), exit 1
(VIOLATION line), exit 2 (INCONCLUSIVE: a required clause was never evaluated,
the watchdog fired, a shard died).
"""
from __future__ import annotations

import faulthandler
import hashlib
import importlib
import json
import os
import signal
import subprocess
import sys
import time
import traceback
from collections import Counter, defaultdict
from pathlib import Path

import numpy as np

ROOT = Path(__file__).resolve().parent.parent
EVIDENCE = ROOT / "evidence"
REPLAY = ROOT / "replay"
KNOWN = ROOT / "known_findings.json"
PY = "/venv/bin/python"


# --------------------------------------------------------------------------- util
def jsonable(x):
    """Best-effort conversion of numpy-laden structures to JSON-able python."""
    if isinstance(x, dict):
        return {str(k): jsonable(v) for k, v in x.items()}
    if isinstance(x, (list, tuple)):
        return [jsonable(v) for v in x]
    if isinstance(x, np.ndarray):
        if x.size > 64:
            return {"ndarray": list(x.shape), "dtype": str(x.dtype)}
        return jsonable(x.tolist())
    if isinstance(x, (np.integer,)):
        return int(x)
    if isinstance(x, (np.floating,)):
        return float(x)
    if isinstance(x, (np.bool_,)):
        return bool(x)
    if isinstance(x, complex):
        return [x.real, x.imag]
    if isinstance(x, (str, int, float, bool)) or x is None:
        return x
    return repr(x)


def signature(case) -> str:
    return hashlib.sha1(json.dumps(jsonable(case), sort_keys=True).encode()).hexdigest()[:16]


class CaseTimeout(Exception):
    pass


class Refuted(Exception):
    """Raised by ctx.fail(...) to abort a case after recording a violation."""


# --------------------------------------------------------------------------- ctx
class Ctx:
    def __init__(self, pid, tier, seed, known_open):
        self.pid = pid
        self.tier = tier
        self.seed = seed
        self.known_open = {k["id"]: k for k in known_open}
        self.monitors = Counter()          # name -> evaluations (reach / hook counters)
        self.clauses = Counter()           # clause -> number of oracle evaluations
        self.residuals = {}                # clause -> max (residual / tolerance)
        self.raw_residuals = {}            # clause -> max residual
        self.violations = []               # dicts
        self.known_hits = Counter()        # finding id -> count
        self.known_what = {}
        self.notes = Counter()
        self.signatures = set()
        self.nontrivial_sigs = set()
        self.samples = []
        self.evaluations = 0
        self.errors = Counter()
        self._case = None
        self._case_nontrivial = False
        self._case_violations = 0

    # -- per-case bookkeeping
    def _begin(self, case):
        self._case = case
        self._case_nontrivial = False
        self._case_violations = 0
        self.evaluations += 1

    def _end(self):
        sig = signature(self._case)
        self.signatures.add(sig)
        if self._case_nontrivial:
            self.nontrivial_sigs.add(sig)
        if len(self.samples) < 6 and (self._case_nontrivial or len(self.samples) < 2):
            self.samples.append(jsonable(self._case))

    def nontrivial(self, flag=True):
        if flag:
            self._case_nontrivial = True

    def monitor(self, name, n=1):
        self.monitors[name] += n

    def note(self, name, n=1):
        self.notes[name] += n

    # -- oracles
    def expect(self, cond, clause, **detail):
        self.clauses[clause] += 1
        if not bool(cond):
            self.violation(clause, **detail)
            return False
        return True

    def close(self, got, want, clause, rtol=1e-5, atol=0.0, scale=None, **detail):
        """|got-want|_max <= atol + rtol*scale, scale defaults to max|want| (or 1)."""
        self.clauses[clause] += 1
        try:
            got = np.asarray(got)
            want = np.asarray(want)
            if got.shape != want.shape:
                self.violation(clause, reason="shape", got_shape=list(got.shape),
                               want_shape=list(want.shape), **detail)
                return False
            if got.size == 0:
                return True
            g = got.astype(np.complex128 if np.iscomplexobj(got) or np.iscomplexobj(want) else np.float64)
            w = want.astype(g.dtype)
            bad_nan = np.isnan(g) != np.isnan(w)
            if bad_nan.any():
                self.violation(clause, reason="nan-mismatch", **detail)
                return False
            d = np.abs(np.where(np.isnan(w), 0, g - w))
            res = float(d.max())
            if scale is None:
                scale = float(np.nanmax(np.abs(w))) if w.size else 1.0
            tol = atol + rtol * max(scale, 0.0)
            if tol <= 0:
                tol = 0.0
            ratio = res / tol if tol > 0 else (0.0 if res == 0 else float("inf"))
        except Exception as e:  # a comparison that cannot be carried out is a failure
            self.violation(clause, reason="compare-error:%r" % (e,), **detail)
            return False
        if ratio > self.residuals.get(clause, -1):
            self.residuals[clause] = ratio
        if res > self.raw_residuals.get(clause, -1):
            self.raw_residuals[clause] = res
        if ratio > 1.0:
            self.violation(clause, residual=res, tol=tol, **detail)
            return False
        return True

    def equal(self, got, want, clause, **detail):
        self.clauses[clause] += 1
        ok = _deep_equal(got, want)
        if not ok:
            self.violation(clause, got=_short(got), want=_short(want), **detail)
        return ok

    def violation(self, clause, **detail):
        self._case_violations += 1
        self.violations.append({"clause": clause, "case": jsonable(self._case),
                                "detail": jsonable(detail)})

    def fail(self, clause, **detail):
        self.clauses[clause] += 1
        self.violation(clause, **detail)
        raise Refuted(clause)

    def known(self, finding_id, what=""):
        """Record that this case hit a committed known finding.  If the id is not
        listed as open in known_findings.json it is a plain violation."""
        if finding_id in self.known_open:
            self.known_hits[finding_id] += 1
            self.known_what[finding_id] = self.known_open[finding_id].get("what", what)
            return True
        self.violation("unlisted-finding:" + finding_id, what=what)
        return False


def _short(x):
    s = repr(jsonable(x))
    return s if len(s) < 400 else s[:400] + "..."


def _deep_equal(a, b):
    if isinstance(a, np.ndarray) or isinstance(b, np.ndarray):
        a = np.asarray(a)
        b = np.asarray(b)
        return a.shape == b.shape and bool(np.array_equal(a, b, equal_nan=a.dtype.kind in "fc" and b.dtype.kind in "fc"))
    if isinstance(a, dict) and isinstance(b, dict):
        return a.keys() == b.keys() and all(_deep_equal(a[k], b[k]) for k in a)
    if isinstance(a, (list, tuple)) and isinstance(b, (list, tuple)):
        return type(a) is type(b) and len(a) == len(b) and all(_deep_equal(x, y) for x, y in zip(a, b))
    try:
        r = a == b
        if isinstance(r, np.ndarray):
            return bool(r.all())
        return bool(r)
    except Exception:
        return False


# --------------------------------------------------------------------------- running
def _alarm(signum, frame):
    raise CaseTimeout()


def load_known(pid):
    data = json.loads(KNOWN.read_text()) if KNOWN.exists() else {"open": [], "fixed": []}
    return [k for k in data.get("open", []) if k["property"] == pid]


def run_cases(mod, tier, seed, shard=None, replay=None, case_timeout=300):
    """Run the module's workload in this process.  Returns a result dict."""
    pid = mod.PROPERTY
    budget = dict(mod.QUICK if tier == "quick" else mod.THOROUGH)
    nshards = 1
    if shard is not None:
        i, nshards = shard
        budget["n"] = -(-budget["n"] // nshards)
    ctx = Ctx(pid, tier, seed, load_known(pid))
    ss = np.random.SeedSequence([seed, 0 if shard is None else shard[0] + 1,
                                 int(hashlib.sha1(pid.encode()).hexdigest()[:6], 16)])
    rng = np.random.default_rng(ss)
    # import the library under test outside the per-case watchdog: an alarm firing in the middle of
    # `import abtem` would leave half-initialised modules behind and poison every later case
    import abtem  # noqa: F401
    import abtem.bloch  # noqa: F401
    try:
        # no progress bars in check output (diagnostics only; no property depends on it)
        abtem.config.set({"diagnostics.progress_bar": False})
    except Exception:
        pass
    t0 = time.time()
    timed_out_cases = 0
    aborted = False
    if hasattr(mod, "setup"):
        mod.setup(ctx)
    signal.signal(signal.SIGALRM, _alarm)

    def one(case):
        nonlocal timed_out_cases, aborted
        ctx._begin(case)
        signal.alarm(case_timeout)
        try:
            mod.check(ctx, case)
        except Refuted:
            pass
        except CaseTimeout:
            # inconclusive, never a violation; interpreter state after an asynchronous exception is not
            # trusted, so this process stops drawing cases
            timed_out_cases += 1
            ctx.errors["case-timeout"] += 1
            aborted = True
        except Exception as e:
            if type(e).__name__ == "HookMissing":
                # a monitor could not be attached (observation point renamed/removed): inconclusive
                ctx.errors["hook-missing:" + str(e)[:80]] += 1
            else:
                # an exception escaping the workload inside the property's domain is a violation
                ctx.clauses["no-unexpected-exception"] += 0
                ctx.violation("unexpected-exception", error=repr(e)[:500],
                              tb=traceback.format_exc()[-1500:])
        finally:
            signal.alarm(0)
        ctx._end()

    if replay is not None:
        for case in replay:
            one(case)
    else:
        if hasattr(mod, "fixed_cases"):
            fixed = list(mod.fixed_cases(tier))
            # spread deterministic cases over the shards
            for k, case in enumerate(fixed):
                if (shard is None or k % nshards == shard[0]) and not aborted:
                    one(case)
        n = 0
        while n < budget["n"] and time.time() - t0 < budget["time"] and not aborted:
            case = mod.gen(rng, tier)
            n += 1
            one(case)
    if hasattr(mod, "teardown"):
        mod.teardown(ctx)
    return {
        "evaluations": ctx.evaluations,
        "signatures": sorted(ctx.signatures),
        "nontrivial": sorted(ctx.nontrivial_sigs),
        "samples": ctx.samples,
        "monitors": dict(ctx.monitors),
        "clauses": dict(ctx.clauses),
        "residuals": ctx.residuals,
        "raw_residuals": ctx.raw_residuals,
        "violations": ctx.violations[:50],
        "n_violations": len(ctx.violations),
        "known_hits": dict(ctx.known_hits),
        "known_what": ctx.known_what,
        "notes": dict(ctx.notes),
        "errors": dict(ctx.errors),
        "timed_out_cases": timed_out_cases,
        "wall_s": time.time() - t0,
    }


def merge(results):
    out = {"evaluations": 0, "signatures": set(), "nontrivial": set(), "samples": [],
           "monitors": Counter(), "clauses": Counter(), "residuals": {}, "raw_residuals": {},
           "violations": [], "n_violations": 0, "known_hits": Counter(), "known_what": {},
           "notes": Counter(), "errors": Counter(), "timed_out_cases": 0}
    for r in results:
        out["evaluations"] += r["evaluations"]
        out["signatures"].update(r["signatures"])
        out["nontrivial"].update(r["nontrivial"])
        if len(out["samples"]) < 8:
            out["samples"].extend(r["samples"][:2])
        out["monitors"].update(r["monitors"])
        out["clauses"].update(r["clauses"])
        for key in ("residuals", "raw_residuals"):
            for k, v in r[key].items():
                out[key][k] = max(out[key].get(k, -1), v)
        out["violations"].extend(r["violations"])
        out["n_violations"] += r["n_violations"]
        out["known_hits"].update(r["known_hits"])
        out["known_what"].update(r["known_what"])
        out["notes"].update(r["notes"])
        out["errors"].update(r["errors"])
        out["timed_out_cases"] += r["timed_out_cases"]
    return out


def main(argv=None):
    import argparse
    ap = argparse.ArgumentParser()
    ap.add_argument("prop")
    ap.add_argument("--tier", default=os.environ.get("VERIF_TIER", "quick"), choices=["quick", "thorough"])
    ap.add_argument("--seed", type=int, default=int(os.environ.get("VERIF_SEED", "0")))
    ap.add_argument("--replay")
    ap.add_argument("--shard")          # "i/n" (internal)
    ap.add_argument("--out")            # internal: json result path for a shard
    ap.add_argument("--no-evidence", action="store_true")
    a = ap.parse_args(argv)
    faulthandler.enable()
    pid = a.prop.upper()
    sys.path.insert(0, str(ROOT))
    sys.path.append(str(ROOT / ".deps"))   # icontract/deal, after site-packages
    mod = importlib.import_module("vf.props." + pid.lower())
    t0 = time.time()

    if a.shard:
        i, n = map(int, a.shard.split("/"))
        res = run_cases(mod, a.tier, a.seed, shard=(i, n))
        Path(a.out).write_text(json.dumps(res))
        return 0

    inconclusive = []
    if a.replay:
        data = json.loads(Path(a.replay).read_text())
        cases = [v["case"] for v in data["violations"]] if "violations" in data else [data["case"]]
        res = merge([run_cases(mod, a.tier, a.seed, replay=cases)])
    else:
        budget = mod.QUICK if a.tier == "quick" else mod.THOROUGH
        shards = int(budget.get("shards", 1))
        shards = max(1, min(shards, os.cpu_count() or 1))
        if shards == 1:
            res = merge([run_cases(mod, a.tier, a.seed)])
        else:
            tmp = ROOT / ".shards" / ("%s-%d-%d" % (pid, a.seed, os.getpid()))
            tmp.mkdir(parents=True, exist_ok=True)
            procs = []
            for i in range(shards):
                out = tmp / ("%d.json" % i)
                cmd = [PY, "-m", "vf.harness", pid, "--tier", a.tier, "--seed", str(a.seed),
                       "--shard", "%d/%d" % (i, shards), "--out", str(out)]
                procs.append((i, out, subprocess.Popen(cmd, cwd=str(ROOT), env=child_env(),
                                                       stdout=subprocess.DEVNULL,
                                                       stderr=open(tmp / ("%d.err" % i), "w"))))
            results = []
            deadline = time.time() + budget["time"] * 2 + 300
            for i, out, p in procs:
                try:
                    rc = p.wait(timeout=max(1, deadline - time.time()))
                except subprocess.TimeoutExpired:
                    p.kill()
                    inconclusive.append("shard %d watchdog" % i)
                    continue
                if rc != 0 or not out.exists():
                    err = (tmp / ("%d.err" % i)).read_text()[-800:]
                    inconclusive.append("shard %d exit %s: %s" % (i, rc, err))
                    continue
                results.append(json.loads(out.read_text()))
            res = merge(results) if results else merge([])
            import shutil
            shutil.rmtree(tmp, ignore_errors=True)

    wall = time.time() - t0
    # ---- verdict
    required = list(getattr(mod, "CLAUSES", []))
    missing = [c for c in required if res["clauses"].get(c, 0) == 0]
    if a.replay:
        missing = []
    if missing:
        inconclusive.append("clauses never evaluated: " + ",".join(missing))
    if res["timed_out_cases"]:
        # case time-outs are inconclusive, not violations; a few on a loaded machine are tolerated (noted in
        # the evidence) as long as every required clause was still evaluated by the other cases / shards
        if res["timed_out_cases"] > max(2, res["evaluations"] // 10):
            inconclusive.append("%d cases hit the watchdog" % res["timed_out_cases"])
    hook_missing = sorted(k for k in res["errors"] if k.startswith("hook-missing"))
    if hook_missing:
        inconclusive.append("monitors could not be attached: " + ", ".join(hook_missing))
    min_nt = 2
    if not a.replay and len(res["nontrivial"]) < min_nt:
        inconclusive.append("fewer than %d distinct non-trivial cases" % min_nt)

    replay_path = None
    if res["n_violations"]:
        # keep a clause-diverse selection of witnesses (round-robin over clauses)
        by_clause = defaultdict(list)
        for v in res["violations"]:
            by_clause[v["clause"]].append(v)
        picked = []
        while len(picked) < 30 and any(by_clause.values()):
            for c in list(by_clause):
                if by_clause[c]:
                    picked.append(by_clause[c].pop(0))
        res["violations"] = picked + [v for vs in by_clause.values() for v in vs]
        REPLAY.mkdir(exist_ok=True)
        replay_path = REPLAY / ("%s-seed%d-%s.json" % (pid, a.seed, a.tier))
        replay_path.write_text(json.dumps({"property": pid, "seed": a.seed, "tier": a.tier,
                                           "violations": res["violations"][:30]}, indent=1))

    if not a.no_evidence and not a.replay:
        level = getattr(mod, "LEVEL", "exploration")
        cov = {
            "evaluations": int(res["evaluations"]),
            "distinct_nontrivial": len(res["nontrivial"]),
            "distinct_cases": len(res["signatures"]),
            "rule": mod.RULE,
            "samples": res["samples"][:6],
            "oracle_evaluations_per_clause": dict(res["clauses"]),
            "monitor_counters": dict(res["monitors"]),
            "max_residual_over_tolerance": {k: round(v, 6) for k, v in res["residuals"].items()},
            "max_abs_residual": res["raw_residuals"],
            "known_finding_hits": dict(res["known_hits"]),
            "notes": dict(res["notes"]),
            "errors": dict(res["errors"]),
            "inconclusive": inconclusive,
            "exhaustive": bool(getattr(mod, "EXHAUSTIVE", False)),
        }
        ev = {"property_id": pid, "tier": a.tier, "seed": a.seed, "level": level,
              "coverage": cov,
              "assumptions": list(getattr(mod, "ASSUMPTIONS", [])) + [
                  "verdict covers only the executions listed in coverage; CPU backend only",
                  "numpy/scipy/dask/pyfftw/numba are trusted as reference implementations"],
              "wall_s": round(wall, 2), "violations": int(res["n_violations"])}
        EVIDENCE.mkdir(exist_ok=True)
        (EVIDENCE / (pid + ".json")).write_text(json.dumps(ev, indent=1, sort_keys=True))

    # ---- report
    print("%s tier=%s seed=%d cases=%d distinct_nontrivial=%d wall=%.1fs" %
          (pid, a.tier, a.seed, res["evaluations"], len(res["nontrivial"]), wall))
    print("  clauses: " + ", ".join("%s=%d" % kv for kv in sorted(res["clauses"].items())))
    if res["monitors"]:
        print("  monitors: " + ", ".join("%s=%d" % kv for kv in sorted(res["monitors"].items())))
    if res["residuals"]:
        print("  max residual/tol: " + ", ".join("%s=%.3g" % kv for kv in sorted(res["residuals"].items())))
    for fid, n in sorted(res["known_hits"].items()):
        print("KNOWN-FINDING: property=%s %s [%s, %d cases]" % (pid, res["known_what"].get(fid, ""), fid, n))
    if res["n_violations"]:
        by = Counter(v["clause"] for v in res["violations"])
        print("  violated clauses: " + ", ".join("%s×%d" % kv for kv in by.items()))
        v0 = res["violations"][0]
        print("  first witness: clause=%s detail=%s" % (v0["clause"], json.dumps(v0["detail"])[:600]))
        print("  case=%s" % json.dumps(v0["case"])[:600])
        print("VIOLATION property=%s replay=%s" % (pid, replay_path))
        return 1
    if inconclusive:
        print("INCONCLUSIVE property=%s reason=%s" % (pid, "; ".join(inconclusive)))
        return 2
    print("HELD property=%s (on the executions explored)" % pid)
    return 0


def child_env():
    env = dict(os.environ)
    env.setdefault("PYTHONHASHSEED", "0")
    env["PYTHONPATH"] = str(ROOT) + os.pathsep + env.get("PYTHONPATH", "")
    # keep native thread pools small: parallelism comes from shards / dask threads
    for k in ("OMP_NUM_THREADS", "MKL_NUM_THREADS", "OPENBLAS_NUM_THREADS", "NUMBA_NUM_THREADS"):
        env.setdefault(k, "1")
    return env


if __name__ == "__main__":
    sys.exit(main())
