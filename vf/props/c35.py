"""C35 Axis metadata behaves like the value sequences it describes.

Oracles are plain python tuple / numpy index arithmetic and a float64 formula:

  * round trip    b = axis_from_dict(axis_to_dict(a)) (and AxisMetadata.from_dict(a.to_dict())): type(b) is type(a), every
                  dataclass field of b equals the field of a (own recursive comparison: bool/int/float/str/None kinds are
                  kept apart, floats compared exactly, ndarray rows element-wise), b == a and a == b with abTEM's own
                  equality whenever that operator can compare the axis with a deep copy of itself;
  * ordinal item  a[item].values == tuple(values[item])  for ints (python / numpy, negative), slices (any step, empty),
                  index lists / int arrays (negative, repeated, empty) and boolean masks; all other fields and the class kept;
  * concatenate   a.concatenate(b).values == a.values + b.values; other fields and class kept; operands unchanged;
  * linear        coordinates(n)[i] == offset + i*sampling (float64), len == n, for every LinearAxis subclass.

Every axis class is discovered by introspection (dataclasses defined in abtem.core.axes); fields are filled at random
according to the dataclass field list (strings incl. unicode/empty/None, numpy scalar types, nested tuples, ndarray rows).
Pipeline monitor: OrdinalAxis.__getitem__ / concatenate are wrapped while real array objects with ordinal ensemble axes
are indexed, concatenated and pushed through a lazy blockwise transform (which slices the axis per dask block).
"""
import copy
import dataclasses
import inspect

import numpy as np

PROPERTY = "C35"
TECHNIQUE = "runtime monitoring; reference model (python tuple / numpy indexing, float64 offset+i*sampling) on real axis objects, hooks on OrdinalAxis.__getitem__/concatenate inside array-object pipelines"
RULE = ("axis class drawn from all dataclasses of abtem.core.axes (18), each field set with probability 0.6 to a random value of "
        "the field's kind; ordinal values: ints/floats/strings/mixed/pairs/triples/ragged tuples/lists/numpy scalars/1-D and 2-D "
        "ndarrays, a bare number, falsy values (0, 0.0, False, '', None, ()), length 0-9 with single-value axes favoured; 4 items per case "
        "(int incl. 0/-1/-n, numpy ints of every width and signedness, slice with step, index list/array of several dtypes, boolean "
        "mask); linear axes: "
        "sampling/offset log-uniform of either sign, numpy scalar types, n in {0,1,2,..,64}; non-trivial = ordinal axis with >=2 "
        "values or linear axis with n>=2; distinct = distinct case signature")
CLAUSES = ["roundtrip-type", "roundtrip-fields", "roundtrip-eq", "roundtrip-input-unchanged", "getitem-values", "getitem-meta",
           "concatenate-values", "concatenate-meta", "linear-coordinates", "pipeline-getitem", "pipeline-concatenate"]
QUICK = dict(n=4000, time=40)
THOROUGH = dict(n=320000, time=480, shards=16)

NP_INDEX_TYPES = ["int64", "int32", "int16", "int8", "uint8", "uint16", "uint32", "uint64", "intp"]
STRS = ["", "x", "thickness", "x, y", "Å", "1/Å", "mrad", "α β", "$\\alpha$", "e/Å^2", "a b [c]", "unknown"]


def axis_classes():
    from abtem.core import axes as A
    return {n: c for n, c in vars(A).items()
            if inspect.isclass(c) and dataclasses.is_dataclass(c) and c.__module__ == A.__name__}


# --------------------------------------------------------------------------- generators (JSON descriptions)
def _values_spec(rng, n=None):
    kind = str(rng.choice(["ints", "floats", "strs", "mixed", "pairs", "triples", "ragged", "lists", "npscalars", "nd1", "nd2",
                           "strpairs", "none-mixed", "scalar", "falsy"]))
    if n is None:
        n = int(rng.choice([0, 1, 1, 1, 2, 3, 4, 5, 7, 9]))
    if kind == "scalar":
        # a bare number: OrdinalAxis turns it into a one-value axis
        return {"kind": "scalar", "data": [float(rng.choice([0.0, -0.0, 1.0, 3.5, -2.0]))],
                "dtype": str(rng.choice(["float", "int", "float64", "float32", "int64"]))}
    if kind == "falsy":
        pool = [0, 0.0, False, "", None, [], -0.0]
        return {"kind": "falsy", "data": [pool[int(rng.integers(0, len(pool)))] for _ in range(n)], "dtype": "float64"}
    f = lambda: float(np.round(rng.normal() * 10.0 ** int(rng.integers(-3, 4)), 6))
    i = lambda: int(rng.integers(-50, 50))
    s = lambda: str(rng.choice(STRS))
    if kind == "ints":
        data = [i() for _ in range(n)]
    elif kind in ("floats", "nd1", "npscalars"):
        data = [f() for _ in range(n)]
    elif kind == "strs":
        data = [s() for _ in range(n)]
    elif kind == "mixed":
        data = [[i, f, s][int(rng.integers(0, 3))]() for _ in range(n)]
    elif kind in ("pairs", "lists", "nd2"):
        data = [[f(), f()] for _ in range(n)]
    elif kind == "triples":
        data = [[i(), i(), i()] for _ in range(n)]
    elif kind == "ragged":
        data = [[f() for _ in range(int(rng.integers(0, 4)))] for _ in range(n)]
    elif kind == "strpairs":
        data = [[s(), i()] for _ in range(n)]
    else:
        data = [None if rng.random() < 0.4 else i() for _ in range(n)]
    return {"kind": kind, "data": data, "dtype": str(rng.choice(["float64", "float32", "int64"]))}


def build_values(spec):
    k, d = spec["kind"], spec["data"]
    if k in ("pairs", "triples", "ragged", "strpairs"):
        return tuple(tuple(x) for x in d)
    if k == "lists":
        return tuple(list(x) for x in d)
    if k == "npscalars":
        t = getattr(np, spec["dtype"])
        return tuple(t(x) for x in d)
    if k == "nd1":
        return np.array(d, dtype=spec["dtype"])
    if k == "nd2":
        return np.array(d, dtype="float64").reshape(len(d), 2)
    if k == "scalar":
        t = spec["dtype"]
        return float(d[0]) if t == "float" else int(d[0]) if t == "int" else getattr(np, t)(d[0])
    if k == "falsy":
        return tuple(tuple(x) if isinstance(x, list) else x for x in d)
    return tuple(d)


def _scalar_spec(rng):
    v = float(10 ** rng.uniform(-6, 6)) * (1 if rng.random() < 0.7 else -1)
    r = rng.random()
    if r < 0.1:
        v = 0.0
    elif r < 0.2:
        v = float(int(rng.integers(-20, 20)))
    return {"v": v, "as": str(rng.choice(["float", "float", "float64", "float32", "int"]))}


def build_scalar(spec):
    v, t = spec["v"], spec["as"]
    if t == "int":
        return int(round(v)) if abs(v) < 1e9 else float(v)
    if t == "float32":
        return np.float32(v)
    if t == "float64":
        return np.float64(v)
    return float(v)


def _field_spec(rng, name):
    if name in ("label", "tex_label", "tex_units", "units", "_default_type"):
        if name in ("tex_label", "tex_units", "units") and rng.random() < 0.25:
            return {"f": "str", "v": None}
        if name == "_default_type":
            return {"f": "str", "v": str(rng.choice(["index", "overlay", "range"]))}
        return {"f": "str", "v": str(rng.choice(STRS))}
    if name in ("sampling", "offset"):
        return {"f": "scalar", "v": _scalar_spec(rng)}
    if name == "values":
        return {"f": "values", "v": _values_spec(rng)}
    if name == "direction":
        return {"f": "str", "v": str(rng.choice(["x", "y"]))}
    return {"f": "bool", "v": bool(rng.random() < 0.5)}     # _concatenate, _ensemble_mean, _squeeze, endpoint, fftshift, _main


def build_field(spec):
    if spec["f"] == "scalar":
        return build_scalar(spec["v"])
    if spec["f"] == "values":
        return build_values(spec["v"])
    return spec["v"]


def _item_spec(rng, n):
    kinds = ["slice", "slice", "list", "intarray", "boolarray"] + (["int", "npint"] if n > 0 else [])
    kind = str(rng.choice(kinds))
    if kind == "npint":
        t = str(rng.choice(NP_INDEX_TYPES))
        lo = -n if np.iinfo(getattr(np, t)).min < 0 else 0
        return {"kind": "npint", "v": int(rng.integers(lo, n)), "dtype": t}
    if kind == "int":
        return {"kind": kind, "v": int(rng.choice([0, -1, n - 1, -n, int(rng.integers(-n, n))]))}
    if kind == "slice":
        pick = lambda: None if rng.random() < 0.35 else int(rng.integers(-n - 2, n + 3))
        step = None if rng.random() < 0.5 else int(rng.choice([1, 2, 3, -1, -2]))
        return {"kind": "slice", "v": [pick(), pick(), step]}
    if kind in ("list", "intarray"):
        m = int(rng.integers(0, 6)) if n > 0 else 0
        return {"kind": kind, "v": [int(rng.integers(-n, n)) for _ in range(m)],
                "dtype": str(rng.choice(["int64", "int64", "int32", "uint8", "intp"]))}
    return {"kind": "boolarray", "v": [bool(rng.random() < 0.5) for _ in range(n)]}


def build_item(spec):
    k, v = spec["kind"], spec["v"]
    if k == "int":
        return v
    if k == "npint":
        return getattr(np, spec.get("dtype", "int64"))(v)
    if k == "slice":
        return slice(*v)
    if k == "list":
        return list(v)
    if k == "intarray":
        t = spec.get("dtype", "int64")
        if t.startswith("u") and any(x < 0 for x in v):
            t = "int64"
        return np.array(v, dtype=t)
    return np.array(v, dtype=bool)


def gen(rng, tier):
    names = sorted(axis_classes())
    if rng.random() < 0.02:
        spec = _values_spec(rng, n=int(rng.integers(2, 8)))
        while spec["kind"] == "scalar":          # an array object needs as many values as members
            spec = _values_spec(rng, n=int(rng.integers(2, 8)))
        return {"kind": "pipeline", "values": spec, "chunk": int(rng.integers(1, 4)),
                "split": float(rng.random()), "seed": int(rng.integers(0, 2 ** 31))}
    cls = str(rng.choice(names))
    C = axis_classes()[cls]
    fields = {}
    for f in dataclasses.fields(C):
        if rng.random() < 0.6:
            fields[f.name] = _field_spec(rng, f.name)
    case = {"kind": "axis", "cls": cls, "fields": fields}
    if "values" in [f.name for f in dataclasses.fields(C)]:
        n = len(fields["values"]["v"]["data"]) if "values" in fields else 0      # ("scalar" carries exactly one datum)
        case["items"] = [_item_spec(rng, n) for _ in range(4)]
        if "values" in fields and rng.random() < 0.7:
            case["other"] = _values_spec_like(rng, fields["values"]["v"])
        else:
            case["other"] = _values_spec(rng)
    if "sampling" in [f.name for f in dataclasses.fields(C)]:
        case["ns"] = [int(x) for x in rng.choice([0, 1, 1, 2, 3, 5, 8, 17, 64], size=3)]
        case["n_as"] = str(rng.choice(["int", "int", "np.int64", "np.int32"]))
    return case


def _values_spec_like(rng, spec):
    """Another values description of the same kind (so that concatenation joins like with like)."""
    for _ in range(200):
        s = _values_spec(rng)
        if s["kind"] == spec["kind"]:
            s["dtype"] = spec["dtype"]
            return s
    return spec


def fixed_cases(tier):
    V = lambda kind, data: {"f": "values", "v": {"kind": kind, "data": data, "dtype": "float64"}}
    out = [{"kind": "pipeline", "values": {"kind": "floats", "data": [0.5, 1.5, 2.5, 3.5, 4.5], "dtype": "float64"}, "chunk": 2,
            "split": 0.4, "seed": 1},
           {"kind": "pipeline", "values": {"kind": "pairs", "data": [[0.0, 1.0], [2.0, 3.0], [4.0, 5.0]], "dtype": "float64"},
            "chunk": 1, "split": 0.7, "seed": 2}]
    items = [{"kind": "int", "v": -1}, {"kind": "slice", "v": [None, None, -1]}, {"kind": "list", "v": [2, 0, 0]},
             {"kind": "boolarray", "v": [True, False, True]}]
    for cls in sorted(axis_classes()):
        names = [f.name for f in dataclasses.fields(axis_classes()[cls])]
        case = {"kind": "axis", "cls": cls, "fields": {}}            # all defaults
        if "values" in names:
            case["fields"]["values"] = V("pairs" if cls in ("TiltAxis", "PositionsAxis", "WaveVectorAxis") else "floats",
                                         [[1.0, 2.0], [3.0, 4.0], [5.0, 6.0]] if cls in ("TiltAxis", "PositionsAxis", "WaveVectorAxis")
                                         else [0.25, 0.5, 4.0])
            case["items"] = items
            case["other"] = dict(case["fields"]["values"]["v"], data=[[7.0, 8.0], [9.0, 10.0]] if cls in (
                "TiltAxis", "PositionsAxis", "WaveVectorAxis") else [16.0, 32.0])
        if "sampling" in names:
            case["fields"]["sampling"] = {"f": "scalar", "v": {"v": 0.1, "as": "float"}}
            case["fields"]["offset"] = {"f": "scalar", "v": {"v": -3.7, "as": "float"}}
            case["ns"] = [0, 1, 10]
        out.append(case)
    # hostile values: one-value axes (tuple, bare number, numpy scalar), falsy values, numpy scalar indices of every width
    one_items = [{"kind": "npint", "v": 0, "dtype": "uint8"}, {"kind": "npint", "v": -1, "dtype": "int8"},
                 {"kind": "int", "v": 0}, {"kind": "slice", "v": [0, None, None]}, {"kind": "boolarray", "v": [True]},
                 {"kind": "intarray", "v": [0, 0], "dtype": "uint8"}]
    for cls in ("OrdinalAxis", "NonLinearAxis", "ThicknessAxis", "ParameterAxis"):
        for spec in ({"kind": "floats", "data": [0.0], "dtype": "float64"}, {"kind": "scalar", "data": [0.0], "dtype": "float"},
                     {"kind": "scalar", "data": [3.5], "dtype": "float32"}, {"kind": "scalar", "data": [1.0], "dtype": "int"},
                     {"kind": "falsy", "data": [0], "dtype": "float64"}):
            out.append({"kind": "axis", "cls": cls, "fields": {"values": {"f": "values", "v": spec},
                                                                 "label": {"f": "str", "v": ""}, "units": {"f": "str", "v": None}},
                        "items": one_items, "other": {"kind": "floats", "data": [], "dtype": "float64"}})
    out.append({"kind": "axis", "cls": "OrdinalAxis",
                "fields": {"values": {"f": "values", "v": {"kind": "falsy", "data": [0, 0.0, False, "", None, []], "dtype": "float64"}}},
                "items": [{"kind": "npint", "v": k, "dtype": t} for k, t in ((5, "uint64"), (2, "int16"), (-6, "int32"), (0, "intp"))]
                + [{"kind": "intarray", "v": [5, 0, 2], "dtype": "uint8"}],
                "other": {"kind": "falsy", "data": [None, 0], "dtype": "float64"}})
    for cls in ("LinearAxis", "RealSpaceAxis", "ReciprocalSpaceAxis", "ScanAxis"):
        out.append({"kind": "axis", "cls": cls, "fields": {"sampling": {"f": "scalar", "v": {"v": 0.0, "as": "float"}},
                                                             "offset": {"f": "scalar", "v": {"v": 2.0, "as": "int"}}},
                    "ns": [1, 0, 3], "n_as": "np.int64"})
        out.append({"kind": "axis", "cls": cls, "fields": {"sampling": {"f": "scalar", "v": {"v": 2.0, "as": "int"}},
                                                             "offset": {"f": "scalar", "v": {"v": 0.0, "as": "float32"}},
                                                             "units": {"f": "str", "v": ""}}, "ns": [1, 2, 5], "n_as": "np.int32"})
    out.append({"kind": "pipeline", "values": {"kind": "floats", "data": [0.0, 1.0], "dtype": "float64"}, "chunk": 1, "split": 0.5,
                "seed": 0})
    return out


# --------------------------------------------------------------------------- independent comparison
def kind_of(x):
    if x is None:
        return "none"
    if isinstance(x, (bool, np.bool_)):
        return "bool"
    if isinstance(x, (int, np.integer)):
        return "int"
    if isinstance(x, (float, np.floating)):
        return "float"
    if isinstance(x, str):
        return "str"
    if isinstance(x, np.ndarray):
        return "seq"
    if isinstance(x, (tuple, list)):
        return "seq"
    if isinstance(x, dict):
        return "dict"
    return type(x).__name__


def veq(a, b):
    """Value equality that keeps bool/int/float/str/None apart and compares sequences element-wise."""
    ka, kb = kind_of(a), kind_of(b)
    if ka != kb:
        return False
    if ka == "seq":
        if len(a) != len(b):
            return False
        return all(veq(x, y) for x, y in zip(a, b))
    if ka == "dict":
        return a.keys() == b.keys() and all(veq(a[k], b[k]) for k in a)
    if ka == "float":
        return float(a) == float(b) and (not isinstance(a, np.floating) or not isinstance(b, np.floating)
                                         or a.dtype == b.dtype)
    try:
        return bool(a == b)
    except Exception:
        return False


def fields_of(axis):
    return {f.name: getattr(axis, f.name) for f in dataclasses.fields(axis)}


def _short(x):
    r = repr(x)
    return r if len(r) < 200 else r[:200] + "..."


def item_oracle(values, item):
    values = tuple(values)
    if isinstance(item, (int, np.integer)) and not isinstance(item, (bool, np.bool_)):
        return (values[int(item)],)
    if isinstance(item, slice):
        return values[item]
    idx = np.asarray(item)
    if idx.dtype == bool:
        assert len(idx) == len(values)
        return tuple(v for v, m in zip(values, idx) if m)
    return tuple(values[int(i)] for i in idx.reshape(-1))


# --------------------------------------------------------------------------- checks
def check_axis(ctx, case):
    from abtem.core import axes as A
    C = axis_classes()[case["cls"]]
    kwargs = {k: build_field(v) for k, v in case["fields"].items()}
    a = C(**kwargs)
    names = [f.name for f in dataclasses.fields(C)]
    before = copy.deepcopy(fields_of(a))

    # ---- serialisation round trip (both routes)
    routes = [("axis_to_dict", lambda ax: A.axis_from_dict(A.axis_to_dict(ax)))]
    if hasattr(a, "to_dict") and hasattr(C, "from_dict"):
        routes.append(("to_dict", lambda ax: A.AxisMetadata.from_dict(ax.to_dict())))
    try:
        comparable = bool(copy.deepcopy(a) == a)
    except Exception:
        comparable = False
    if not comparable:
        ctx.note("eq-operator-cannot-compare-axis-with-its-deep-copy")
    for route, f in routes:
        d = A.axis_to_dict(a) if route == "axis_to_dict" else a.to_dict()
        ctx.expect(isinstance(d, dict) and d.get("type") == case["cls"] and set(d) == set(names) | {"type"}, "roundtrip-type",
                   route=route, keys=sorted(d) if isinstance(d, dict) else None)
        b = f(a)
        ctx.expect(type(b) is type(a), "roundtrip-type", route=route, got=type(b).__name__, want=case["cls"])
        fb, fa = fields_of(b), fields_of(a)
        bad = [n for n in names if not veq(fb[n], fa[n])]
        ctx.expect(not bad, "roundtrip-fields", route=route, fields=bad, got=_short({n: fb[n] for n in bad}),
                   want=_short({n: fa[n] for n in bad}))
        if "values" in names:
            ctx.expect(isinstance(b.values, tuple), "roundtrip-fields", route=route, what="values is not a tuple")
        if comparable:
            try:
                eq = bool(b == a) and bool(a == b)
            except Exception as e:
                eq = repr(e)
            ctx.expect(eq is True, "roundtrip-eq", route=route, eq=eq, a=_short(fa), b=_short(fb))
    ctx.expect(all(veq(v, before[k]) for k, v in fields_of(a).items()), "roundtrip-input-unchanged")

    # ---- ordinal axes
    if "values" in names:
        vals = a.values
        ctx.expect(isinstance(vals, tuple), "getitem-values", what="values not normalised to a tuple", got=type(vals).__name__)
        n = len(vals)
        ctx.nontrivial(n >= 2)
        others = [k for k in names if k != "values"]
        for spec in case["items"]:
            item = build_item(spec)
            want = item_oracle(vals, item)
            got = a[item]
            ctx.expect(isinstance(got.values, tuple) and veq(got.values, want), "getitem-values", item=spec,
                       got=_short(got.values), want=_short(want), values=_short(vals))
            ctx.expect(type(got) is C and all(veq(getattr(got, k), getattr(a, k)) for k in others), "getitem-meta", item=spec)
            ctx.expect(len(got) == len(want) and got.coordinates(len(want)) == got.values, "getitem-values", what="len/coordinates")
        ctx.expect(veq(a.values, before["values"]), "roundtrip-input-unchanged", what="values changed by indexing")
        # concatenation with an axis that differs in its values only
        kw2 = dict(kwargs)
        kw2["values"] = build_values(case["other"])
        b = C(**kw2)
        bvals = b.values
        try:
            cat = a.concatenate(b)
        except RuntimeError as e:
            # only legitimate when the operands' other fields differ -- they do not
            ctx.expect(False, "concatenate-values", error=repr(e), a=_short(fields_of(a)), b=_short(fields_of(b)))
        else:
            ctx.expect(isinstance(cat.values, tuple) and veq(cat.values, tuple(vals) + tuple(bvals)), "concatenate-values",
                       got=_short(cat.values), want=_short(tuple(vals) + tuple(bvals)))
            ctx.expect(type(cat) is C and all(veq(getattr(cat, k), getattr(a, k)) for k in others), "concatenate-meta")
            ctx.expect(veq(a.values, vals) and veq(b.values, bvals) and len(a) == n, "concatenate-meta", what="operand changed")
            ctx.expect(len(cat) == n + len(bvals), "concatenate-values", what="len")

    # ---- linear axes
    if "sampling" in names and "ns" in case:
        s64, o64 = float(a.sampling), float(a.offset)
        for n in case["ns"]:
            n_obj = getattr(np, case["n_as"][3:])(n) if case.get("n_as", "int") != "int" else n
            got = a.coordinates(n_obj)
            ctx.expect(isinstance(got, tuple) and len(got) == n, "linear-coordinates", what="length", n=n,
                       got_len=len(got))
            if n and len(got) == n:
                want = o64 + np.arange(n, dtype=np.float64) * s64
                scale = abs(o64) + abs(s64) * n
                # a float32 field makes numpy evaluate the coordinates in float32 (NEP 50): the formula then holds to
                # float32 rounding of the operands' magnitude, otherwise to float64 rounding
                single = any(isinstance(x, np.floating) and x.dtype.itemsize < 8 for x in (a.sampling, a.offset))
                eps = 16 * float(np.finfo(np.float32).eps) if single else 1e-13
                ctx.close(np.array(got, dtype=np.float64), want, "linear-coordinates", rtol=0.0, atol=eps * scale + 1e-300,
                          n=n, sampling=s64, offset=o64, single=single)
            ctx.nontrivial(n >= 2)


class _Hook:
    def __init__(self, ctx):
        self.ctx = ctx
        self.getitems = 0
        self.concats = 0

    def getitem(self, orig):
        hook = self

        def __getitem__(self_, item):
            out = orig(self_, item)
            hook.getitems += 1
            try:
                want = item_oracle(self_.values, item)
            except Exception as e:
                hook.ctx.note("hook-oracle-cannot-model-item:" + type(item).__name__)
                return out
            hook.ctx.expect(veq(out.values, want) and type(out) is type(self_), "pipeline-getitem", item=_short(item),
                            got=_short(out.values), want=_short(want))
            return out
        return __getitem__

    def concatenate(self, orig):
        hook = self

        def concatenate(self_, other):
            mine, theirs = tuple(self_.values), tuple(getattr(other, "values", ()))
            out = orig(self_, other)
            hook.concats += 1
            hook.ctx.expect(veq(out.values, mine + theirs) and type(out) is type(self_), "pipeline-concatenate",
                            got=_short(out.values), want=_short(mine + theirs))
            return out
        return concatenate


def check_pipeline(ctx, case):
    import dask.array as da
    import abtem
    from abtem.core import axes as A
    from vf.gen import Wrapped
    vals = build_values(case["values"])
    n = len(vals)
    rng = np.random.default_rng(case["seed"])
    arr = rng.random((n, 4, 5)).astype(np.float32)
    hook = _Hook(ctx)
    with Wrapped() as w:
        w.patch(A.OrdinalAxis, "__getitem__", hook.getitem)
        w.patch(A.OrdinalAxis, "concatenate", hook.concatenate)
        axis = A.NonLinearAxis(label="p", units="u", values=vals)
        tvals = axis.values
        im = abtem.Images(arr, sampling=(0.1, 0.2), ensemble_axes_metadata=[axis])
        k = max(1, min(n - 1, int(round(case["split"] * n))))
        lo, hi = im[:k], im[k:]
        ctx.expect(veq(lo.ensemble_axes_metadata[0].values, tvals[:k]) and veq(hi.ensemble_axes_metadata[0].values, tvals[k:]),
                   "pipeline-getitem", what="array-object slice", k=k)
        one = im[n - 1]
        ctx.expect(one.shape == (4, 5), "pipeline-getitem", what="integer item drops the axis", shape=list(one.shape))
        rev = im[::-1]
        ctx.expect(veq(rev.ensemble_axes_metadata[0].values, tvals[::-1]) and np.array_equal(rev.array, arr[::-1]),
                   "pipeline-getitem", what="reversed")
        cat = abtem.concatenate([lo, hi], axis=0)
        ctx.expect(veq(cat.ensemble_axes_metadata[0].values, tvals) and np.array_equal(cat.array, arr), "pipeline-concatenate",
                   what="concatenate(split) restores the axis", got=_short(cat.ensemble_axes_metadata[0].values))
        # lazy blockwise transform: the axis is cut into one piece per dask block
        lazy = abtem.Images(da.from_array(arr, chunks=(case["chunk"], 4, 5)), sampling=(0.1, 0.2), ensemble_axes_metadata=[axis])
        g0 = hook.getitems
        noisy = lazy.poisson_noise(total_dose=10.0, seed=3).compute()
        ctx.expect(veq(noisy.ensemble_axes_metadata[0].values, tvals), "pipeline-getitem", what="axis after lazy transform")
        ctx.monitor("getitem-hook-in-lazy-transform", hook.getitems - g0)
    ctx.monitor("getitem-hook-evaluations", hook.getitems)
    ctx.monitor("concatenate-hook-evaluations", hook.concats)
    ctx.nontrivial(hook.getitems >= 3 and hook.concats >= 1)


def check(ctx, case):
    if case["kind"] == "pipeline":
        check_pipeline(ctx, case)
    else:
        check_axis(ctx, case)
