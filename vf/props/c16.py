"""C16 Measurement resampling and source-size filtering conserve what they promise.

Monitors on the measurement objects returned by the real methods:

  dp-total:<form>      DiffractionPatterns.interpolate keeps the total intensity of *every single* pattern
                       (sum over the two base axes, compared per pattern in float64, relative to that
                       pattern's own total - the patterns of one ensemble differ by up to 6 orders of
                       magnitude, so a global renormalisation is seen).  <form> is the documented way the
                       target is given: sampling='uniform', sampling=float, sampling=(float, float), gpts=.
  dp-grid              the result has the requested grid (gpts= -> that shape and the sampling
                       old*n_old/n_new; sampling=float(s) -> that sampling), the ensemble axes and laziness
                       are unchanged.
  img-same-grid        Images.interpolate(method='fft') with the input grid (given as gpts= or sampling=)
                       returns the input values.
  img-mean             ... with any other grid it keeps the mean of every image ('values' normalization).
  source-size-commutes gaussian_source_size(sigma).integrate_radial(i, o) ==
                       integrate_radial(i, o).gaussian_filter(sigma) (both orders run on the same object,
                       eager or lazy with the same chunking).
  source-size-reference both equal scipy.ndimage.gaussian_filter(mode='wrap') applied in float64 to the
                       eagerly integrated image with sigma/scan-sampling per scan axis - ties the documented
                       meaning of sigma [Angstrom] and the periodic boundary to an independent model.

Workload: ensembles with 0-2 extra axes (before, and sometimes between/after, the two scan axes), scans
1-9 points, patterns 2-28 pixels (odd/even/rectangular), anisotropic samplings, fftshifted or not, float32 and
float64 data, eager and lazy with chunks over extra, scan (and for Images base) axes, sigma scalar / tuple /
zero / several times the scan, integration limits inner..outer inside the pattern, outer=None, offsets.
"""
import numpy as np

PROPERTY = "C16"
TECHNIQUE = "runtime monitoring; float64 per-pattern sums/means, differential run of both operation orders, scipy.ndimage float64 wrap-mode Gaussian reference"
RULE = ("dp cases: ensemble = 0-2 extra axes x 0-2 scan axes, pattern 2-28 x 2-28 px, per-pattern scale 1e-3..1e3, positive "
        "background plus bright spots or (15%) sparse spots on exact zeros, target "
        "form uniform/float/per-axis/gpts-tuple/gpts-int, finer and coarser than the input, eager or lazy (random chunks on "
        "ensemble axes); image cases: real/complex images 1-24 px with 0-2 ensemble axes, same grid via gpts or sampling, or "
        "another grid via gpts/sampling (up, down, mixed, size 1), eager/lazy incl. chunked base axes, precision "
        "float32/float64; source-size cases: 0-2 extra axes placed before/between/after the scan axes, scan 1-9 x 1-9, sigma "
        "scalar/tuple/0/larger than the scan, limits inside the pattern, eager/lazy with chunked scan axes. non-trivial = "
        "target grid differs from the input grid / sigma>0 with a non-empty integration region; distinct = distinct case dict")
CLAUSES = ["dp-total:sampling-uniform", "dp-total:sampling-float", "dp-total:sampling-per-axis", "dp-total:gpts", "dp-grid",
           "img-same-grid", "img-mean", "source-size-commutes", "source-size-reference"]
QUICK = dict(n=520, time=45)
THOROUGH = dict(n=96000, time=480, shards=16)
ASSUMPTIONS = ["diffraction patterns are non-negative with a positive total; 85% have a positive background, 15% are sparse (exact zeros between spots)",
               "pattern axes have >= 2 pixels; scan axes are ScanAxis with two main axes for the source-size clause",
               "image mean clause is judged for normalization='values' (the default)"]

TOL_SUM = 5e-6       # per-pattern relative (float32 data / float32 interpolation weights)
TOL_IMG = {"float32": 6e-6, "float64": 2e-13}
TOL_SRC = {"float32": 4e-6, "float64": 2e-13}


# --------------------------------------------------------------------------- generation
def _chunks(rng, shape):
    return [int(rng.integers(1, n + 1)) for n in shape]


def gen(rng, tier):
    k = rng.random()
    lazy = bool(rng.random() < 0.5)
    if k < 0.4:
        extra = [int(rng.integers(1, 4)) for _ in range(int(rng.choice([0, 0, 1, 2])))]
        scan = [int(rng.integers(1, 5)) for _ in range(int(rng.choice([0, 1, 2, 2])))]
        base = [int(rng.integers(2, 29)), int(rng.integers(2, 29))]
        samp = [float(rng.uniform(0.01, 0.2)), 0.0]
        samp[1] = samp[0] * float(rng.choice([1.0, rng.uniform(0.4, 2.5)]))
        form = str(rng.choice(["uniform", "float", "per-axis", "gpts", "gpts", "gpts-int"]))
        f = [float(2 ** rng.uniform(-1.3, 1.3)), float(2 ** rng.uniform(-1.3, 1.3))]
        if rng.random() < 0.1:
            f[0] = 1.0
        sparse = bool(rng.random() < 0.15)
        new_gpts = [int(rng.integers(2, 41)), int(rng.integers(2, 41))]
        if sparse and rng.random() < 0.7:   # much coarser target: spots can fall between all stencils
            f = [float(2 ** rng.uniform(0.5, 2.2)), float(2 ** rng.uniform(0.5, 2.2))]
            new_gpts = [int(rng.integers(2, 7)), int(rng.integers(2, 7))]
        return {"kind": "dp", "extra": extra, "scan": scan, "base": base, "sampling": samp, "form": form, "factor": f,
                "new_gpts": new_gpts,
                "fftshift": bool(rng.random() < 0.7), "dtype": str(rng.choice(["float32", "float32", "float64"])),
                "spots": int(rng.integers(0, 6)), "sparse": sparse, "lazy": lazy,
                "chunks": _chunks(rng, extra + scan),
                "seed": int(rng.integers(0, 2 ** 31))}
    if k < 0.7:
        ens = [int(rng.integers(1, 4)) for _ in range(int(rng.choice([0, 1, 1, 2])))]
        base = [int(rng.integers(1, 25)), int(rng.integers(1, 25))]
        how = str(rng.choice(["same-gpts", "same-sampling", "gpts", "gpts", "gpts-int", "sampling", "sampling-float"]))
        return {"kind": "img", "ens": ens, "base": base,
                "sampling": [float(rng.uniform(0.05, 0.5)), float(rng.uniform(0.05, 0.5))], "how": how,
                "new_gpts": [int(rng.integers(1, 41)), int(rng.integers(1, 41))],
                "factor": [float(2 ** rng.uniform(-1.5, 1.5)), float(2 ** rng.uniform(-1.5, 1.5))],
                "dtype": str(rng.choice(["float32", "float32", "float64", "complex64", "complex128"])),
                "precision": "float32" if rng.random() < 0.5 else "float64",
                "normalization": "values" if rng.random() < 0.8 else "intensity",
                "offset": float(rng.choice([0.0, 5.0, -40.0])), "lazy": lazy,
                "chunks": _chunks(rng, ens + base), "seed": int(rng.integers(0, 2 ** 31))}
    extra = [int(rng.integers(1, 4)) for _ in range(int(rng.choice([0, 0, 1, 1, 2])))]
    scan = [int(rng.integers(1, 10)), int(rng.integers(1, 10))]
    base = [int(rng.integers(4, 17)), int(rng.integers(4, 17))]
    # position of the two scan axes among all ensemble axes: mostly last (extra axes first)
    nens = len(extra) + 2
    if extra and rng.random() < 0.2:
        pos = sorted(int(i) for i in rng.choice(nens, size=2, replace=False))
    else:
        pos = [nens - 2, nens - 1]
    ssamp = [float(rng.uniform(0.1, 0.6)), float(rng.uniform(0.1, 0.6))]
    r = rng.random()
    if r < 0.3:
        s = float(rng.uniform(0.05, 1.5))
        sigma = s
    elif r < 0.75:
        sigma = [float(rng.uniform(0.05, 1.5)), float(rng.uniform(0.05, 1.5))]
    elif r < 0.85:
        sigma = [float(rng.choice([0.0, rng.uniform(0.05, 1.0)])), 0.0]
    else:   # larger than the scan
        sigma = [float(ssamp[0] * scan[0] * rng.uniform(0.5, 2.0)), float(ssamp[1] * scan[1] * rng.uniform(0.5, 2.0))]
    chunks = _chunks(rng, _ens_shape(extra, scan, pos))
    if lazy and rng.random() < 0.5:
        # a scan that really is split into blocks whose halo (4 sigma) is smaller than the block
        scan = [int(rng.integers(5, 10)), int(rng.integers(5, 10))]
        sigma = [float(ssamp[0] * rng.uniform(0.1, 0.45)), float(ssamp[1] * rng.uniform(0.1, 0.45))]
        if rng.random() < 0.3:
            sigma = sigma[0]
        chunks = _chunks(rng, _ens_shape(extra, scan, pos))
        for i in pos:
            n = _ens_shape(extra, scan, pos)[i]
            chunks[i] = int(rng.integers(2, -(-n // 2) + 1))
    return {"kind": "src", "extra": extra, "scan": scan, "scan_pos": pos, "base": base,
            "sampling": [float(rng.uniform(0.02, 0.1)), float(rng.uniform(0.02, 0.1))], "scan_sampling": ssamp,
            "sigma": sigma, "inner_frac": float(rng.choice([0.0, rng.uniform(0, 0.7)])),
            "outer_frac": None if rng.random() < 0.15 else float(rng.uniform(0.15, 1.0)),
            "offset_frac": [0.0, 0.0] if rng.random() < 0.7 else [float(rng.uniform(-0.3, 0.3)), float(rng.uniform(-0.3, 0.3))],
            "fftshift": bool(rng.random() < 0.7), "energy": float(rng.choice([80e3, 200e3, 300e3])),
            "dtype": str(rng.choice(["float32", "float32", "float64"])),
            "lazy": lazy, "chunks": chunks,
            "seed": int(rng.integers(0, 2 ** 31))}


def _ens_shape(extra, scan, pos):
    shape, e, s = [], list(extra), list(scan)
    for i in range(len(extra) + 2):
        shape.append(s.pop(0) if i in pos else e.pop(0))
    return shape


def fixed_cases(tier):
    out = []
    # the smallest witnesses of each documented way to give the target grid, eager and lazy
    for form in ("uniform", "float", "per-axis", "gpts", "gpts-int"):
        for lazy in (False, True):
            out.append({"kind": "dp", "extra": [2], "scan": [2, 3], "base": [11, 12], "sampling": [0.05, 0.07], "form": form,
                        "factor": [1.6, 0.7], "new_gpts": [8, 9], "fftshift": True, "dtype": "float32", "spots": 2,
                        "lazy": lazy, "chunks": [1, 2, 2], "seed": len(out)})
    # one bright pixel per pattern, 3.2x coarser target (known finding: empty stencils -> NaN) and 1.3x finer target
    for factor in ([3.2, 3.2], [0.75, 0.75]):
        for lazy in (False, True):
            out.append({"kind": "dp", "extra": [], "scan": [3], "base": [12, 12], "sampling": [0.05, 0.05], "form": "float",
                        "factor": factor, "new_gpts": [4, 4], "fftshift": True, "dtype": "float32", "spots": 1,
                        "sparse": True, "lazy": lazy, "chunks": [2], "seed": 100 + len(out)})
    # source size on a scan that is split into several blocks / on one block
    for chunks in ([2, 6, 7], [1, 3, 4], [1, 2, 2], [2, 6, 4]):
        for sigma in (0.3, [0.2, 0.7], 3.0):
            out.append({"kind": "src", "extra": [2], "scan": [6, 7], "scan_pos": [1, 2], "base": [9, 8],
                        "sampling": [0.05, 0.07], "scan_sampling": [0.3, 0.4], "sigma": sigma, "inner_frac": 0.2,
                        "outer_frac": 0.8, "offset_frac": [0.0, 0.0], "fftshift": True, "energy": 100e3, "dtype": "float32",
                        "lazy": True, "chunks": chunks, "seed": len(out)})
    return out


# --------------------------------------------------------------------------- builders
def _lazy(arr, chunks, nbase_free=2):
    import dask.array as da
    return da.from_array(arr, chunks=tuple(chunks) + (-1,) * nbase_free)


def _ordinal(i, n):
    from abtem.core.axes import OrdinalAxis
    return OrdinalAxis(values=tuple(range(n)), label="e%d" % i)


def build_patterns(case, extra_pos_shape, scan_flags, scan_sampling):
    """positive patterns whose totals differ strongly from pattern to pattern"""
    from abtem.core.axes import ScanAxis
    from abtem.measurements import DiffractionPatterns
    rng = np.random.default_rng(case["seed"])
    ens = tuple(extra_pos_shape)
    base = tuple(case["base"])
    arr = rng.uniform(0.05, 1.0, size=ens + base)
    nspots = case.get("spots", 3)
    if case.get("sparse"):          # Bragg-spot like: exact zeros between a few bright pixels
        arr[...] = 0.0
        nspots = max(nspots, 1)
    for _ in range(nspots):
        iy, ix = int(rng.integers(0, base[0])), int(rng.integers(0, base[1]))
        arr[..., iy, ix] += rng.uniform(5, 200, size=ens)
    arr = arr * 10 ** rng.uniform(-3, 3, size=ens + (1, 1))
    arr = arr.astype(case["dtype"])
    meta, j = [], 0
    for i, (n, is_scan) in enumerate(zip(ens, scan_flags)):
        if is_scan:
            meta.append(ScanAxis(sampling=scan_sampling[j], label="xy"[j % 2], units="Å"))
            j += 1
        else:
            meta.append(_ordinal(i, n))
    data = _lazy(arr, case["chunks"]) if case["lazy"] else arr
    dp = DiffractionPatterns(data, sampling=tuple(case["sampling"]), fftshift=case["fftshift"],
                             ensemble_axes_metadata=meta, metadata={"energy": case.get("energy", 100e3)})
    return dp, arr


def _np(obj):
    a = obj.array
    if hasattr(a, "compute"):
        a = a.compute()
    return np.asarray(a)


# --------------------------------------------------------------------------- DiffractionPatterns.interpolate
FINDING_SPARSE = "C16-interpolate-empty-stencil-nan"


def stencil_weight(n, m, d, d_new):
    """total bilinear weight every old pixel of one axis receives from the m new grid points.
    Grids are centred index grids k_i = (i - n//2) d, k'_j = (j - m//2) d_new; a new point takes (1-w) from the
    nearest old point at or below it and w from the next one (clamped to the last pixel)."""
    k = (np.arange(n) - n // 2) * float(d)
    kn = (np.arange(m) - m // 2) * float(d_new)
    c = np.zeros(n)
    for x in kn:
        if x < k[0]:
            c[0] += 1.0
            continue
        i = min(int(np.floor((x - k[0]) / d + 1e-9)), n - 1)
        w = (x - k[i]) / d
        c[i] += 1.0 - w
        c[min(i + 1, n - 1)] += w
    return c


def check_dp(ctx, case):
    ens = case["extra"] + case["scan"]
    flags = [False] * len(case["extra"]) + [True] * len(case["scan"])
    dp, arr = build_patterns(case, ens, flags, [0.3, 0.4])
    old_s, old_n = tuple(case["sampling"]), tuple(case["base"])
    form = case["form"]
    want_sampling = want_gpts = None
    if form == "uniform":
        kwargs, clause = {"sampling": "uniform"}, "dp-total:sampling-uniform"
        want_sampling = (max(old_s),) * 2
    elif form == "float":
        s = float(old_s[0] * case["factor"][0])
        kwargs, clause = {"sampling": s}, "dp-total:sampling-float"
        want_sampling = (s, s)
    elif form == "per-axis":
        s = (float(old_s[0] * case["factor"][0]), float(old_s[1] * case["factor"][1]))
        kwargs, clause = {"sampling": s}, "dp-total:sampling-per-axis"
        want_sampling = s
    elif form == "gpts":
        want_gpts = tuple(case["new_gpts"])
        kwargs, clause = {"gpts": want_gpts}, "dp-total:gpts"
    else:
        want_gpts = (case["new_gpts"][0],) * 2
        kwargs, clause = {"gpts": case["new_gpts"][0]}, "dp-total:gpts"
    if want_gpts is not None:
        want_sampling = tuple(d * n / m for d, n, m in zip(old_s, old_n, want_gpts))
    try:
        out = dp.interpolate(**kwargs)
        got = _np(out)
    except Exception as e:   # every documented target form is inside the property's domain
        ctx.expect(False, clause, error=repr(e)[:300], kwargs=kwargs, reason="interpolate raised")
        return
    ctx.monitor("dp-interpolate-lazy" if case["lazy"] else "dp-interpolate-eager")
    ctx.nontrivial(got.shape[-2:] != arr.shape[-2:] or form != "uniform")
    ok = (got.shape[:-2] == arr.shape[:-2] and bool(out.is_lazy) == case["lazy"]
          and len(out.ensemble_axes_metadata) == len(dp.ensemble_axes_metadata)
          and np.allclose(out.sampling, want_sampling, rtol=1e-6)
          and (want_gpts is None or got.shape[-2:] == tuple(want_gpts)))
    ctx.expect(ok, "dp-grid", shape=list(got.shape), sampling=list(out.sampling), want_sampling=list(want_sampling),
               want_gpts=want_gpts, kwargs=kwargs)
    if got.shape[:-2] != arr.shape[:-2]:
        return
    s_in = arr.astype(np.float64).sum(axis=(-2, -1))
    s_out = got.astype(np.float64).sum(axis=(-2, -1))
    finite = np.isfinite(got).all(axis=(-2, -1))
    if finite.all():
        ctx.close(s_out / s_in, np.ones_like(s_in), clause, rtol=TOL_SUM, scale=1.0, kwargs=kwargs)
        return
    # some pattern came back NaN/inf.  The only accepted explanation is the known finding: no bilinear stencil of
    # the new grid touches a non-zero pixel, so the interpolated pattern is identically 0 and the renormalisation
    # is 0/0.  Model: float64 stencil weights of the (index-space) bilinear resampling, independent of the data.
    cy = stencil_weight(old_n[0], got.shape[-2], old_s[0], out.sampling[0])
    cx = stencil_weight(old_n[1], got.shape[-1], old_s[1], out.sampling[1])
    touched = np.einsum("...ij,i,j->...", np.abs(arr.astype(np.float64)), np.abs(cy), np.abs(cx)) / s_in
    if finite.any():
        ctx.close((s_out / s_in)[finite], np.ones(int(finite.sum())), clause, rtol=TOL_SUM, scale=1.0, kwargs=kwargs)
    bad = ~finite
    if case.get("sparse") and bool((touched[bad] <= 1e-5).all()):
        ctx.clauses[clause] += 1
        ctx.monitor("empty-stencil-model-matched", int(bad.sum()))
        ctx.known(FINDING_SPARSE)
    else:
        ctx.expect(False, clause, reason="non-finite pattern although the bilinear stencils reach non-zero pixels",
                   touched=touched[bad][:5], kwargs=kwargs)


# --------------------------------------------------------------------------- Images.interpolate
def check_img(ctx, case):
    import abtem
    from abtem.measurements import Images
    rng = np.random.default_rng(case["seed"])
    ens, base = tuple(case["ens"]), tuple(case["base"])
    a = rng.standard_normal(ens + base)
    if case["dtype"].startswith("complex"):
        a = a + 1j * rng.standard_normal(ens + base)
    a = (a + case["offset"]).astype(case["dtype"])
    meta = [_ordinal(i, n) for i, n in enumerate(ens)]
    data = _lazy(a, case["chunks"], nbase_free=0) if case["lazy"] else a
    old_s = tuple(case["sampling"])
    how = case["how"]
    if how == "same-gpts":
        kwargs = {"gpts": base}
    elif how == "same-sampling":
        kwargs = {"sampling": old_s}
    elif how == "gpts":
        kwargs = {"gpts": tuple(case["new_gpts"])}
    elif how == "gpts-int":
        kwargs = {"gpts": case["new_gpts"][0]}
    elif how == "sampling":
        kwargs = {"sampling": (old_s[0] * case["factor"][0], old_s[1] * case["factor"][1])}
    else:
        kwargs = {"sampling": old_s[0] * case["factor"][0]}
    norm = case["normalization"] if how.startswith("same") else "values"
    with abtem.config.set({"precision": case["precision"]}):
        im = Images(data, sampling=old_s, ensemble_axes_metadata=meta)
        out = im.interpolate(method="fft", normalization=norm, **kwargs)
        got = _np(out)
    ctx.monitor("img-interpolate-lazy" if case["lazy"] else "img-interpolate-eager")
    f32 = case["precision"] == "float32" or case["dtype"] in ("float32", "complex64")
    tol = TOL_IMG["float32" if f32 else "float64"]
    scale = max(float(np.abs(a).max()), 1e-300)
    am = a.astype(np.complex128 if np.iscomplexobj(a) else np.float64)
    if how == "same-gpts":
        ctx.expect(got.shape == a.shape, "img-same-grid", reason="shape", got=list(got.shape))
    if got.shape == a.shape:
        ctx.close(got, am, "img-same-grid", rtol=tol, scale=scale, how=how, norm=norm)
        ctx.expect(np.allclose(out.sampling, old_s, rtol=1e-6), "img-same-grid", reason="sampling", got=list(out.sampling))
    else:
        ctx.nontrivial()
    if norm == "values" and got.shape[:-2] == a.shape[:-2]:
        ctx.close(got.mean(axis=(-2, -1)), am.mean(axis=(-2, -1)), "img-mean", rtol=tol, scale=scale, how=how,
                  new=list(got.shape[-2:]))
    if np.iscomplexobj(got) != np.iscomplexobj(a) or bool(out.is_lazy) != case["lazy"]:
        ctx.note("img-kind-or-laziness-changed")      # not part of the statement: recorded, not judged


# --------------------------------------------------------------------------- gaussian_source_size
def check_src(ctx, case):
    import scipy.ndimage as ndi
    ens = _ens_shape(case["extra"], case["scan"], case["scan_pos"])
    flags = [i in case["scan_pos"] for i in range(len(ens))]
    dp, arr = build_patterns(case, ens, flags, case["scan_sampling"])
    sigma = case["sigma"] if isinstance(case["sigma"], float) else tuple(case["sigma"])
    amax = float(min(dp.max_angles))
    inner = case["inner_frac"] * amax
    outer = None if case["outer_frac"] is None else inner + case["outer_frac"] * (amax * 0.98 - inner)
    kw = {"inner": inner, "outer": outer}
    if any(case["offset_frac"]):
        kw["offset"] = (case["offset_frac"][0] * amax, case["offset_frac"][1] * amax)

    first = dp.gaussian_source_size(sigma).integrate_radial(**kw)
    then = dp.integrate_radial(**kw).gaussian_filter(sigma)
    if not (type(first) is type(then) and bool(first.is_lazy) == case["lazy"] == bool(then.is_lazy)):
        ctx.note("source-size-type-or-laziness-differs")
    A, B = _np(first), _np(then)
    ctx.monitor("source-size-lazy" if case["lazy"] else "source-size-eager")
    nblocks = 1
    if case["lazy"]:
        nblocks = int(np.prod([-(-n // c) for n, c, f in zip(ens, case["chunks"], flags) if f]))
        ctx.monitor("source-size-lazy-scan-blocks>1" if nblocks > 1 else "source-size-lazy-scan-blocks=1")

    # independent model: integrate eagerly (no filter), then a float64 wrap-mode Gaussian over the two scan axes
    from abtem.measurements import DiffractionPatterns
    eager = DiffractionPatterns(arr, sampling=tuple(case["sampling"]), fftshift=case["fftshift"],
                                ensemble_axes_metadata=list(dp.ensemble_axes_metadata), metadata=dict(dp.metadata))
    img = np.asarray(eager.integrate_radial(**kw).array).astype(np.float64)    # scan axes are the last two
    sg = (sigma, sigma) if isinstance(sigma, float) else sigma
    sig = (0.0,) * (img.ndim - 2) + tuple(s / d for s, d in zip(sg, case["scan_sampling"]))
    ref = ndi.gaussian_filter(img, sigma=sig, mode="wrap")

    tol = TOL_SRC["float32" if case["dtype"] == "float32" else "float64"]
    scale = max(float(np.abs(ref).max()), 1e-300)
    ctx.nontrivial(bool(img.max() > 0) and any(s > 0 for s in sg) and max(case["scan"]) > 1)
    ctx.close(A, B, "source-size-commutes", rtol=tol, scale=scale, sigma=case["sigma"], scan_blocks=nblocks)
    ctx.close(A, ref, "source-size-reference", rtol=tol, scale=scale, order="filter-then-integrate", scan_blocks=nblocks)
    ctx.close(B, ref, "source-size-reference", rtol=tol, scale=scale, order="integrate-then-filter", scan_blocks=nblocks)


def setup(ctx):
    import abtem  # noqa: F401  (import outside the per-case watchdog; a failing import is not a violation)
    import abtem.measurements  # noqa: F401


def check(ctx, case):
    if case["kind"] == "dp":
        check_dp(ctx, case)
    elif case["kind"] == "img":
        check_img(ctx, case)
    else:
        check_src(ctx, case)
