"""C06 PRISM reduction reproduces conventional multislice probes.

Oracle (differential against the multislice pipeline + independent float64 post-processing):

* interpolation 1 ("full" cases): the S-matrix of the potential (none / atoms / frozen phonons) is reduced
  at the scan positions with a CTF; the reference is `Probe(same cutoff, same aberrations).multislice(potential,
  scan, detectors)` run eagerly.  When the S-matrix is down-sampled the reference exit wave is Fourier-cropped
  with numpy (float64) to the S-matrix grid, and pixelated measurements are compared on the common central block.
  Totals (sum |psi|^2 times number of grid points, i.e. the integrated diffraction intensity) are compared too:
  a normalisation error of the reduction coefficients shows as a global factor.
* interpolation 2-3 ("window" cases): the S-matrix is built for vacuum or for a potential that is exactly
  periodic with the window (unit cell repeated f x f), where the PRISM relation is exact: the reduced wave at
  position p must equal the wave of `Probe(extent=L/f, gpts=N'/f)` (through the unit-cell potential) placed at p
  modulo the window and cyclically shifted so that the window starts at rint(p/d - w//2) (the documented crop).
* every code-under-test result is produced through one of the public routes
  SMatrix.build().reduce / SMatrix.build().scan / SMatrix.reduce / SMatrix.scan / SMatrix.multislice().reduce /
  SMatrixArray.multislice, eagerly or lazily, with max_batch_reduction 1/3/auto; a lazy and an eager run of the same route are also
  compared with each other.
* a monitor wrapped around SMatrixArray._calculate_ctf_coefficients checks, inside the real pipeline, that the
  coefficient vector handed to the reduction has unit 2-norm (|c|^2 summed over plane waves) for every CTF.
"""
import numpy as np

from vf import gen as G

PROPERTY = "C06"
TECHNIQUE = "runtime monitoring; differential oracle against Probe.multislice plus float64 Fourier-crop / window-shift model"
RULE = ("random orthogonal cells (1-4 atoms), energies 60-300 keV, S-matrix cutoff 8-36 mrad chosen so that the (window) "
        "probe holds several beams, grids 18-40 (unit grids 10-18 times the interpolation in window mode; rectangular, "
        "odd/even) enlarged until the soft aperture fits inside the band kept by downsample=cutoff, CTF cutoff equal or "
        "60-95 % of it, CTF aberrations: none (30 %), random non-zero set of 1-5 polar coefficients incl. angles with "
        "0.5-6 rad at the aperture edge (60 %), plus a defocus ensemble axis (10 %); potential none/atoms/frozen phonons "
        "(interpolation 1) or vacuum/window-periodic crystal (interpolation 2-3, also anisotropic (1,2),(3,1),(2,3)); "
        "downsample False/cutoff; Custom (incl. cell corners, boundary and outside-cell points)/Line/Grid/default-Grid "
        "scans; detector none/annular/flexible/pixelated/segmented/annular+waves; routes build-reduce, SMatrix.reduce, "
        "SMatrix.scan, SMatrixArray.scan, SMatrix.multislice, SMatrixArray.multislice; eager and lazy (both are run); "
        "max_batch_reduction 1/3/auto with dask chunk-size 128 MB or 48 KiB; non-trivial = at least one non-zero aberration coefficient and "
        "at least two probe positions; distinct = distinct case signature")
CLAUSES = ["exit-wave:values", "exit-wave:total", "measurement:values", "window-probe:values", "window-probe:total",
           "lazy-equals-eager:values", "ctf-coefficients-unit-norm", "aberrated-exit-wave:values",
           "aberrated-window-probe:values", "aberrated-measurement:values"]
QUICK = dict(n=28, time=40)
THOROUGH = dict(n=5210, time=480, shards=16)

ABERRATIONS = ["C10", "C12", "C21", "C23", "C30", "C32", "C34", "C41", "C43", "C45", "C50", "C52", "C54", "C56"]
ANGLE_OF = {"C12": "phi12", "C21": "phi21", "C23": "phi23", "C32": "phi32", "C34": "phi34", "C41": "phi41",
            "C43": "phi43", "C45": "phi45", "C52": "phi52", "C54": "phi54", "C56": "phi56"}

# tolerances (float32 pipelines; calibrated, see final report)
RTOL_WAVE = 1e-4      # relative to max|psi| of the reference
RTOL_TOTAL = 5e-5
RTOL_MEAS = 1e-4      # relative to max of the reference measurement


# --------------------------------------------------------------------------- generation
def _wavelength(energy):
    h, c, me, e = 6.626070040e-34, 299792458.0, 9.10938356e-31, 1.6021766208e-19
    return h * c / np.sqrt(energy * e * (energy * e + 2 * me * c * c)) * 1e10


def _rand_aberrations(rng, energy, cutoff):
    """Random non-zero polar aberrations, scaled so that each gives a phase of 0.5-6 rad at the aperture edge."""
    lam = _wavelength(energy)
    a = cutoff * 1e-3
    k = int(rng.integers(1, 6))
    out = {}
    for sym in rng.choice(ABERRATIONS, size=k, replace=False):
        sym = str(sym)
        n = int(sym[1])
        phase = float(rng.uniform(0.5, 6.0)) * (1 if rng.random() < 0.5 else -1)
        # chi = 2 pi / lam * C / (n+1) * alpha^(n+1)
        out[sym] = float(phase * lam * (n + 1) / (2 * np.pi * a ** (n + 1)))
        if sym in ANGLE_OF:
            out[ANGLE_OF[sym]] = float(rng.uniform(-np.pi, np.pi))
    return out


def _rand_scan(rng):
    k = rng.random()
    if k < 0.45:
        n = int(rng.integers(1, 6))
        pts = rng.random((n, 2)).round(5).tolist()
        # hostile positions: origin, far corner, just inside the far edge, outside the cell
        specials = [[0.0, 0.0], [1.0, 1.0], [0.99999, 0.5], [0.5, 0.0], [-0.23, 0.31], [1.4, 1.2], [0.5, 0.5],
                    [2.3, 0.5], [0.25, -1.3]]
        for _ in range(int(rng.integers(0, 3))):
            pts.append(specials[int(rng.integers(0, len(specials)))])
        return {"kind": "custom", "points": pts}
    if k < 0.7:
        return {"kind": "line", "start": rng.random(2).round(5).tolist(), "end": rng.random(2).round(5).tolist(),
                "gpts": int(rng.integers(1, 6)), "endpoint": bool(rng.random() < 0.5)}
    if k < 0.92:
        s = (rng.random(2) * 0.5).round(5)
        e = (s + 0.1 + rng.random(2) * 0.5).round(5)
        g = [int(rng.integers(1, 4)), int(rng.integers(1, 4))]
        # a one-point scan with endpoint=True has zero extent and is refused by GridScan itself (not judged here)
        return {"kind": "grid", "start": s.tolist(), "end": e.tolist(), "gpts": g,
                "endpoint": bool(rng.random() < 0.5) and g != [1, 1]}
    return {"kind": "grid-default"}


def _fit_aperture(ug, ext, kcut_probe):
    """Enlarge the grid until the probe aperture *including its soft edge* (about one reciprocal pixel) fits inside
    the symmetric part of the grid kept by downsample="cutoff" (floor(2/3 N d/max d) points, lower parity): on
    coarser grids the down-sampled S-matrix cannot hold all beams of the equivalent probe and the two are not
    comparable (the property presupposes an S-matrix that contains the probe's beams)."""
    ug = [int(ug[0]), int(ug[1])]
    for _ in range(200):
        d = [ext[0] / ug[0], ext[1] / ug[1]]
        ok = True
        for i in range(2):
            kept = int(np.floor((2.0 / 3.0) / max(d) * ext[i] + 1e-9)) - 1     # at least this many points are kept
            m_sym = (kept - 1) // 2 - 1
            if kcut_probe * ext[i] + 1.5 > m_sym:
                ok = False
        if ok:
            break
        j = 0 if d[0] >= d[1] else 1
        ug[j] += 1
        if d[0] == d[1]:
            ug[1 - j] += 1
    return ug


def gen(rng, tier):
    mode = "full" if rng.random() < 0.6 else "window"
    energy = float(rng.choice([60e3, 80e3, 100e3, 200e3, 300e3]))
    lam = _wavelength(energy)
    cell = G.rand_cell_case(rng, max_atoms=4, max_xy=7.0, min_xy=4.0, max_z=5.0, min_z=2.0)
    if mode == "full":
        interp = [1, 1]
        potential = str(rng.choice(["none", "atoms", "atoms", "frozen"]))
        ug = G.rand_gpts(rng, 18, 40)
    else:
        interp = [[2, 2], [3, 3], [2, 2], [1, 2], [3, 1], [2, 3]][int(rng.integers(0, 6))]
        potential = str(rng.choice(["none", "none", "periodic"]))
        # unit (window) grid; the S-matrix grid is the unit grid times the interpolation
        ug = G.rand_gpts(rng, 10, 18)
        cell["cell"][0] = float(rng.uniform(3.0, 4.5))
        cell["cell"][1] = float(rng.uniform(3.0, 4.5))
        cell["positions"] = (np.array(cell["positions"]) % np.array(cell["cell"])).round(6).tolist()
    lx, ly = cell["cell"][0], cell["cell"][1]
    # the (window) probe must contain several beams, and the aperture must stay inside the anti-aliasing band
    lower = max(8.0, 2.2e3 * lam / min(lx, ly))
    cutoff = float(min(36.0, lower * rng.uniform(1.0, 2.2)))
    dmax = 0.8 * (2.0 / 3.0) * lam / (2.0 * cutoff * 1e-3)
    ug = [max(int(ug[0]), int(np.ceil(lx / dmax))), max(int(ug[1]), int(np.ceil(ly / dmax)))]
    ug = _fit_aperture(ug, (lx, ly), cutoff * 1e-3 / lam)
    gpts = [ug[0] * (interp[0] if mode == "window" else 1), ug[1] * (interp[1] if mode == "window" else 1)]
    ctf_cutoff = cutoff if rng.random() < 0.7 else float(cutoff * rng.uniform(0.6, 0.95))
    r = rng.random()
    if r < 0.3:
        ab, ens = {}, None
    else:
        ab = _rand_aberrations(rng, energy, ctf_cutoff)
        ens = None
        if r > 0.9:
            d = 2.0 * lam / (np.pi * (ctf_cutoff * 1e-3) ** 2)   # defocus step giving ~1 rad at the edge
            ens = [float(-d * rng.uniform(0.5, 3)), float(d * rng.uniform(0.2, 2)), float(d * rng.uniform(2.1, 4))][
                  : int(rng.integers(2, 4))]
    det = str(rng.choice(["none", "none", "annular", "flexible", "pixelated", "segmented", "two"]))
    routes = ["build-reduce", "build-reduce", "smatrix-reduce", "smatrix-scan", "array-scan"]
    if potential in ("atoms", "periodic"):
        routes += ["smatrix-multislice", "array-multislice"]
    route = str(rng.choice(routes))
    if route in ("smatrix-scan", "array-scan") and det == "none":
        det = "flexible"
    scan = _rand_scan(rng)
    if scan["kind"] == "grid-default":
        # the default scan is matched to the Nyquist sampling of the S-matrix cutoff / of the probe cutoff: only the
        # same scan when the two cut-offs agree
        ctf_cutoff = cutoff
    if scan["kind"] == "grid-default" and mode == "window":
        scan = {"kind": "grid", "start": [0.0, 0.0], "end": [1.0, 1.0], "gpts": [3, 2], "endpoint": False}
    return {
        "mode": mode, "energy": energy, "cell": cell, "potential": potential, "gpts": [int(g) for g in gpts],
        "interpolation": interp, "cutoff": cutoff, "ctf_cutoff": ctf_cutoff, "aberrations": ab, "defocus_ensemble": ens,
        "downsample": "cutoff" if rng.random() < 0.5 else False,
        "scan": scan, "detector": det, "route": route, "lazy": bool(rng.random() < 0.5),
        "max_batch_reduction": [1, 3, "auto"][int(rng.integers(0, 3))],
        "max_batch_multislice": ["auto", 5][int(rng.integers(0, 2))],
        "disable_chunks": bool(rng.random() < 0.5),
        "chunk_size": ["128 MB", "48 KiB"][int(rng.integers(0, 2))],
        "slice_thickness": float(rng.uniform(0.7, 2.0)),
        "num_configs": int(rng.integers(2, 4)), "fp_seed": int(rng.integers(0, 1000)),
    }


def fixed_cases(tier):
    """Deterministic witnesses: plain defocus / astigmatism on every route, so that the aberrated clauses are
    evaluated in every run whatever the random draw."""
    base = {"mode": "full", "energy": 100e3,
            "cell": {"cell": [5.0, 6.0, 4.0], "symbols": ["Si", "Au"], "positions": [[1.0, 1.0, 1.0], [3.0, 2.5, 2.0]]},
            "potential": "atoms", "gpts": [30, 36], "interpolation": [1, 1], "cutoff": 20.0, "ctf_cutoff": 20.0,
            "aberrations": {"C10": 80.0, "C30": -2e5, "C12": 30.0, "phi12": 0.7}, "defocus_ensemble": None,
            "downsample": False, "scan": {"kind": "custom", "points": [[0.24, 0.55], [0.0, 0.0], [0.98, 0.98]]},
            "detector": "none", "route": "build-reduce", "lazy": False, "max_batch_reduction": "auto",
            "max_batch_multislice": "auto", "disable_chunks": False, "chunk_size": "128 MB", "slice_thickness": 1.0,
            "num_configs": 2, "fp_seed": 3}
    out = [dict(base)]
    out.append(dict(base, detector="flexible", route="smatrix-scan", lazy=True, downsample="cutoff"))
    out.append(dict(base, potential="frozen", detector="annular", route="smatrix-reduce", lazy=True, disable_chunks=True))
    out.append(dict(base, detector="segmented", route="array-scan", max_batch_reduction=1,
                    scan={"kind": "grid", "start": [0.1, 0.2], "end": [0.6, 0.9], "gpts": [2, 3], "endpoint": True}))
    out.append(dict(base, mode="window", potential="none", gpts=[36, 30], interpolation=[3, 2],
                    cell=dict(base["cell"], cell=[4.0, 3.5, 4.0]), aberrations={"C10": -60.0, "C21": 900.0, "phi21": 1.0}))
    out.append(dict(base, mode="window", potential="periodic", gpts=[28, 32], interpolation=[2, 2], downsample="cutoff",
                    cell={"cell": [3.5, 4.0, 3.0], "symbols": ["Si"], "positions": [[1.0, 1.5, 1.0]]},
                    aberrations={"C10": 50.0}, lazy=True))
    # probe positions more than half a window outside the cell (periodic continuation), one reduction batch per position
    out.append(dict(base, mode="window", potential="none", gpts=[26, 32], interpolation=[2, 2],
                    cell=dict(base["cell"], cell=[3.8, 3.2, 4.0]), aberrations={"C10": 40.0, "C12": 25.0, "phi12": 0.4},
                    scan={"kind": "custom", "points": [[0.47, 0.85], [1.4, 1.2], [2.3, 0.5], [-0.6, 0.31], [0.1, -1.3]]},
                    max_batch_reduction=1))
    return out


# --------------------------------------------------------------------------- builders
def _potential(case, atoms, gpts, reps=None):
    import abtem
    kind = case["potential"]
    if kind == "none":
        return None
    if reps is not None:
        atoms = atoms * (reps[0], reps[1], 1)
    if kind == "frozen":
        fp = abtem.FrozenPhonons(atoms, num_configs=case["num_configs"], sigmas=0.1, seed=case["fp_seed"],
                                 ensemble_mean=False)
        return abtem.Potential(fp, gpts=tuple(gpts), slice_thickness=case["slice_thickness"])
    return abtem.Potential(atoms, gpts=tuple(gpts), slice_thickness=case["slice_thickness"])


def _aberr_kwargs(case):
    ab = dict(case["aberrations"])
    if case["defocus_ensemble"]:
        ab["C10"] = np.array(case["defocus_ensemble"], dtype=float)
    return ab


def _ctf(case):
    import abtem
    ab = _aberr_kwargs(case)
    return abtem.CTF(semiangle_cutoff=case["ctf_cutoff"], energy=case["energy"], **ab)


def _scan(case, extent):
    import abtem
    s = case["scan"]
    ex = np.asarray(extent, dtype=float)
    if s["kind"] == "custom":
        return abtem.CustomScan(np.asarray(s["points"], dtype=float) * ex)
    if s["kind"] == "line":
        return abtem.LineScan(start=tuple(np.asarray(s["start"]) * ex), end=tuple(np.asarray(s["end"]) * ex),
                              gpts=s["gpts"], endpoint=s["endpoint"])
    if s["kind"] == "grid":
        return abtem.GridScan(start=tuple(np.asarray(s["start"]) * ex), end=tuple(np.asarray(s["end"]) * ex),
                              gpts=tuple(s["gpts"]), endpoint=s["endpoint"])
    return abtem.GridScan()


def _detectors(case, probe):
    """Detectors with limits strictly inside the angular range kept by a down-sampled S-matrix."""
    import abtem
    d = case["detector"]
    amax = 0.9 * min(probe.cutoff_angles)
    ann = abtem.AnnularDetector(inner=0.15 * amax, outer=0.85 * amax)
    flex = abtem.FlexibleAnnularDetector(step_size=amax / 7.0, outer=0.9 * amax)
    if d == "annular":
        return ann
    if d == "flexible":
        return flex
    if d == "pixelated":
        return abtem.PixelatedDetector(max_angle="cutoff")
    if d == "segmented":
        return abtem.SegmentedDetector(nbins_radial=2, nbins_azimuthal=3, inner=0.1 * amax, outer=0.8 * amax)
    if d == "two":
        return [ann, abtem.WavesDetector()]
    return None


def _compute(x):
    if isinstance(x, (list, tuple)):
        return [_compute(v) for v in x]
    return x.compute() if getattr(x, "is_lazy", False) else x


def _run_prism(case, potential, extent, gpts, scan, ctf, detectors, lazy):
    """Run the code under test along the route of the case."""
    import abtem
    route = case["route"]
    kw = dict(semiangle_cutoff=case["cutoff"], energy=case["energy"], interpolation=tuple(case["interpolation"]),
              downsample=case["downsample"])
    mbr = case["max_batch_reduction"]
    if route in ("smatrix-multislice", "array-multislice"):
        vac = abtem.SMatrix(potential=None, gpts=tuple(gpts), extent=tuple(extent), **kw)
        if route == "smatrix-multislice":
            sa = vac.multislice(potential, lazy=lazy, max_batch=case["max_batch_multislice"])
        else:
            # vacuum S-matrix array (not down-sampled) pushed through the potential afterwards
            vac = abtem.SMatrix(potential=None, gpts=tuple(gpts), extent=tuple(extent), **dict(kw, downsample=False))
            sa = vac.build(lazy=lazy).multislice(potential)
        return _compute(sa.reduce(scan=scan, ctf=ctf, detectors=detectors, max_batch_reduction=mbr))
    if potential is None:
        s = abtem.SMatrix(potential=None, gpts=tuple(gpts), extent=tuple(extent), **kw)
    else:
        s = abtem.SMatrix(potential=potential, **kw)
    if route == "build-reduce":
        sa = s.build(lazy=lazy, max_batch=case["max_batch_multislice"])
        return _compute(sa.reduce(scan=scan, ctf=ctf, detectors=detectors, max_batch_reduction=mbr))
    if route == "array-scan":
        sa = s.build(lazy=lazy, max_batch=case["max_batch_multislice"])
        return _compute(sa.scan(scan=scan, ctf=ctf, detectors=detectors, max_batch_reduction=mbr))
    if route == "smatrix-reduce":
        return _compute(s.reduce(scan=scan, ctf=ctf, detectors=detectors, max_batch_reduction=mbr,
                                 max_batch_multislice=case["max_batch_multislice"],
                                 disable_s_matrix_chunks=case["disable_chunks"], lazy=lazy))
    if route == "smatrix-scan":
        return _compute(s.scan(scan=scan, ctf=ctf, detectors=detectors, max_batch_reduction=mbr,
                               max_batch_multislice=case["max_batch_multislice"],
                               disable_s_matrix_chunks=case["disable_chunks"], lazy=lazy))
    raise ValueError(route)


# --------------------------------------------------------------------------- reference models
def fourier_crop(psi, new):
    """Band-limit `psi` (..., n, m) to the grid `new` keeping the diffraction intensities |fft2 psi|^2 (float64)."""
    psi = np.asarray(psi, dtype=np.complex128)
    n, m = psi.shape[-2:]
    if (n, m) == tuple(new):
        return psi
    f = np.fft.fft2(psi)
    kx = np.fft.fftfreq(new[0], 1.0 / new[0]).astype(int)
    ky = np.fft.fftfreq(new[1], 1.0 / new[1]).astype(int)
    f = f[..., kx % n, :][..., ky % m]
    return np.fft.ifft2(f)


def total(psi):
    """Integrated diffraction intensity sum_k |fft2 psi|^2 / (nm)^... = nm * sum |psi|^2 (1 for a normalised probe)."""
    psi = np.asarray(psi)
    return (np.abs(psi.astype(np.complex128)) ** 2).sum((-2, -1)) * (psi.shape[-2] * psi.shape[-1])


def _central(a, shape):
    """Central (fftshifted-layout) block of the last two axes with the given shape (zero frequency aligned)."""
    out = a
    for ax, n in ((-2, shape[0]), (-1, shape[1])):
        N = out.shape[ax]
        c, cn = N // 2, n // 2
        sl = [slice(None)] * out.ndim
        sl[ax] = slice(c - cn, c - cn + n)
        out = out[tuple(sl)]
    return out


# --------------------------------------------------------------------------- check
def check(ctx, case):
    import abtem
    with abtem.config.set({"diagnostics.progress_bar": False, "dask.chunk-size": case["chunk_size"]}):
        _check(ctx, case)


def _check(ctx, case):
    import abtem
    from abtem.prism.s_matrix import SMatrixArray

    atoms = G.atoms_from(case["cell"])
    f = tuple(case["interpolation"])
    gpts = tuple(case["gpts"])
    mode = case["mode"]
    extent = (case["cell"]["cell"][0] * (f[0] if mode == "window" else 1),
              case["cell"]["cell"][1] * (f[1] if mode == "window" else 1))
    aberrated = any(v != 0.0 for k, v in case["aberrations"].items() if k.startswith("C")) or bool(case["defocus_ensemble"])
    pre = "aberrated-" if aberrated else ""

    potential = _potential(case, atoms, gpts, reps=f if mode == "window" else None)
    scan = _scan(case, extent)
    ctf = _ctf(case)
    ref_probe_full = abtem.Probe(energy=case["energy"], semiangle_cutoff=case["ctf_cutoff"], gpts=gpts, extent=extent,
                                 aberrations=_aberr_kwargs(case))
    detectors = _detectors(case, ref_probe_full)

    # ---- monitor inside the real pipeline: coefficient vector has unit 2-norm
    seen = {"n": 0}

    def wrap(orig):
        def _calculate_ctf_coefficients(self, ctf_):
            out = orig(self, ctf_)
            arr = np.asarray(out)
            nrm = (np.abs(arr.astype(np.complex128)) ** 2).sum(-1)
            seen["n"] += 1
            ctx.monitor("ctf-coefficient-evaluations")
            ctx.close(nrm, np.ones_like(nrm), "ctf-coefficients-unit-norm", rtol=1e-4, aberrated=aberrated)
            return out
        return _calculate_ctf_coefficients

    with G.Wrapped() as w:
        w.patch(SMatrixArray, "_calculate_ctf_coefficients", wrap)
        # lazy graphs run in dask threads; counters are plain python ints (GIL-protected increments)
        try:
            got = _run_prism(case, potential, extent, gpts, scan, ctf, detectors, case["lazy"])
        except Exception as e:
            # Nothing to compare when the conventional pipeline refuses the same workload with the same error
            # (e.g. an aberration ensemble + LineScan + AnnularDetector cannot allocate its measurement in either
            # pipeline: a detector/measurement matter outside this property).  Anything else is re-raised.
            if _reference_refuses(case, potential, extent, detectors, ref_probe_full, e):
                ctx.note("both-pipelines-refuse:" + type(e).__name__)
                return
            raise
        other = _run_prism(case, potential, extent, gpts, _scan(case, extent), _ctf(case),
                           _detectors(case, ref_probe_full), not case["lazy"])
    if seen["n"] == 0:
        ctx.expect(False, "ctf-coefficients-unit-norm", reason="monitor never reached")

    # ---- lazy == eager on the same route
    G.compare_objects(ctx, got, other, "lazy-equals-eager", rtol=RTOL_MEAS, atol_rel=1e-6, meta=True)

    got_list = got if isinstance(got, list) else [got]
    npos = int(np.prod(_scan_shape(got_list[0], case)))
    ctx.nontrivial(aberrated and npos >= 2)

    if mode == "full":
        _check_full(ctx, case, potential, extent, gpts, detectors, got_list, pre, ref_probe_full)
    else:
        _check_window(ctx, case, atoms, extent, gpts, f, detectors, got_list, pre)


def _reference_refuses(case, potential, extent, detectors, probe, err):
    try:
        scan = _scan(case, extent)
        if potential is None:
            import abtem
            potential = abtem.PotentialArray(np.zeros((1,) + tuple(probe.gpts), dtype=np.float32), slice_thickness=1.0,
                                             sampling=probe.sampling)
        probe.multislice(potential, scan=scan, detectors=detectors, lazy=False)
    except Exception as e2:
        return type(e2) is type(err) and str(e2) == str(err)
    return False


def _scan_shape(obj, case):
    s = case["scan"]
    if s["kind"] == "custom":
        return (len(s["points"]),)
    if s["kind"] == "line":
        return (s["gpts"],)
    if s["kind"] == "grid":
        return tuple(s["gpts"])
    from abtem.core.axes import ScanAxis
    return tuple(n for n, a in zip(obj.shape, obj.axes_metadata) if isinstance(a, ScanAxis))


def _check_full(ctx, case, potential, extent, gpts, detectors, got_list, pre, probe):
    import abtem
    scan = _scan(case, extent)
    if potential is None:
        # vacuum: the exit wave is the incident probe (multislice through nothing)
        ref = probe.build(scan=scan, lazy=False)
        if detectors is not None:
            dets = detectors if isinstance(detectors, list) else [detectors]
            ref = [d.detect(ref) for d in dets]
    else:
        ref = probe.multislice(potential, scan=scan, detectors=detectors, lazy=False)
    ref_list = list(ref) if isinstance(ref, (list, tuple)) else [ref]
    if not ctx.expect(len(ref_list) == len(got_list), "measurement:count", got=len(got_list), want=len(ref_list)):
        return
    for g, r in zip(got_list, ref_list):
        _compare(ctx, case, g, r, pre)


def _compare(ctx, case, g, r, pre):
    import abtem
    ga, ra = G.to_numpy(g), G.to_numpy(r)
    ctx.expect(type(g) is type(r), "measurement:type", got=type(g).__name__, want=type(r).__name__)
    if isinstance(r, abtem.Waves):
        ctx.monitor("exit-waves-compared")
        if not ctx.expect(ga.shape[:-2] == ra.shape[:-2], "exit-wave:shape", got=list(ga.shape), want=list(ra.shape)):
            return
        want = fourier_crop(ra, ga.shape[-2:])
        scale = float(np.abs(want).max())
        ok = ctx.close(ga, want, "exit-wave:values", rtol=RTOL_WAVE, scale=scale, route=case["route"])
        ctx.close(total(ga), total(want), "exit-wave:total", rtol=RTOL_TOTAL, scale=1.0)
        if pre:
            ctx.expect(ok, pre + "exit-wave:values", route=case["route"])
        return ok
    ctx.monitor("measurements-compared:" + type(r).__name__)
    if isinstance(r, abtem.measurements.DiffractionPatterns) and ga.shape != ra.shape:
        # pixelated measurement of a down-sampled S-matrix: compare the common central block of frequencies
        if not ctx.expect(ga.shape[:-2] == ra.shape[:-2], "measurement:shape", got=list(ga.shape), want=list(ra.shape)):
            return
        common = (min(ga.shape[-2], ra.shape[-2]), min(ga.shape[-1], ra.shape[-1]))
        ctx.note("pixelated-common-block")
        ga, ra = _central(ga, common), _central(ra, common)
    if not ctx.expect(ga.shape == ra.shape, "measurement:shape", got=list(ga.shape), want=list(ra.shape)):
        return
    scale = float(np.abs(ra).max())
    ok = ctx.close(ga, ra, "measurement:values", rtol=RTOL_MEAS, scale=scale, kind=type(r).__name__, route=case["route"])
    if pre:
        ctx.expect(ok, pre + "measurement:values", kind=type(r).__name__, route=case["route"])


def _check_window(ctx, case, atoms, extent, gpts, f, detectors, got_list, pre):
    """Interpolated S-matrix of a window-periodic system: reduced waves = shifted window probes."""
    import abtem
    unit_extent = (extent[0] / f[0], extent[1] / f[1])
    unit_gpts = (gpts[0] // f[0], gpts[1] // f[1])
    probe = abtem.Probe(energy=case["energy"], semiangle_cutoff=case["ctf_cutoff"], gpts=unit_gpts, extent=unit_extent,
                        aberrations=_aberr_kwargs(case))
    positions = np.asarray(_scan_positions(case, extent), dtype=np.float64)
    flat = positions.reshape(-1, 2)
    uscan = abtem.CustomScan(flat % np.asarray(unit_extent))
    if case["potential"] == "periodic":
        upot = abtem.Potential(atoms, gpts=unit_gpts, slice_thickness=case["slice_thickness"])
        uw = probe.multislice(upot, scan=uscan, lazy=False)
    else:
        uw = probe.build(scan=uscan, lazy=False)
    ua = G.to_numpy(uw)            # (ctf ensemble..., npos, ux, uy)

    waves = [g for g in got_list if isinstance(g, abtem.Waves)]
    meas = [g for g in got_list if not isinstance(g, abtem.Waves)]
    dets = [] if detectors is None else (detectors if isinstance(detectors, list) else [detectors])
    dets = [d for d in dets if not isinstance(d, abtem.WavesDetector)]

    for g in waves:
        ga = G.to_numpy(g)
        wg = ga.shape[-2:]
        if not ctx.expect(wg[0] * f[0] <= gpts[0] and wg[1] * f[1] <= gpts[1] and
                          ga.shape[:-2] == ua.shape[:-3] + positions.shape[:-1], "window-probe:shape",
                          got=list(ga.shape), unit=list(ua.shape)):
            continue
        ga = ga.reshape(ua.shape[:-3] + (flat.shape[0],) + wg)
        ref = fourier_crop(ua, wg)     # window grid of a down-sampled S-matrix
        d = (unit_extent[0] / wg[0], unit_extent[1] / wg[1])
        scale = float(np.abs(ref).max())
        ctx.monitor("window-waves-compared")
        for j, p in enumerate(flat):
            cands = _corner_candidates(p, d, wg)
            best = None
            for c in cands:
                want = np.roll(ref[..., j, :, :], (-c[0], -c[1]), axis=(-2, -1))
                res = float(np.abs(ga[..., j, :, :] - want).max())
                if best is None or res < best[0]:
                    best = (res, want)
            ok = ctx.close(ga[..., j, :, :], best[1], "window-probe:values", rtol=RTOL_WAVE, scale=scale,
                           position=p.tolist(), ncand=len(cands))
            if pre:
                ctx.expect(ok, pre + "window-probe:values", position=p.tolist())
        ctx.close(total(ga), total(ref), "window-probe:total", rtol=RTOL_TOTAL, scale=1.0)

    for g, det in zip(meas, dets):
        # reference measurement: the same detector on the window-probe exit waves (position independent of the shift)
        ref_waves = uw
        r = det.detect(ref_waves)
        ra = G.to_numpy(r)
        ga = G.to_numpy(g)
        if ga.size != ra.size and isinstance(r, abtem.measurements.DiffractionPatterns):
            tail = (min(ga.shape[-2], ra.shape[-2]), min(ga.shape[-1], ra.shape[-1]))
            ga = _central(ga, tail)
            ra = _central(ra, tail)
            ctx.note("pixelated-common-block")
        if not ctx.expect(ga.size == ra.size, "measurement:shape", got=list(ga.shape), want=list(ra.shape)):
            continue
        ga = ga.reshape(ra.shape)
        ctx.monitor("measurements-compared:" + type(r).__name__)
        ok = ctx.close(ga, ra, "measurement:values", rtol=RTOL_MEAS, scale=float(np.abs(ra).max()), kind=type(r).__name__,
                       route=case["route"], mode="window")
        if pre:
            ctx.expect(ok, pre + "measurement:values", kind=type(r).__name__, mode="window")


def _corner_candidates(p, d, wg):
    """Integer window corners rint(p/d - w//2); both neighbours when the argument is within 1e-3 of a tie."""
    out = [[], []]
    for i in range(2):
        t = p[i] / d[i] - (wg[i] // 2)
        fl = np.floor(t)
        fr = t - fl
        if abs(fr - 0.5) < 1e-3:
            out[i] = [int(fl), int(fl) + 1]
        else:
            out[i] = [int(np.rint(t))]
    return [(a, b) for a in out[0] for b in out[1]]


def _scan_positions(case, extent):
    """Probe positions of the case from first principles (float64), shape scan_shape + (2,)."""
    s = case["scan"]
    ex = np.asarray(extent, dtype=float)
    if s["kind"] == "custom":
        return np.asarray(s["points"], dtype=float) * ex
    if s["kind"] == "line":
        a, b = np.asarray(s["start"]) * ex, np.asarray(s["end"]) * ex
        t = np.linspace(0.0, 1.0, s["gpts"], endpoint=s["endpoint"])
        return a[None] + t[:, None] * (b - a)[None]
    if s["kind"] == "grid":
        a, b = np.asarray(s["start"]) * ex, np.asarray(s["end"]) * ex
        x = np.linspace(a[0], b[0], s["gpts"][0], endpoint=s["endpoint"])
        y = np.linspace(a[1], b[1], s["gpts"][1], endpoint=s["endpoint"])
        return np.stack(np.meshgrid(x, y, indexing="ij"), -1)
    return _scan(case, extent).get_positions()
