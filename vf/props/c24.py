"""C24 Electron energy relations match relativistic kinematics.

Oracle: closed forms evaluated in float64 (and, for a subsample, in 50-digit
decimal arithmetic) with a hard-coded CODATA-2014 constant set — the version ase.units
uses by default — so that an edit of a factor inside abtem.core.energy is seen.
Monitors run on the real functions and on the objects that expose them
(Accelerator, Waves/Probe/PlaneWave `.wavelength`, angular_sampling).
"""
import decimal
import math

import numpy as np

PROPERTY = "C24"
TECHNIQUE = "runtime monitoring; closed-form float64 / 50-digit decimal oracle with hard-coded CODATA constants on the real energy functions and on objects exposing them"
RULE = ("energies drawn log-uniformly from [1 eV, 10 MeV] plus boundary values; reciprocal samplings "
        "log-uniform; a case is non-trivial when it evaluates wavelength, sigma and angular sampling at a "
        "positive energy; distinct = distinct (kind, rounded energy) signature; refusal cases use 0, -0.0, "
        "negatives, -inf")
CLAUSES = ["wavelength-formula", "wavelength-decreasing", "sigma-formula", "sigma-positive",
           "angular-sampling", "nonpositive-rejected", "object-wavelength", "object-angular-sampling",
           "history-wavelength", "history-sigma", "history-angular-sampling"]
QUICK = dict(n=1500, time=40)
THOROUGH = dict(n=480000, time=480, shards=16)

# CODATA 2014 (ase.units default)
H = 6.626070040e-34
C = 299792458.0
ME = 9.10938356e-31
E = 1.6021766208e-19


def wl_ref(en):
    return H * C / math.sqrt(en * E * (en * E + 2 * ME * C * C)) * 1e10


def wl_ref_dec(en):
    decimal.getcontext().prec = 50
    D = decimal.Decimal
    ee = D(repr(float(en))) * D(repr(E))
    return float(D(repr(H)) * D(repr(C)) / (ee * (ee + 2 * D(repr(ME)) * D(repr(C)) ** 2)).sqrt() * D(10) ** 10)


def sigma_ref(en):
    m = ME * (1 + E * en / (ME * C * C))
    lam = wl_ref(en) * 1e-10
    return 2 * math.pi * m * E * lam / H ** 2 * 1e-10  # 1/(V Å)


def gen(rng, tier):
    k = rng.random()
    if k < 0.08:
        return {"kind": "reject", "energy": float(rng.choice([0.0, -0.0, -1.0, -1e-300, -1e5, -float("inf")]))}
    if k < 0.16:
        en = float(10 ** rng.uniform(3, 6.5))
        n = int(rng.integers(8, 40))
        m = int(rng.integers(8, 40))
        return {"kind": "object", "energy": en, "gpts": [n, m],
                "sampling": [float(rng.uniform(0.02, 0.4)), float(rng.uniform(0.02, 0.4))]}
    if k < 0.26:
        # history on ONE live object: the energy is re-assigned / matched several times; after every step the
        # object's wavelength, sigma and angular sampling must be those of its *current* energy
        n = int(rng.integers(2, 6))
        return {"kind": "history", "obj": str(rng.choice(["accelerator", "planewave", "probe", "waves", "ctf"])),
                "energies": [float(10 ** rng.uniform(3, 6.5)) for _ in range(n)],
                "how": [str(rng.choice(["set", "match", "match-from"])) for _ in range(n)],
                "gpts": [int(rng.integers(8, 30)), int(rng.integers(8, 30))],
                "sampling": [float(rng.uniform(0.03, 0.3)), float(rng.uniform(0.03, 0.3))]}
    en = float(10 ** rng.uniform(0, 7))
    if k < 0.32:
        en = float(rng.choice([1.0, 1e-3, 1e7, 511e3, 2 * 511e3, 300e3, 80e3]))
    return {"kind": "formula", "energy": en, "factor": float(1 + 10 ** rng.uniform(-9, 0)),
            "rs": [float(10 ** rng.uniform(-4, 1)), float(10 ** rng.uniform(-4, 1))]}


def check(ctx, case):
    from abtem.core import energy as en_mod
    en = case.get("energy")
    if case["kind"] == "reject":
        for name in ("energy2wavelength", "energy2sigma"):
            try:
                v = getattr(en_mod, name)(en)
            except ValueError:
                ctx.expect(True, "nonpositive-rejected")
            except Exception as e:  # any refusal is a refusal, but record its type
                ctx.note("reject-with-" + type(e).__name__)
                ctx.expect(True, "nonpositive-rejected")
            else:
                ctx.expect(False, "nonpositive-rejected", func=name, returned=v)
        try:
            en_mod.reciprocal_space_sampling_to_angular_sampling((0.1, 0.1), en)
        except Exception:
            ctx.expect(True, "nonpositive-rejected")
        else:
            ctx.expect(False, "nonpositive-rejected", func="angular_sampling")
        ctx.nontrivial()
        return

    if case["kind"] == "history":
        import abtem
        g, sm = tuple(case["gpts"]), tuple(case["sampling"])
        e0 = case["energies"][0]
        kind = case["obj"]
        if kind == "accelerator":
            obj = en_mod.Accelerator(energy=e0)
        elif kind == "planewave":
            obj = abtem.PlaneWave(energy=e0, gpts=g, sampling=sm)
        elif kind == "probe":
            obj = abtem.Probe(energy=e0, gpts=g, sampling=sm, semiangle_cutoff=10.0)
        elif kind == "ctf":
            obj = abtem.CTF(energy=e0, gpts=g, sampling=sm, semiangle_cutoff=10.0)
        else:
            obj = abtem.Waves(np.ones(g, dtype=np.complex64), energy=e0, sampling=sm)
        acc = obj if kind == "accelerator" else obj.accelerator

        def judge(e, step):
            ctx.close(acc.wavelength, wl_ref(e), "history-wavelength", rtol=1e-12, step=step, obj=kind)
            ctx.close(acc.sigma, sigma_ref(e), "history-sigma", rtol=1e-10, step=step, obj=kind)
            if kind != "accelerator":
                ctx.close(obj.wavelength, wl_ref(e), "history-wavelength", rtol=1e-12, step=step, obj=kind)
                want = tuple(1.0 / (n * d) * wl_ref(e) * 1e3 for n, d in zip(g, sm))
                ctx.close(obj.angular_sampling, want, "history-angular-sampling", rtol=1e-6, step=step, obj=kind)

        judge(e0, 0)
        for i, (e, how) in enumerate(zip(case["energies"][1:], case["how"][1:]), start=1):
            if how == "set":
                if kind == "accelerator":
                    obj.energy = e
                else:
                    obj.energy = e
            elif how == "match":
                acc.match(en_mod.Accelerator(energy=e))
            else:
                # another accelerator without energy adopts ours; ours must be unaffected, then we set
                other = en_mod.Accelerator()
                acc.match(other)
                ctx.close(other.wavelength, acc.wavelength, "history-wavelength", rtol=1e-12, step=i, obj="matched-other")
                acc.energy = e
            judge(e, i)
        ctx.nontrivial()
        return

    if case["kind"] == "object":
        import abtem
        g, s = tuple(case["gpts"]), tuple(case["sampling"])
        lam = wl_ref(en)
        for obj in (abtem.PlaneWave(energy=en, gpts=g, sampling=s),
                    abtem.Probe(energy=en, gpts=g, sampling=s, semiangle_cutoff=10.0),
                    abtem.Waves(np.ones(g, dtype=np.complex64), energy=en, sampling=s)):
            ctx.close(obj.wavelength, lam, "object-wavelength", rtol=1e-12, obj=type(obj).__name__)
            ctx.close(obj.accelerator.sigma, sigma_ref(en), "sigma-formula", rtol=1e-10)
            want = tuple(1.0 / (n * d) * lam * 1e3 for n, d in zip(g, s))
            ctx.close(obj.angular_sampling, want, "object-angular-sampling", rtol=1e-6, obj=type(obj).__name__)
        ctx.nontrivial()
        return

    lam = en_mod.energy2wavelength(en)
    ctx.close(lam, wl_ref(en), "wavelength-formula", rtol=1e-12)
    ctx.close(lam, wl_ref_dec(en), "wavelength-formula", rtol=1e-12)
    ctx.expect(lam > 0, "wavelength-formula", lam=lam)
    en2 = en * case["factor"]
    if en2 > en:
        lam2 = en_mod.energy2wavelength(en2)
        # strictly decreasing whenever the float64 reference itself resolves the step
        if wl_ref(en2) < wl_ref(en) * (1 - 1e-13):
            ctx.expect(lam2 < lam, "wavelength-decreasing", e1=en, e2=en2, l1=lam, l2=lam2)
    sig = en_mod.energy2sigma(en)
    ctx.expect(sig > 0, "sigma-positive", sigma=sig)
    ctx.close(sig, sigma_ref(en), "sigma-formula", rtol=1e-10)
    ctx.close(en_mod.energy2mass(en), ME * (1 + E * en / (ME * C * C)), "sigma-formula", rtol=1e-12)
    a = en_mod.reciprocal_space_sampling_to_angular_sampling(tuple(case["rs"]), en)
    ctx.close(a, [r * wl_ref(en) * 1e3 for r in case["rs"]], "angular-sampling", rtol=1e-12)
    acc = en_mod.Accelerator(energy=en)
    ctx.close(acc.wavelength, wl_ref(en), "object-wavelength", rtol=1e-12)
    ctx.nontrivial()
