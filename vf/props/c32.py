"""C32 API calls do not modify caller-owned inputs.

Oracle: deep snapshot before the call, bitwise comparison after it -- also when the call raises.

Part A (atoms).  A generated ASE `Atoms` (orthogonal / hexagonal / monoclinic / fcc-primitive / triclinic cells, atoms outside
the cell, near-zero and negative-zero cell components, mixed pbc, extra per-atom arrays) is handed to one public entry point:
`orthogonalize_cell` (all keyword arguments), `standardize_cell`, every other public function of `abtem.atoms` whose first
parameter is `atoms` (discovered by introspection), `Potential` (plane/origin/box/periodic/projection; transformed atoms,
sliced atoms, eager and lazy build), `FrozenPhonons` (all sigma forms; iteration, `randomize`, `to_atoms_ensemble`, potential
build), `AtomsEnsemble`, `StructureFactor`, `BlochWaves`, `SMatrix`.  The snapshot holds dtype, shape and raw bytes of
positions, numbers, every other per-atom array, the cell and pbc, plus `info`.  Exceptions raised by the entry point are
allowed (not every cell can be orthogonalized): the atoms must be unchanged then as well.

Part B (measurements).  For Images / DiffractionPatterns / PolarMeasurements / line profiles / IndexedDiffractionPatterns /
MeasurementsEnsemble receivers (real and complex, eager and lazy, 0-2 ensemble axes) every public method is discovered by
introspection and called with generated arguments (recipes below; methods without a recipe are called without arguments when
their signature allows it and are otherwise listed in the evidence as `no-recipe:<name>`).  Before and after each call the
receiver's `__dict__` is frozen recursively (array bytes + identity, dask graph name, metadata dict, axes dataclasses, sampling
...); lazy results are computed before the second snapshot, because an in-place operation inside a task would alter the
caller's array only then.  After the call with the recipe's arguments each method is called again with one keyword at a time set
to a non-default option discovered from its signature, docstring and source (`keyword_options`).  Methods that are in-place by contract (`compute`, `set_ensemble_axes_metadata`) and I/O or plotting
methods (`show`, `to_zarr`, `to_tiff`, `to_gpu`) are not called.
"""
import copy
import dataclasses
import inspect
import math
import warnings

import numpy as np

PROPERTY = "C32"
TECHNIQUE = "runtime monitoring; deep before/after snapshots (bitwise) around real API calls, entry points and measurement methods discovered by introspection"
RULE = ("part A: structure kind (ortho/hex/hex60/monoclinic/fcc-primitive/triclinic/tiny-offdiagonal), 0-5 atoms with scaled positions "
        "in [-0.6,1.6] or exactly on faces/corners, pbc pattern, optional tags; vector arguments as tuple/list/ndarray/ints, box equal "
        "to the cell, zero tolerances/repetitions/sigmas, seed 0; entry point drawn from orthogonalize_cell, standardize_cell, abtem.atoms helpers, "
        "potential, frozen_phonons, atoms_ensemble, structure_factor, bloch_waves, smatrix with random keyword arguments; part B: "
        "receiver class (7), real/complex, eager/lazy, ensemble axes incl. size 1, size-1 base axes, then every public method with generated "
        "or (40 %) boundary arguments (zero widths, unit repetitions, full crops, dose 0, seed 0, numpy scalar indices), followed by "
        "single-keyword variants with non-default options found by introspection (bool flipped; string options from the docstring "
        "entry and from the literals the source compares the keyword with, plus 'none'/None; numbers 0/1): all of them in the fixed "
        "and 15 % of the random cases, two per method otherwise; non-trivial "
        "= the entry point returned normally at least once (A) / at least 10 methods returned a new measurement (B); distinct = "
        "distinct case signature")
CLAUSES = ["atoms-unchanged-after-return", "atoms-unchanged-after-exception", "receiver-unchanged:returns-new",
           "receiver-unchanged:raised", "receiver-unchanged:other-return", "keyword-variant-evaluated"]
QUICK = dict(n=60, time=35)
THOROUGH = dict(n=5270, time=480, shards=16)

ATOM_OPS = ["orthogonalize_cell", "orthogonalize_cell", "orthogonalize_cell", "standardize_cell", "helper", "helper", "potential",
            "potential", "frozen_phonons", "frozen_phonons", "atoms_ensemble", "atoms_ensemble", "structure_factor", "bloch_waves",
            "smatrix"]
STRUCT_KINDS = ["ortho", "ortho", "hex", "hex60", "monoclinic", "fcc", "triclinic", "tiny"]
RECEIVERS = ["images", "images", "dp", "dp", "polar", "rline", "kline", "indexed", "ensemble"]
IN_PLACE_BY_CONTRACT = {"compute", "set_ensemble_axes_metadata"}
# returns a float, and its first call spends ~15 s in numba compilation: thorough tier only
QUICK_SKIP = {"max_reciprocal_space_vector_length"}
# one variant per case is enough for these (numba compilation / large intermediate arrays)
HEAVY_VARIANTS = {"index_diffraction_spots", "to_diffraction_patterns", "scan_noise"}
NOT_CALLED = {"show", "to_zarr", "to_tiff", "to_gpu", "from_zarr", "from_array_and_metadata"}


# =========================================================================== part A: atoms
def gen_structure(rng):
    kind = str(rng.choice(STRUCT_KINDS))
    a = float(rng.uniform(2.4, 4.2))
    b = float(rng.uniform(2.4, 4.2))
    c = float(rng.uniform(2.5, 6.0))
    n = int(rng.integers(1, 6))
    if rng.random() < 0.04:
        n = 0                                   # no atoms at all
    scaled = rng.uniform(-0.6, 1.6, size=(n, 3)).round(4)
    if n and rng.random() < 0.3:                # atoms exactly on faces / corners / one period outside
        scaled[int(rng.integers(0, n))] = rng.choice([0.0, 1.0, -1.0, 2.0, 0.5], size=3)
    return {"kind": kind, "a": a, "b": b, "c": c, "gamma": float(rng.uniform(50, 130)),
            "symbols": [str(rng.choice(["C", "Si", "O", "Au", "N", "Al"])) for _ in range(n)],
            "scaled": scaled.tolist(),
            "pbc": [True, True, True] if rng.random() < 0.6 else [bool(rng.random() < 0.5) for _ in range(3)],
            "tags": bool(rng.random() < 0.3), "eps": float(rng.choice([1e-9, 1e-8, 3e-7, -2e-8])), "seed": int(rng.integers(0, 2 ** 31))}


def build_atoms(s):
    from ase import Atoms
    a, b, c = s["a"], s["b"], s["c"]
    k = s["kind"]
    if k == "ortho":
        cell = np.diag([a, b, c])
    elif k == "hex":
        cell = np.array([[a, 0, 0], [-a / 2, a * math.sqrt(3) / 2, 0], [0, 0, c]])
    elif k == "hex60":
        cell = np.array([[a, 0, 0], [a / 2, a * math.sqrt(3) / 2, 0], [0, 0, c]])
    elif k == "monoclinic":
        g = math.radians(s["gamma"])
        cell = np.array([[a, 0, 0], [b * math.cos(g), b * math.sin(g), 0], [0, 0, c]])
    elif k == "fcc":
        cell = np.array([[0, a / 2, a / 2], [a / 2, 0, a / 2], [a / 2, a / 2, 0]]) * 1.6
    elif k == "triclinic":
        r = np.random.default_rng(s["seed"])
        cell = np.diag([a, b, c]) + r.uniform(-0.8, 0.8, size=(3, 3))
    else:  # tiny off-diagonal components and a negative zero
        cell = np.diag([a, b, c]).astype(float)
        cell[0, 1] = s["eps"]
        cell[2, 0] = -s["eps"]
        cell[1, 2] = -0.0
    scaled = np.array(s["scaled"], dtype=float).reshape(-1, 3)
    atoms = Atoms(symbols=s["symbols"], cell=cell, pbc=s["pbc"])
    if len(atoms):
        atoms.set_scaled_positions(scaled)
    # set_scaled_positions wraps nothing; make sure some atoms really are outside
    atoms.positions[:] = scaled @ cell
    if s["tags"]:
        atoms.set_tags(list(range(len(atoms))))
    atoms.info["vf"] = {"note": "caller data", "values": [1, 2, 3]}
    return atoms


def snap_atoms(atoms):
    out = {}
    for k, v in atoms.arrays.items():
        out["arrays." + k] = (v.dtype.str, v.shape, v.tobytes())
    cell = np.asarray(atoms.cell.array)
    out["cell"] = (cell.dtype.str, cell.shape, cell.tobytes())
    out["pbc"] = (atoms.pbc.dtype.str, atoms.pbc.shape, atoms.pbc.tobytes())
    out["info"] = repr(atoms.info)
    out["len"] = len(atoms)
    out["constraints"] = repr(atoms.constraints)
    out["calc"] = id(atoms.calc)
    return out


def diff_snap(before, after):
    keys = sorted(set(before) | set(after))
    return [k for k in keys if before.get(k) != after.get(k)]


def gen_atom_params(rng, op):
    plane = str(rng.choice(["xy", "xy", "xy", "xz", "yz", "yx", "zx", "zy"]))
    origin = [0.0, 0.0, 0.0] if rng.random() < 0.5 else [float(x) for x in rng.uniform(-1.5, 1.5, size=3).round(3)]
    box = None if rng.random() < 0.6 else [float(x) for x in rng.uniform(3.0, 9.0, size=3).round(3)]
    p = {"plane": plane, "origin": origin, "box": box, "box_is_cell": bool(rng.random() < 0.15),
         "vec_as": str(rng.choice(["tuple", "tuple", "tuple", "list", "ndarray", "int-tuple"]))}
    if op == "orthogonalize_cell":
        p.update(max_repetitions=int(rng.choice([0, 1, 1, 2, 3, 4, 5])), return_transform=bool(rng.random() < 0.3),
                 return_transform_matrix=bool(rng.random() < 0.3), allow_transform=bool(rng.random() < 0.7),
                 tolerance=float(rng.choice([0.01, 0.001, 0.1, 0.0])), defaults=bool(rng.random() < 0.3))
    elif op == "standardize_cell":
        p = {"tol": float(rng.choice([1e-12, 1e-9, 1e-6]))}
    elif op == "helper":
        p.update(index=int(rng.integers(0, 64)), margin=float(rng.uniform(0.0, 3.0)), axis=int(rng.integers(0, 3)),
                 angles=[float(x) for x in rng.uniform(-3, 3, size=3).round(3)], tol=float(rng.choice([1e-7, 1e-3, 0.5])))
    elif op in ("potential", "frozen_phonons", "atoms_ensemble"):
        p.update(gpts=int(rng.integers(12, 25)), slice_thickness=float(rng.uniform(0.8, 2.5)),
                 projection=str(rng.choice(["infinite", "infinite", "finite"])), periodic=bool(rng.random() < 0.8),
                 lazy=bool(rng.random() < 0.4), actions=[str(x) for x in rng.choice(
                     ["transformed", "sliced", "build", "build", "len"], size=int(rng.integers(1, 4)))],
                 num_configs=int(rng.choice([1, 1, 2, 3])), sigmas=str(rng.choice(["float", "dict", "list", "aniso", "zero"])),
                 directions=str(rng.choice(["xyz", "xy", "z"])), fp_seed=int(rng.choice([0, 0, 1, 2 ** 32 - 1, int(rng.integers(0, 1000))])),
                 ensemble_mean=bool(rng.random() < 0.5))
        if rng.random() < 0.5:
            p["plane"] = "xy"
    elif op in ("structure_factor", "bloch_waves"):
        p = {"g_max": float(rng.uniform(1.0, 2.0)), "sg_max": float(rng.uniform(0.05, 0.15)), "energy": float(rng.choice([80e3, 200e3])),
             "thermal_sigma": float(rng.choice([0.0, 0.08])), "via": str(rng.choice(["atoms", "structure_factor"])),
             "thickness": [float(x) for x in rng.uniform(5, 60, size=2).round(2)], "what": str(rng.choice(["dp", "exit", "none"]))}
    elif op == "smatrix":
        p = {"gpts": int(rng.integers(16, 28)), "energy": float(rng.choice([80e3, 200e3])), "cutoff": float(rng.uniform(5, 12)),
             "interpolation": int(rng.choice([1, 1, 2])), "lazy": bool(rng.random() < 0.4), "action": str(rng.choice(["build", "none"]))}
    return p


def atoms_helpers():
    import abtem.atoms as A
    out = []
    for n in sorted(dir(A)):
        f = getattr(A, n)
        if n.startswith("_") or not inspect.isfunction(f) or f.__module__ != A.__name__:
            continue
        params = list(inspect.signature(f).parameters)
        if params and params[0] in ("atoms", "cell") and n not in ("orthogonalize_cell", "standardize_cell", "best_orthogonal_cell"):
            out.append(n)
    return out


def _sigmas(kind, atoms):
    if kind == "float":
        return 0.1
    if kind == "zero":
        return 0.0
    if kind == "dict":
        return {s: 0.05 + 0.01 * i for i, s in enumerate(sorted(set(atoms.get_chemical_symbols())))}
    if kind == "list":
        return [0.05 + 0.01 * i for i in range(len(atoms))]
    return (0.05, 0.1, 0.02)


def _potential_actions(pot, p, ctx):
    for act in p["actions"]:
        if act == "transformed" and hasattr(pot, "get_transformed_atoms"):
            pot.get_transformed_atoms()
        elif act == "sliced" and hasattr(pot, "get_sliced_atoms") and not pot.ensemble_shape:
            pot.get_sliced_atoms()
        elif act == "build":
            arr = pot.build(lazy=p["lazy"])
            if p["lazy"]:
                arr.compute()
        else:
            len(pot)


def run_atom_op(ctx, op, atoms, p):
    """Calls the entry point; returns the names of the sub-steps that returned normally."""
    import abtem
    import abtem.atoms as A
    def tup(x):
        if x is None:
            return None
        form = p.get("vec_as", "tuple")
        if form == "list":
            return list(x)
        if form == "ndarray":
            return np.array(x, dtype=float)
        if form == "int-tuple" and all(float(v) == int(v) for v in x):
            return tuple(int(v) for v in x)
        return tuple(x)
    if p.get("box_is_cell") and "box" in p:
        # the box that already is the cell: the early-return path of orthogonalize_cell / no transform in Potential
        p = dict(p, box=[float(v) for v in np.diag(np.asarray(atoms.cell.array))])
    if op == "orthogonalize_cell":
        if p["defaults"]:
            A.orthogonalize_cell(atoms)
        else:
            A.orthogonalize_cell(atoms, max_repetitions=p["max_repetitions"], return_transform=p["return_transform"],
                                 return_transform_matrix=p["return_transform_matrix"], allow_transform=p["allow_transform"],
                                 plane=p["plane"], origin=tup(p["origin"]), box=tup(p["box"]), tolerance=p["tolerance"])
    elif op == "standardize_cell":
        A.standardize_cell(atoms, tol=p["tol"])
    elif op == "helper":
        names = atoms_helpers()
        name = names[p["index"] % len(names)]
        ctx.monitor("helper:" + name)
        f = getattr(A, name)
        sig = inspect.signature(f).parameters
        kw = {}
        if "margin" in sig:
            kw["margin"] = p["margin"]
        if "margins" in sig:
            kw["margins"] = p["margin"]
        if "axis" in sig:
            kw["axis"] = p["axis"]
        if "angles" in sig:
            kw["angles"] = tuple(p["angles"])
        if "plane" in sig:
            kw["plane"] = p["plane"]
        if "origin" in sig:
            kw["origin"] = tup(p["origin"])
        if "cell" in sig and name == "cut_cell":
            kw["cell"] = tup(p["box"])
        if "tol" in sig:
            kw["tol"] = p["tol"]
        if "props" in sig:
            kw["props"] = _sigmas("dict", atoms)
        if "sigmas" in sig:
            kw["sigmas"] = _sigmas("list", atoms)
        f(atoms, **kw)
    elif op == "potential":
        pot = abtem.Potential(atoms, gpts=p["gpts"], slice_thickness=p["slice_thickness"], projection=p["projection"],
                              plane=p["plane"], origin=tup(p["origin"]), box=tup(p["box"]), periodic=p["periodic"])
        _potential_actions(pot, p, ctx)
    elif op == "frozen_phonons":
        fp = abtem.FrozenPhonons(atoms, num_configs=p["num_configs"], sigmas=_sigmas(p["sigmas"], atoms), directions=p["directions"],
                                 seed=p["fp_seed"], ensemble_mean=p["ensemble_mean"])
        ctx.monitor("fp:constructed")
        fp.randomize(fp.atoms)
        list(fp)
        fp.to_atoms_ensemble()
        ctx.monitor("fp:randomized")
        pot = abtem.Potential(fp, gpts=p["gpts"], slice_thickness=p["slice_thickness"], projection=p["projection"],
                              plane=p["plane"], origin=tup(p["origin"]), box=tup(p["box"]), periodic=p["periodic"])
        _potential_actions(pot, p, ctx)
    elif op == "atoms_ensemble":
        ens = abtem.AtomsEnsemble([atoms, atoms], ensemble_mean=p["ensemble_mean"])
        ens[0]
        list(ens)
        pot = abtem.Potential(ens, gpts=p["gpts"], slice_thickness=p["slice_thickness"], projection=p["projection"],
                              plane=p["plane"], origin=tup(p["origin"]), box=tup(p["box"]), periodic=p["periodic"])
        _potential_actions(pot, p, ctx)
    elif op in ("structure_factor", "bloch_waves"):
        from abtem.bloch import BlochWaves, StructureFactor
        sf = StructureFactor(atoms, g_max=p["g_max"], thermal_sigma=p["thermal_sigma"])
        ctx.monitor("sf:constructed")
        if op == "structure_factor":
            sf.build(lazy=False)
            sf.get_projected_potential(slice_thickness=1.0, sampling=0.3) if p["what"] == "exit" else None
        else:
            bw = BlochWaves(atoms if p["via"] == "atoms" else sf, energy=p["energy"], sg_max=p["sg_max"], g_max=p["g_max"])
            ctx.monitor("bw:constructed")
            if p["what"] == "dp":
                bw.calculate_diffraction_patterns(p["thickness"], lazy=False)
            elif p["what"] == "exit":
                bw.calculate_exit_waves(p["thickness"], lazy=False)
    elif op == "smatrix":
        s = abtem.SMatrix(potential=atoms, energy=p["energy"], semiangle_cutoff=p["cutoff"], gpts=p["gpts"],
                          interpolation=p["interpolation"])
        ctx.monitor("smatrix:constructed")
        if p["action"] == "build":
            out = s.build(lazy=p["lazy"])
            if p["lazy"]:
                out.compute()


def check_atoms(ctx, case):
    atoms = build_atoms(case["structure"])
    twin = build_atoms(case["structure"])
    before = snap_atoms(atoms)
    raised = None
    with warnings.catch_warnings():
        warnings.simplefilter("ignore")
        try:
            run_atom_op(ctx, case["op"], atoms, case["params"])
        except Exception as e:       # refusals are allowed; the input must be intact all the same
            raised = type(e).__name__
            ctx.note("api-raised:%s:%s" % (case["op"], raised))
    after = snap_atoms(atoms)
    changed = diff_snap(before, after)
    clause = "atoms-unchanged-after-exception" if raised else "atoms-unchanged-after-return"
    detail = {}
    if changed:
        detail = {"changed": changed, "max_position_shift": float(np.abs(atoms.positions - twin.positions).max())
                  if atoms.positions.shape == twin.positions.shape else None,
                  "max_cell_change": float(np.abs(np.asarray(atoms.cell.array) - np.asarray(twin.cell.array)).max())}
    ctx.expect(not changed, clause, op=case["op"], raised=raised, **detail)
    ctx.monitor("op:%s:%s" % (case["op"], "raised" if raised else "returned"))
    ctx.monitor("structure:" + case["structure"]["kind"])
    ctx.nontrivial(raised is None)


# =========================================================================== part B: measurements
def freeze(v, depth=0):
    import dask.array as da
    if isinstance(v, np.ndarray):
        if v.dtype == object:
            return ("ndobj", v.shape, [freeze(x, depth + 1) for x in v.ravel().tolist()])
        return ("nd", v.dtype.str, v.shape, v.tobytes(), id(v))
    if isinstance(v, da.Array):
        return ("da", v.name, v.chunks, str(v.dtype), id(v))
    if isinstance(v, dict):
        return ("dict", sorted((repr(k), freeze(x, depth + 1)) for k, x in v.items()))
    if isinstance(v, (list, tuple)):
        return (type(v).__name__, [freeze(x, depth + 1) for x in v])
    if dataclasses.is_dataclass(v) and not isinstance(v, type):
        return ("dc", type(v).__name__, freeze({f.name: getattr(v, f.name) for f in dataclasses.fields(v)}, depth + 1))
    if isinstance(v, (bool, int, float, complex, str, bytes, type(None), np.generic)):
        return ("v", type(v).__name__, repr(v))
    if hasattr(v, "__dict__") and depth < 6:
        return ("obj", type(v).__name__, freeze(vars(v), depth + 1))
    return ("repr", type(v).__name__, repr(v))


def snap_receiver(obj, base):
    d = {k: freeze(v) for k, v in vars(obj).items()}
    if base is not None:
        d["<numpy array behind the lazy receiver>"] = ("nd", base.dtype.str, base.shape, base.tobytes(), id(base))
    # the public views as well (they are what the statement names)
    d["<metadata>"] = freeze(obj.metadata)
    d["<axes_metadata>"] = freeze(list(obj.axes_metadata))
    return d


def gen_measurement(rng):
    kind = str(rng.choice(RECEIVERS))
    base = [int(rng.integers(12, 21)), int(rng.integers(12, 21))]
    if kind in ("rline", "kline"):
        base = [int(rng.integers(16, 40))]
    n_ens = int(rng.choice([0, 1, 2]))
    if kind in ("dp", "polar", "indexed") and rng.random() < 0.6:
        n_ens = 2
    ens = [{"kind": str(rng.choice(["ordinal", "fp", "plain"])), "n": int(rng.integers(1, 4))} for _ in range(n_ens)]
    if kind in ("dp", "polar", "indexed") and n_ens == 2 and rng.random() < 0.8:
        for e in ens:
            e["kind"] = "scan"
    if kind == "ensemble" and not ens:
        ens = [{"kind": "ordinal", "n": 3}]
    if kind in ("images", "rline", "kline", "ensemble") and rng.random() < 0.1:
        base[int(rng.integers(0, len(base)))] = 1          # size-1 base axis
    return {"kind": kind, "base": base, "ens": ens, "complex": bool(rng.random() < 0.5), "lazy": bool(rng.random() < 0.4),
            "hostile": bool(rng.random() < 0.4), "variants": "all" if rng.random() < 0.15 else "some",
            "chunk_members": bool(rng.random() < 0.5), "seed": int(rng.integers(0, 2 ** 31)),
            "extra_metadata": bool(rng.random() < 0.5)}


def build_receiver(case):
    """Returns (receiver, numpy array behind it or None)."""
    import dask.array as da
    from abtem import measurements as M
    from abtem.core import axes as A
    rng = np.random.default_rng(case["seed"])
    shape = tuple(e["n"] for e in case["ens"]) + tuple(case["base"])
    kind = case["kind"]
    arr = rng.random(shape).astype(np.float32) + 0.05
    cplx = case["complex"] and kind not in ("indexed",)
    if cplx:
        arr = (arr * np.exp(2j * np.pi * rng.random(shape))).astype(np.complex64)
    axes = []
    for i, e in enumerate(case["ens"]):
        if e["kind"] == "ordinal":
            axes.append(A.OrdinalAxis(label="p%d" % i, values=tuple(float(v) for v in range(e["n"]))))
        elif e["kind"] == "scan":
            axes.append(A.ScanAxis(label="xy"[i % 2], sampling=0.3 + 0.2 * i, units="Å"))
        elif e["kind"] == "fp":
            axes.append(A.FrozenPhononsAxis(_ensemble_mean=True))
        else:
            axes.append(A.AxisMetadata(label="a%d" % i))
    md = {"energy": 100e3, "label": "caller label", "units": "caller units"}
    if case["extra_metadata"]:
        md.update({"caller": {"nested": [1, 2, 3]}, "base_tilt_x": 0.0})
    base = None
    data = arr
    if case["lazy"] and kind != "indexed":
        chunks = tuple(1 if case["chunk_members"] else e["n"] for e in case["ens"]) + tuple(case["base"])
        base = arr
        data = da.from_array(arr, chunks=chunks)
    if kind == "images":
        obj = M.Images(data, sampling=(0.2, 0.25), ensemble_axes_metadata=axes, metadata=md)
    elif kind in ("dp", "indexed"):
        obj = M.DiffractionPatterns(data, sampling=(0.05, 0.04), fftshift=True, ensemble_axes_metadata=axes, metadata=md)
        if kind == "indexed":
            obj = obj.index_diffraction_spots(cell=4.0)
            if hasattr(obj.array, "compute"):
                obj = obj.compute()
    elif kind == "polar":
        obj = M.PolarMeasurements(data, radial_sampling=5.0, azimuthal_sampling=2 * np.pi / case["base"][1],
                                  ensemble_axes_metadata=axes, metadata=md)
    elif kind == "rline":
        obj = M.RealSpaceLineProfiles(data, sampling=0.1, ensemble_axes_metadata=axes, metadata=md)
    elif kind == "kline":
        obj = M.ReciprocalSpaceLineProfiles(data, sampling=0.02, ensemble_axes_metadata=axes, metadata=md)
    else:
        obj = M.MeasurementsEnsemble(data, ensemble_axes_metadata=axes + [A.AxisMetadata(label="b%d" % i)
                                                                         for i in range(len(case["base"]))], metadata=md)
    return obj, base


def public_methods(obj):
    out = []
    for name in sorted(dir(type(obj))):
        if name.startswith("_"):
            continue
        raw = inspect.getattr_static(type(obj), name)
        if isinstance(raw, (property, classmethod, staticmethod)):
            continue
        if callable(raw):
            out.append(name)
    return out


def recipe(obj, name, rng, case):
    """Keyword arguments for `obj.name(...)`, {} for a call without arguments, None when the method needs arguments
    that this table does not know (reported as no-recipe)."""
    from abtem import measurements as M
    kind = case["kind"]
    n_ens = len(obj.ensemble_shape)
    u = lambda lo, hi: float(rng.uniform(lo, hi))
    R = {
        "apply_func": lambda: {"func": _double},
        "relative_difference": lambda: {"other": obj.copy(), "min_relative_tol": u(0, 0.1)},
        "expand_dims": lambda: {},
        "squeeze": lambda: {},
        "get_items": lambda: {"items": 0} if n_ens else None,
        "rechunk": lambda: {"chunks": tuple(1 for _ in obj.ensemble_shape) + tuple(obj.base_shape)},
        "copy_to_device": lambda: {"device": "cpu"},
        "get_from_metadata": lambda: {"name": "energy"},
        "poisson_noise": lambda: {"total_dose": u(10, 1e4), "samples": int(rng.integers(1, 3)), "seed": 1},
        "generate_blocks": lambda: {},
        "ensemble_blocks": lambda: {},
        "apply_transform": lambda: {"transform": _noise_transform()},
        "tile": lambda: {"repetitions": (2, 1) if kind == "images" else 2},
        "width": lambda: {"height": 0.5},
    }
    for red in ("mean", "sum", "std", "min", "max"):
        R[red] = lambda: ({"axis": int(rng.integers(0, n_ens)), "keepdims": bool(rng.random() < 0.3)} if n_ens and rng.random() < 0.7 else {})
    if kind == "images":
        ext = (obj.extent[0], obj.extent[1])
        R.update({
            "crop": lambda: {"extent": (ext[0] * u(0.3, 0.8), ext[1] * u(0.3, 0.8)), "offset": (u(0, 0.5), u(0, 0.5))},
            "interpolate": lambda: ({"sampling": u(0.08, 0.3)} if rng.random() < 0.5 else
                                    {"gpts": (int(rng.integers(8, 30)), int(rng.integers(8, 30)))}),
            "gaussian_filter": lambda: {"sigma": u(0.1, 0.6)},
            "integrate_disc": lambda: {"position": np.array([ext[0] / 2, ext[1] / 2]), "radius": u(0.2, 1.0)},
            "interpolate_line": lambda: {"start": (0.0, 0.0), "end": (ext[0] * 0.8, ext[1] * 0.7)},
            "interpolate_line_at_position": lambda: {"center": (ext[0] / 2, ext[1] / 2), "angle": u(0, 90), "extent": 1.0},
            "scan_noise": lambda: {"dwell_time": 1e-5, "flyback_time": 1e-4, "rms_power": 1.0, "num_components": 10},
        })
    if kind == "dp":
        R.update({
            "bandlimit": lambda: {"inner": u(0, 5), "outer": u(8, 20)},
            "block_direct": lambda: {},
            "crop": lambda: {"max_angle": u(6, 12)},
            "gaussian_source_size": lambda: {"sigma": u(0.2, 0.6)},
            "gaussian_filter": lambda: {"sigma": u(0.01, 0.05)},
            "integrate_radial": lambda: {"inner": u(0, 4), "outer": u(6, 12)},
            "interpolate": lambda: {"sampling": "uniform"} if rng.random() < 0.5 else {"sampling": u(0.03, 0.08)},
            "interpolate_line": lambda: {"start": (0.0, 0.0), "end": (0.2, 0.2)},
            "interpolate_line_at_position": lambda: {"center": (0.0, 0.0), "angle": u(0, 90), "extent": 0.2},
            "polar_binning": lambda: {"nbins_radial": 3, "nbins_azimuthal": 4, "outer": u(8, 12)},
            "radial_binning": lambda: {"step_size": 2.0, "outer": u(8, 12)},
            "tile_scan": lambda: {"repetitions": (2, 1)},
            "index_diffraction_spots": lambda: {"cell": 4.0},
            "azimuthal_average": lambda: {},
            "center_of_mass": lambda: {},
        })
    if kind == "polar":
        nb = obj.base_shape[1]
        R.update({
            "differentials": lambda: {"direction_1": (0, nb // 2), "direction_2": (nb // 4, nb // 4 + nb // 2)},
            "integrate": lambda: {"radial_limits": (0.0, u(10, 40))},
            "integrate_radial": lambda: {"inner": 0.0, "outer": u(10, 40)},
            "gaussian_source_size": lambda: {"sigma": u(0.2, 0.6)},
            "to_diffraction_patterns": lambda: {"gpts": 16},
        })
    if kind in ("rline", "kline"):
        R["interpolate"] = lambda: {"sampling": u(0.01, 0.08)} if rng.random() < 0.5 else {"gpts": int(rng.integers(8, 50))}
    if kind == "indexed":
        R.update({"crop": lambda: {"max_angle": u(10, 30)}, "remove_low_intensity": lambda: {"threshold": 1e-3}})
    if case.get("hostile"):
        # boundary / falsy arguments: zero widths, unit repetitions, full-size crops, dose 0, seed 0, numpy scalar indices
        H = {
            "gaussian_filter": lambda: {"sigma": 0.0},
            "gaussian_source_size": lambda: {"sigma": 0.0},
            "tile": lambda: {"repetitions": (1, 1) if kind == "images" else 1},
            "tile_scan": lambda: {"repetitions": (1, 1)},
            "poisson_noise": lambda: {"total_dose": 0.0, "samples": 1, "seed": 0},
            "get_items": lambda: {"items": np.int64(0) if rng.random() < 0.5 else -1, "keepdims": True} if n_ens else None,
            "relative_difference": lambda: {"other": obj.copy(), "min_relative_tol": 0.0},
            "bandlimit": lambda: {"inner": 0.0, "outer": 0.0},
            "integrate_radial": lambda: {"inner": 0.0, "outer": 0.0},
            "width": lambda: {"height": 0.0},
            "expand_dims": lambda: {"axis": 0},
            "squeeze": lambda: {"axis": ()},
        }
        if kind == "images":
            H["crop"] = lambda: {"extent": (obj.extent[0], obj.extent[1]), "offset": (0.0, 0.0)}
            H["interpolate"] = lambda: ({"sampling": obj.sampling} if rng.random() < 0.5 else {"gpts": tuple(obj.base_shape)})
            H["integrate_disc"] = lambda: {"position": np.array([0.0, 0.0]), "radius": 0.0}
        for red in ("mean", "sum", "std", "min", "max"):
            H[red] = lambda: ({"axis": np.int64(0) if rng.random() < 0.5 else -len(obj.shape), "keepdims": True} if n_ens else
                              {"axis": ()})
        if name in H:
            return H[name]()
    if name in R:
        return R[name]()
    try:
        params = inspect.signature(getattr(obj, name)).parameters.values()
    except (TypeError, ValueError):
        return None
    if all(p.default is not p.empty or p.kind in (p.VAR_POSITIONAL, p.VAR_KEYWORD) for p in params):
        return {}
    return None


def _double(x):
    return x * 2


def _noise_transform():
    from abtem.noise import NoiseTransform
    return NoiseTransform(dose=10.0, seeds=1)


def _array_objects(out):
    from abtem.array import ArrayObject
    if isinstance(out, ArrayObject):
        return [out]
    if isinstance(out, (list, tuple)):
        return [o for o in out if isinstance(o, ArrayObject)]
    return []


_OPTION_CACHE = {}


def keyword_options(cls, name):
    """Alternative values for the keyword arguments of `cls.name`, discovered by introspection:
    bool defaults are flipped; for string defaults the quoted words of the parameter's docstring entry and the string
    literals the source compares the parameter with (`shift != "none"`, `method == "fft"`, `boundary in (...)`) are collected,
    plus the generic spellings "none" and None; numeric defaults get 0 and 1.  Returns {param: [values]}."""
    import re
    key = (cls, name)
    if key in _OPTION_CACHE:
        return _OPTION_CACHE[key]
    out = {}
    func = getattr(cls, name)
    try:
        params = inspect.signature(func).parameters
    except (TypeError, ValueError):
        _OPTION_CACHE[key] = out
        return out
    doc = inspect.getdoc(func) or ""
    try:
        src = inspect.getsource(func)
    except (OSError, TypeError):
        src = ""
    for pname, par in params.items():
        if pname == "self" or par.default is par.empty or par.kind in (par.VAR_POSITIONAL, par.VAR_KEYWORD):
            continue
        d = par.default
        vals = []
        if isinstance(d, bool):
            vals = [not d]
        elif isinstance(d, str):
            words = set()
            m = re.search(r"^\s*%s\s*:(.*?)(?=^\s*\w+\s*:|\Z)" % re.escape(pname), doc, re.S | re.M)
            if m:
                words |= set(re.findall(r"['\"]([A-Za-z_][\w\-/ ]{0,24})['\"]", m.group(1)))
            for lit in re.findall(r"\b%s\s*(?:==|!=|in)\s*([^\n:]+)" % re.escape(pname), src):
                words |= set(re.findall(r"['\"]([^'\"]{1,25})['\"]", lit))
            words |= {"none"}
            vals = sorted(w for w in words if w != d) + [None]
        elif isinstance(d, (int, float)) and not isinstance(d, bool):
            vals = [v for v in (0, 1) if v != d]
        if vals:
            out[pname] = vals
    _OPTION_CACHE[key] = out
    return out


def check_measurement(ctx, case):
    rng = np.random.default_rng(case["seed"] + 1)
    state = {"new_returns": 0}
    with warnings.catch_warnings():
        warnings.simplefilter("ignore")
        try:
            obj, base = build_receiver(case)
        except Exception as e:
            ctx.note("receiver-not-built:%s:%s" % (case["kind"], type(e).__name__))
            return
        holder = {"obj": obj, "base": base}

        def probe(name, kwargs, variant=None):
            obj, base = holder["obj"], holder["base"]
            before = snap_receiver(obj, base)
            raised = None
            out = None
            try:
                out = getattr(obj, name)(**kwargs)
                if inspect.isgenerator(out):
                    out = list(out)
                for o in _array_objects(out):
                    if o is not obj and getattr(o, "is_lazy", False):
                        o.compute()
            except Exception as e:
                raised = type(e).__name__
            after = snap_receiver(obj, base)
            changed = [k for k in before if before[k] != after.get(k, None)]
            if changed == ["_array"] and base is not None and before["_array"][0] == "da" and after["_array"][0] == "nd" \
                    and after["_array"][1:4] == before["<numpy array behind the lazy receiver>"][1:4]:
                # the lazy receiver was computed in place: same values, only its laziness changed (not what the statement is about)
                ctx.note("lazy-receiver-computed-in-place-by:" + name)
                changed = []
                holder["obj"], holder["base"] = build_receiver(case)
            gained = [k for k in after if k not in before]
            if gained:
                ctx.note("receiver-gained-attribute:%s:%s" % (name, ",".join(gained)))
            returns_new = any(o is not obj for o in _array_objects(out))
            clause = ("receiver-unchanged:raised" if raised else
                      "receiver-unchanged:returns-new" if returns_new else "receiver-unchanged:other-return")
            detail = {}
            if changed:
                detail = {"changed": changed}
                if "<metadata>" in changed:
                    detail["metadata_before"] = repr(before["<metadata>"])[:300]
                    detail["metadata_after"] = repr(after["<metadata>"])[:300]
            ctx.expect(not changed, clause, method=name, receiver=type(obj).__name__, raised=raised, lazy=case["lazy"],
                       variant=variant, **detail)
            if variant is None:
                ctx.monitor("method:%s:%s" % (name, "raised" if raised else "new" if returns_new else "other"))
                if returns_new:
                    state["new_returns"] += 1
            else:
                ctx.monitor("keyword-variants:%s" % ("raised" if raised else "returned"))
                ctx.clauses["keyword-variant-evaluated"] += 1
            if changed:
                holder["obj"], holder["base"] = build_receiver(case)     # keep the following calls independent of this mutation

        for name in public_methods(obj):
            if name in IN_PLACE_BY_CONTRACT or name in NOT_CALLED:
                ctx.note("not-called:" + name)
                continue
            if ctx.tier == "quick" and name in QUICK_SKIP:
                ctx.note("not-called-in-quick-tier:" + name)
                continue
            try:
                kwargs = recipe(holder["obj"], name, rng, case)
            except Exception as e:
                ctx.note("recipe-failed:%s:%s" % (name, type(e).__name__))
                continue
            if kwargs is None:
                ctx.note("no-recipe:" + name)
                continue
            probe(name, kwargs)
            # non-default keyword values: one keyword at a time on top of the recipe's arguments
            options = keyword_options(type(holder["obj"]), name)
            variants = [(k, v) for k, vals in options.items() for v in vals]
            mode = case.get("variants", "some")
            if mode != "all" and len(variants) > 2:
                pick = rng.choice(len(variants), size=2, replace=False)
                variants = [variants[int(i)] for i in pick]
            if name in HEAVY_VARIANTS and mode != "all-heavy":
                variants = variants[:1]
            for k, v in variants:
                try:
                    kw = dict(recipe(holder["obj"], name, rng, case) or {}, **{k: v})
                except Exception:
                    continue
                probe(name, kw, variant="%s=%r" % (k, v))
        ctx.monitor("receiver:" + case["kind"])
        ctx.nontrivial(state["new_returns"] >= 10)


# =========================================================================== harness entry points
def gen(rng, tier):
    if rng.random() < 0.72:
        op = str(rng.choice(ATOM_OPS))
        return {"part": "atoms", "structure": gen_structure(rng), "op": op, "params": gen_atom_params(rng, op)}
    return dict({"part": "measurement"}, **gen_measurement(rng))


def fixed_cases(tier):
    hexs = {"kind": "hex", "a": 2.46, "b": 2.46, "c": 6.0, "gamma": 120.0, "symbols": ["C", "C"],
            "scaled": [[-0.25, 0.1, 0.5], [1.3333, 0.6667, 1.2]], "pbc": [True, True, True], "tags": True, "eps": 1e-9, "seed": 1}
    ortho = dict(hexs, kind="ortho", a=3.0, b=4.0, c=5.0)
    tiny = dict(hexs, kind="tiny", a=3.0, b=4.0, c=5.0)
    P = {"plane": "xy", "origin": [0.0, 0.0, 0.0], "box": None, "gpts": 16, "slice_thickness": 2.0, "projection": "infinite",
         "periodic": True, "lazy": False, "actions": ["build"], "num_configs": 2, "sigmas": "float", "directions": "xyz",
         "fp_seed": 1, "ensemble_mean": True}
    O = {"plane": "xy", "origin": [0.0, 0.0, 0.0], "box": None, "max_repetitions": 5, "return_transform": False,
         "return_transform_matrix": False, "allow_transform": True, "tolerance": 0.01, "defaults": True}
    out = [
        {"part": "atoms", "structure": hexs, "op": "orthogonalize_cell", "params": O},
        {"part": "atoms", "structure": ortho, "op": "orthogonalize_cell", "params": O},
        {"part": "atoms", "structure": tiny, "op": "orthogonalize_cell", "params": dict(O, defaults=False, origin=[0.5, 0.0, 0.0])},
        {"part": "atoms", "structure": dict(hexs, kind="triclinic"), "op": "orthogonalize_cell", "params": dict(O, defaults=False, plane="xz")},
        {"part": "atoms", "structure": ortho, "op": "standardize_cell", "params": {"tol": 1e-12}},
        {"part": "atoms", "structure": hexs, "op": "frozen_phonons", "params": P},
        {"part": "atoms", "structure": hexs, "op": "atoms_ensemble", "params": P},
        {"part": "atoms", "structure": ortho, "op": "atoms_ensemble", "params": P},      # periodic build wraps atoms outside the cell
        {"part": "atoms", "structure": ortho, "op": "frozen_phonons", "params": dict(P, sigmas="dict", lazy=True)},
        {"part": "atoms", "structure": ortho, "op": "potential", "params": dict(P, projection="finite", periodic=False, box=[6.0, 8.0, 5.0])},
        {"part": "atoms", "structure": ortho, "op": "smatrix",
         "params": {"gpts": 16, "energy": 100e3, "cutoff": 8.0, "interpolation": 1, "lazy": False, "action": "build"}},
        {"part": "atoms", "structure": ortho, "op": "bloch_waves",
         "params": {"g_max": 1.5, "sg_max": 0.1, "energy": 100e3, "thermal_sigma": 0.0, "via": "atoms", "thickness": [10.0, 20.0], "what": "dp"}},
    ]
    out.append({"part": "atoms", "structure": hexs, "op": "frozen_phonons",
                "params": dict(P, periodic=False, projection="finite", origin=[0.7, -0.4, 0.3], actions=["transformed", "build"])})
    for i in range(len(atoms_helpers())):
        out.append({"part": "atoms", "structure": ortho if i % 2 else hexs, "op": "helper",
                    "params": {"plane": "xy", "origin": [0.0, 0.0, 0.0], "box": [6.0, 8.0, 5.0], "index": i, "margin": 1.0, "axis": 2,
                               "angles": [0.3, 0.2, 0.1], "tol": 1e-3}})
        out.append({"part": "atoms", "structure": hexs if i % 2 else ortho, "op": "helper",
                    "params": {"plane": "yz", "origin": [0.7, -0.4, 0.3], "box": [5.0, 7.0, 9.0], "index": i, "margin": 4.5, "axis": 0,
                               "angles": [1.3, -0.2, 2.1], "tol": 0.5}})
    empty = dict(ortho, symbols=[], scaled=[])
    corner = dict(ortho, symbols=["C", "Si", "O"], scaled=[[0.0, 0.0, 0.0], [1.0, 1.0, 1.0], [-1.0, 0.5, 2.0]])
    out += [
        {"part": "atoms", "structure": corner, "op": "orthogonalize_cell", "params": dict(O, defaults=False, box_is_cell=True, vec_as="int-tuple")},
        {"part": "atoms", "structure": corner, "op": "orthogonalize_cell", "params": dict(O, defaults=False, vec_as="list", max_repetitions=0, tolerance=0.0)},
        {"part": "atoms", "structure": dict(hexs, scaled=[[0.0, 0.0, 0.0], [1.0, 1.0, 1.0]]), "op": "orthogonalize_cell",
         "params": dict(O, defaults=False, vec_as="ndarray", origin=[0.0, 0.0, 0.0])},
        {"part": "atoms", "structure": empty, "op": "orthogonalize_cell", "params": O},
        {"part": "atoms", "structure": empty, "op": "potential", "params": P},
        {"part": "atoms", "structure": corner, "op": "frozen_phonons", "params": dict(P, num_configs=1, sigmas="zero", fp_seed=0)},
        {"part": "atoms", "structure": corner, "op": "atoms_ensemble", "params": dict(P, box_is_cell=True, vec_as="int-tuple")},
        {"part": "atoms", "structure": corner, "op": "potential", "params": dict(P, box_is_cell=True, projection="finite", lazy=True)},
    ]
    for k, kind in enumerate(["images", "dp", "rline"]):
        out.append({"part": "measurement", "kind": kind, "base": [16, 18] if kind != "rline" else [1],
                    "ens": [{"kind": "scan", "n": 1}, {"kind": "scan", "n": 2}] if kind == "dp" else [{"kind": "ordinal", "n": 1}],
                    "complex": kind != "dp", "lazy": False, "chunk_members": True, "seed": 0, "extra_metadata": False, "hostile": True})
    # every receiver class, eager and lazy, with EVERY single-keyword variant of every method (non-default options)
    k = 0
    for kind in ["images", "dp", "polar", "rline", "kline", "indexed", "ensemble"]:
        for lazy in ((False, True) if kind not in ("kline", "indexed") else (False,)):
            k += 1
            out.append({"part": "measurement", "kind": kind, "base": [16, 18] if kind not in ("rline", "kline") else [24],
                        "ens": [{"kind": "scan", "n": 3}, {"kind": "scan", "n": 2}] if kind in ("dp", "polar", "indexed") else
                        [{"kind": "ordinal", "n": 3}], "complex": kind not in ("dp", "indexed") and k % 3 != 0, "lazy": lazy,
                        "chunk_members": True, "seed": 5 + k, "extra_metadata": True, "variants": "all"})
    return out


def check(ctx, case):
    import dask
    # single-threaded graphs: mutation of an input does not depend on the scheduler, and the thread pool only costs time
    with dask.config.set(scheduler="synchronous"):
        if case["part"] == "atoms":
            check_atoms(ctx, case)
        else:
            check_measurement(ctx, case)
