"""C07 Thickness series are consistent with truncated simulations.

Oracle (truncation): the potential is built once into a PotentialArray; for every
exit plane p the *same* builder/detector is run eagerly through
PotentialArray(array[:p+1], slice_thickness[:p+1]) and compared with entry p of
the thickness series computed by the code under test (Potential, PotentialArray or
CrystalPotential with exit_planes; eager and lazy).  Entrance plane (-1) must equal
the incident wave's measurement; thickness axis must equal the float64 cumsum.
"""
import numpy as np

from vf import gen as G

PROPERTY = "C07"
TECHNIQUE = "runtime monitoring; truncation oracle (differential against runs through truncated potentials)"
RULE = ("random orthogonal cells (1-6 atoms), grids 12-32, slice thickness scalar or random sequence, exit_planes int or "
        "explicit tuple (with/without entrance plane -1), builder Probe/PlaneWave, detector none/annular/flexible/pixelated/"
        "segmented, potential kind Potential/PotentialArray/CrystalPotential/FrozenPhonons, eager or lazy; non-trivial = at "
        "least 2 exit planes of which one is strictly inside the specimen; distinct = distinct case signature")
CLAUSES = ["plane:values", "last-equals-full:values", "thickness-axis", "entrance-plane:values", "planes-from-spec",
           "last-plane-is-exit-surface"]
QUICK = dict(n=28, time=50)
THOROUGH = dict(n=5120, time=480, shards=16)


def gen(rng, tier):
    cell = G.rand_cell_case(rng, max_atoms=5, max_xy=6.0, max_z=7.0, min_z=2.5)
    nominal = float(rng.uniform(0.4, 1.5))
    nz = max(2, int(np.ceil(cell["cell"][2] / nominal)))
    if rng.random() < 0.35:
        # explicit thickness sequence summing to the cell height
        w = rng.uniform(0.5, 1.5, size=min(nz, 7))
        st = (w / w.sum() * cell["cell"][2]).tolist()
        nz = len(st)
    else:
        st = nominal
    kind = str(rng.choice(["potential", "potential", "array", "crystal", "frozen"]))
    reps = [int(rng.integers(1, 3)), 1, int(rng.integers(1, 4))] if kind == "crystal" else None
    if kind == "crystal" and not isinstance(st, float) and rng.random() < 0.4:
        st = nominal     # (unequal unit-cell thicknesses stay in the workload for the repeated crystal)
    total = nz * (reps[2] if reps else 1)
    if rng.random() < 0.5 or kind == "crystal":
        ep = int(rng.integers(1, total + 2))
    else:
        k = int(rng.integers(1, min(total, 4) + 1))
        planes = sorted(rng.choice(total, size=k, replace=False).tolist())
        if rng.random() < 0.5:
            planes = [-1] + planes
        ep = [int(p) for p in planes]
    return {
        "cell": cell, "gpts": G.rand_gpts(rng, 12, 32), "slice_thickness": st, "kind": kind, "reps": reps,
        "exit_planes": ep, "builder": str(rng.choice(["probe", "plane"])),
        "detector": str(rng.choice(["none", "annular", "flexible", "pixelated", "segmented"])),
        "lazy": bool(rng.random() < 0.5), "energy": float(rng.choice([60e3, 100e3, 200e3, 300e3])),
        "projection": str(rng.choice(["infinite", "infinite", "finite"])),
        "num_configs": int(rng.integers(1, 4)), "fp_seed": int(rng.integers(0, 1000)),
        "pos": [float(rng.random()), float(rng.random())],
    }


def _detector(case, builder):
    """Detector with limits inside the simulated angular range of `builder`."""
    import abtem
    d = case["detector"]
    amax = 0.95 * min(builder.cutoff_angles)
    if d == "annular":
        return abtem.AnnularDetector(inner=0.2 * amax, outer=0.9 * amax)
    if d == "flexible":
        return abtem.FlexibleAnnularDetector(step_size=amax / 6.0)
    if d == "pixelated":
        return abtem.PixelatedDetector(max_angle="valid")
    if d == "segmented":
        return abtem.SegmentedDetector(nbins_radial=2, nbins_azimuthal=3, inner=0.1 * amax, outer=0.8 * amax)
    return None


def _builder(case, extent, gpts=None):
    import abtem
    gpts = tuple(case["gpts"]) if gpts is None else tuple(int(n) for n in gpts)
    if case["builder"] == "probe":
        return abtem.Probe(energy=case["energy"], semiangle_cutoff=20.0, gpts=gpts, extent=extent, defocus=30.0)
    return abtem.PlaneWave(energy=case["energy"], gpts=gpts, extent=extent)


def _run(builder, case, potential, lazy):
    det = _detector(case, builder)
    kwargs = dict(detectors=det, lazy=lazy)
    if case["builder"] == "probe":
        kwargs["scan"] = abtem_custom_scan(case, potential)
    out = builder.multislice(potential, **kwargs)
    return out.compute() if lazy else out


def abtem_custom_scan(case, potential):
    import abtem
    ext = potential.extent
    return abtem.CustomScan(np.array([[case["pos"][0] * ext[0], case["pos"][1] * ext[1]]]))


def check(ctx, case):
    import abtem
    atoms = G.atoms_from(case["cell"])
    kind = case["kind"]
    st = case["slice_thickness"]
    st_arg = st if isinstance(st, float) else tuple(st)
    ep = case["exit_planes"]
    ep_arg = ep if isinstance(ep, int) else tuple(ep)
    gpts = tuple(case["gpts"])
    proj = case["projection"] if kind in ("potential", "array") else "infinite"

    base_atoms = atoms
    if kind == "frozen":
        fp = abtem.FrozenPhonons(atoms, num_configs=case["num_configs"], sigmas=0.1, seed=case["fp_seed"],
                                 ensemble_mean=False)
        configs = [c for c in fp]
        configs = [c.atoms if hasattr(c, "atoms") else c for c in configs]
    else:
        configs = [atoms]

    def full_array(a):
        p = abtem.Potential(a, gpts=gpts, slice_thickness=st_arg, projection=proj)
        return p.build(lazy=False)

    arrays = [full_array(a) for a in configs]
    if kind == "crystal":
        unit = abtem.Potential(atoms, gpts=gpts, slice_thickness=st_arg)
        reps = tuple(case["reps"])
        pot = abtem.CrystalPotential(unit, repetitions=reps, exit_planes=ep_arg)
        pa = arrays[0]
        tiled = np.tile(pa.array, (reps[2], reps[0], reps[1]))
        # z-repetition repeats the whole unit sequence (t0, t1, ..., t0, t1, ...), not each slice in turn
        arrays = [abtem.PotentialArray(tiled, slice_thickness=tuple(pa.slice_thickness) * reps[2],
                                       sampling=pa.sampling)]
    elif kind == "array":
        pa = arrays[0]
        pot = abtem.PotentialArray(pa.array.copy(), slice_thickness=pa.slice_thickness, sampling=pa.sampling,
                                   exit_planes=ep_arg)
    elif kind == "frozen":
        pot = abtem.Potential(fp, gpts=gpts, slice_thickness=st_arg, exit_planes=ep_arg, projection=proj)
    else:
        pot = abtem.Potential(atoms, gpts=gpts, slice_thickness=st_arg, exit_planes=ep_arg, projection=proj)

    nslices = len(arrays[0].slice_thickness)
    planes = list(pot.exit_planes)
    # independent model of the planes the specification asks for: an explicit tuple is taken literally; an integer k
    # means "entrance plane, then every k-th slice", and the series always ends at the exit surface (the statement's
    # "the last exit plane equals the full simulation"); None means the exit surface only
    if isinstance(ep, int):
        want_planes = [nslices - 1] if ep >= nslices else [-1] + list(range(ep - 1, nslices, ep))
        if want_planes[-1] != nslices - 1:
            want_planes.append(nslices - 1)
    elif ep is None:
        want_planes = [nslices - 1]
    else:
        want_planes = list(ep)
    ctx.expect(planes == want_planes, "planes-from-spec", got=planes, want=want_planes, nslices=nslices)
    if not isinstance(ep, (list, tuple)):
        ctx.expect(planes[-1] == nslices - 1, "last-plane-is-exit-surface", planes=planes, nslices=nslices)
    ctx.nontrivial(len(planes) >= 2 and any(0 <= p < nslices - 1 for p in planes))

    # thickness axis vs float64 cumulative sum
    cum = np.cumsum(np.asarray(arrays[0].slice_thickness, dtype=np.float64))
    want_t = [0.0 if p == -1 else float(cum[p]) for p in planes]
    ctx.close(pot.exit_thicknesses, want_t, "thickness-axis", rtol=1e-6, atol=1e-6)

    builder = _builder(case, arrays[0].extent, arrays[0].array.shape[-2:])
    got = _run(builder, case, pot, case["lazy"])
    garr = G.to_numpy(got)
    # locate the thickness axis and (for frozen phonons) the configuration axis
    from abtem.core.axes import ThicknessAxis
    names = [type(a).__name__ for a in got.axes_metadata]
    if len(planes) > 1:
        tax = [i for i, a in enumerate(got.axes_metadata) if isinstance(a, ThicknessAxis)]
        if not ctx.expect(len(tax) == 1 and garr.shape[tax[0]] == len(planes), "thickness-axis", axes=names,
                          shape=list(garr.shape), planes=planes):
            return
        tax = tax[0]
        vals = np.asarray(got.axes_metadata[tax].values, dtype=float)
        ctx.close(vals, want_t, "thickness-axis", rtol=1e-5, atol=1e-5)
    else:
        tax = None
    cax = None
    if kind == "frozen" and len(configs) > 1:
        cax = 0
        ctx.expect(garr.shape[0] == len(configs), "plane:shape", shape=list(garr.shape))

    def take(arr, k, j):
        idx = [slice(None)] * arr.ndim
        if cax is not None:
            idx[cax] = k
        if tax is not None:
            idx[tax] = j
        return arr[tuple(idx)]

    gscale = max(float(np.abs(garr).max()), 1e-12)
    for k, pa in enumerate(arrays):
        ctx.monitor("configs-checked")
        for j, p in enumerate(planes):
            if p == -1:
                ref_builder = _builder(case, pa.extent, pa.array.shape[-2:])
                if case["builder"] == "probe":
                    inc = ref_builder.build(scan=abtem_custom_scan(case, pa), lazy=False)
                else:
                    inc = ref_builder.build(lazy=False)
                det = _detector(case, ref_builder)
                ref = det.detect(inc) if det is not None else inc
                clause = "entrance-plane"
            else:
                trunc = abtem.PotentialArray(pa.array[: p + 1], slice_thickness=tuple(pa.slice_thickness[: p + 1]),
                                             sampling=pa.sampling)
                ref = _run(_builder(case, pa.extent, pa.array.shape[-2:]), case, trunc, False)
                clause = "last-equals-full" if p == nslices - 1 else "plane"
            r = G.to_numpy(ref)
            g = take(garr, k, j)
            ctx.monitor("planes-compared")
            scale = max(float(np.abs(r).max()), gscale)
            ctx.close(g.reshape(r.shape) if g.size == r.size else g, r, clause + ":values", rtol=5e-5,
                      atol=5e-6 * scale, plane=p, config=k)
