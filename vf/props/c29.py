"""C29 Array-object structural operations keep data and metadata aligned.

Shadow-model oracle.  Every case builds a real abTEM array object (Waves, Images, DiffractionPatterns,
PolarMeasurements, real/reciprocal line profiles, MeasurementsEnsemble, PotentialArray; 0-3 ensemble axes
drawn from all axis classes; eager or lazy with several chunkings) together with a *shadow*: the raw numpy
array and one entry per ensemble axis (class, label, value tuple).  A chain of 1-3 operations is applied to
the real object through abTEM's public API and to the shadow through the corresponding numpy / python
operation; after every step

  values      result.array (computed) equals the numpy result (dtype included)
  axes        exactly one axis-metadata entry per array dimension; ensemble entries have the shadow's
              class/label and the ordinal values of the *selected* items, in order
  metadata    the metadata of integer-selected items ({label: value}, base_tilt_x/y) is in the result and
              nothing that was there is lost
  refusal     reducing or indexing a base axis raises and leaves the object untouched.
Operations: indexing (ints incl. negative, slices with steps, lists, int/bool arrays, None, mixtures),
stack, concatenate, squeeze, expand_dims (int/tuple, negative, unsorted), mean/sum/std/min/max (axis int /
tuple / negative / None, keepdims), + - * / ** with scalars, ndarrays, same-type objects, reflected * and /.
"""
import operator

import numpy as np

PROPERTY = "C29"
TECHNIQUE = "runtime monitoring; shadow model (numpy array + per-axis value tuples) driven in lock-step with the real object"
RULE = ("object: one of 8 array-object types, dtype f32/f64/c64/c128, 0-3 ensemble axes of length 1-5 from all axis classes with "
        "unique labels, eager or lazy (chunk sizes 1..n); chain of 1-3 operations drawn from index/reduce/squeeze/expand/stack/"
        "concatenate/arithmetic/base-axis refusals, each generated against the simulated current shape; non-trivial = at least one "
        "operation completed on an object with >=1 ensemble axis; distinct = distinct case dict")
CLAUSES = ["index-values", "index-axes", "index-item-metadata", "reduce-values", "reduce-axes", "reduce-keepdims-axes",
           "reduce-all-values", "squeeze-values", "squeeze-axes", "expand-values", "expand-axes", "stack-values", "stack-axes",
           "concatenate-values", "concatenate-axes", "arithmetic-values", "arithmetic-axes", "reflected-values",
           "one-axis-entry-per-dimension", "metadata-kept", "base-reduction-refused", "base-index-refused",
           "operation-completes", "potential-slice-thickness"]
ASSUMPTIONS = ["index expressions for which numpy moves the result of integer and list indices separated by a slice/None to the front are not generated (abTEM refuses them eagerly, dask indexes orthogonally)",
               "None next to a list/array index is not generated for lazy objects and a chain of operations stops being judged once a stepped slice has left zero-length chunks in the dask array (dask 2026.8 defects reproduced without abTEM: arange(4, chunks=2)[0:3:3] + 7 computes 2 items)",
               "PotentialArray.concatenate (from_array_and_metadata raises NotImplementedError), in-place operators and reflected + and - are not defined by abTEM and not in the workload",
               "the metadata entry of an axis reduced with keepdims=True is only required to exist and to fit a length-1 dimension"]
QUICK = dict(n=2500, time=40)
THOROUGH = dict(n=720290, time=480, shards=16)

ORDINAL = ["OrdinalAxis", "NonLinearAxis", "AxisAlignedTiltAxis", "WaveVectorAxis", "TiltAxis", "ThicknessAxis",
           "ParameterAxis", "PositionsAxis"]
TILT = ["AxisAlignedTiltAxis", "TiltAxis"]
REDUCTIONS = ["mean", "sum", "std", "min", "max"]
WILD = "*"          # shadow class of an axis whose metadata the property does not pin down (keepdims-reduced)


# =========================================================================================== shadow model
def entry(d, n):
    return {"cls": d["cls"], "label": d["label"], "n": int(n), "direction": d.get("direction"),
            "values": tuple(_tup(v) for v in d["values"]) if "values" in d else None}


def _tup(v):
    return tuple(_tup(x) for x in v) if isinstance(v, (list, tuple)) else v


def unknown():
    return {"cls": "UnknownAxis", "label": "unknown", "n": 1, "direction": None, "values": None}


def to_index(item):
    """JSON item -> python index object."""
    (k, v), = item.items()
    if k == "i":
        return int(v)
    if k == "s":
        return slice(*v)
    if k == "l":
        return [int(x) for x in v]
    if k == "a":
        return np.array(v, dtype=int)
    if k == "b":
        return np.array(v, dtype=bool)
    if k == "lb":
        return [bool(x) for x in v]
    return None


def sh_index(axes, items):
    """Shadow of ensemble indexing: new entries and the (entry, position) pairs selected by integers."""
    out, picked, k = [], [], 0
    for it in items:
        if it is None:
            out.append(unknown())
            continue
        ax = axes[k]
        k += 1
        if isinstance(it, int):
            picked.append((ax, it))
            continue
        sel = [int(j) for j in np.arange(ax["n"])[it]]
        out.append({**ax, "n": len(sel), "values": None if ax["values"] is None else tuple(ax["values"][j] for j in sel)})
    return out + list(axes[k:]), picked


def item_metadata(ax, i, current):
    if ax["values"] is None:
        return {}
    v = ax["values"][i]
    if ax["cls"] == "TiltAxis":
        return {"base_tilt_x": v[0], "base_tilt_y": v[1]}
    if ax["cls"] == "AxisAlignedTiltAxis":
        key = "base_tilt_" + ax["direction"]
        return {key: v + current[key] if key in current else v}
    return {ax["label"]: v}


def norm_axes(axis, ndim):
    axis = (axis,) if isinstance(axis, int) else tuple(axis)
    return tuple(a + ndim if a < 0 else a for a in axis)


def sh_expand(axes, axis, new_entries):
    """numpy semantics: `axis` are positions in the expanded array."""
    pos = dict(zip(axis, new_entries))
    it = iter(axes)
    return [pos[i] if i in pos else next(it) for i in range(len(axes) + len(axis))]


ARITH = {"add": operator.add, "sub": operator.sub, "mul": operator.mul, "truediv": operator.truediv, "pow": operator.pow,
         "rmul": lambda a, b: b * a, "rtruediv": lambda a, b: b / a}


# =========================================================================================== generation
def _axes_for(rng, ens_shape):
    from vf import lib_arrayobj as L
    axes, tilt = [], False
    for i, n in enumerate(ens_shape):
        d = L.rand_axis(rng, n)
        while d["cls"] in TILT and tilt:
            d = L.rand_axis(rng, n)
        tilt |= d["cls"] in TILT
        d["label"] = "%s#%d" % (d.get("label", "ax"), i)       # explicit and unique: item metadata keys cannot collide
        axes.append(d)
    return axes


def _rand_slice(rng, n):
    for _ in range(8):
        step = int(rng.choice([1, 1, 2, 3, -1, -2]))
        form = rng.random()
        a = int(rng.integers(-n, n))
        b = int(rng.integers(-n - 1, n + 2))
        s = [None, None, step] if form < 0.25 else ([a, None, step] if form < 0.5 else ([None, b, step] if form < 0.65 else [a, b, step]))
        if len(range(n)[slice(*s)]) > 0:
            return s
    return [None, None, None]


def _gen_index(rng, axes, potential_slices=None, lazy=False):
    """Index expression against entries `axes` (ensemble) -> JSON items (+ optional slice-axis item for potentials)."""
    n_ens = len(axes)
    cover = n_ens if (potential_slices is not None and rng.random() < 0.5) else int(rng.integers(0 if n_ens == 0 else 1, n_ens + 1))
    items, advanced = [], False
    for k in range(cover):
        n = axes[k]["n"]
        if rng.random() < 0.1:
            items.append({"n": 1})
        r = rng.random()
        if r < 0.3:
            items.append({"i": int(rng.integers(-n, n))})
        elif r < 0.65 or advanced:
            items.append({"s": _rand_slice(rng, n)})
        else:
            advanced = True
            kind = str(rng.choice(["l", "a", "b", "lb"]))
            if kind in ("l", "a"):
                items.append({kind: [int(v) for v in rng.integers(-n, n, size=int(rng.integers(1, n + 2)))]})
            else:
                m = rng.random(n) < 0.6
                m[int(rng.integers(0, n))] = True
                items.append({kind: [bool(v) for v in m]})
    if rng.random() < 0.12 or not items:
        items.append({"n": 1})
    # numpy moves the result of advanced indices separated by a slice/None to the front; abTEM refuses that eagerly and
    # uses orthogonal indexing lazily.  The workload keeps all integer indices adjacent to the one list/array index.
    keys = [next(iter(it)) for it in items]
    adv = [j for j, k in enumerate(keys) if k in ("l", "a", "b", "lb")]
    if adv and lazy:
        # dask (trusted, 2026.8) fails inside slice_with_newaxes / concatenate_arrays for None next to a list/array index
        items = [it for it in items if "n" not in it]
        keys = [next(iter(it)) for it in items]
        adv = [j for j, k in enumerate(keys) if k in ("l", "a", "b", "lb")]
    if adv:
        j0 = adv[0]
        lo = hi = j0
        while lo - 1 >= 0 and keys[lo - 1] == "i":
            lo -= 1
        while hi + 1 < len(keys) and keys[hi + 1] == "i":
            hi += 1
        ax_of = []
        k = 0
        for key in keys:
            ax_of.append(None if key == "n" else k)
            k += key != "n"
        for j, key in enumerate(keys):
            if key == "i" and not lo <= j <= hi:
                n = axes[ax_of[j]]["n"]
                i = items[j]["i"] % n
                items[j] = {"s": [i, i + 1, 1]}
    op = {"op": "index", "items": items, "bare": bool(len(items) == 1 and rng.random() < 0.5)}
    if potential_slices is None and "i" in keys and not adv and rng.random() < 0.3:
        op["keepdims"] = True                                    # get_items(..., keepdims=True): integers keep their axis
        op["bare"] = False
    if potential_slices is not None and cover == n_ens and rng.random() < 0.7:
        ns = potential_slices
        r = rng.random()
        op["slice_item"] = ({"i": int(rng.integers(-ns, ns))} if r < 0.4 else
                            ({"s": _rand_slice(rng, ns)} if r < 0.8 else {"l": [int(v) for v in rng.integers(0, ns, size=int(rng.integers(1, ns + 1)))]}))
        if any(next(iter(it)) in ("l", "a", "b", "lb") for it in items) and "l" in op["slice_item"]:
            op["slice_item"] = {"s": [None, None, None]}
        if "l" in op["slice_item"]:
            # same numpy rule as above: only the integers directly in front of the list stay integers
            j = len(items)
            while j > 0 and "i" in items[j - 1]:
                j -= 1
            k = 0
            for jj, it in enumerate(items):
                if "n" in it:
                    continue
                if "i" in it and jj < j:
                    i = it["i"] % axes[k]["n"]
                    items[jj] = {"s": [i, i + 1, 1]}
                k += 1
        op["bare"] = False
    return op


def _keepdims_items(items, axes):
    """get_items(keepdims=True): an integer selects one item but keeps the axis."""
    out, k = [], 0
    for it in items:
        if it is None:
            out.append(None)
            continue
        if isinstance(it, int):
            i = it % axes[k]["n"]
            it = slice(i, i + 1)
        out.append(it)
        k += 1
    return out


def _apply_index_sim(axes, op):
    items = [to_index(it) for it in op["items"]]
    if op.get("keepdims"):
        items = _keepdims_items(items, axes)
    new, _ = sh_index(axes, items)
    return new


def gen(rng, tier):
    from vf import lib_arrayobj as L
    kind = str(rng.choice(L.KINDS))
    desc = L.rand_object(rng, kind=kind, max_ens=3, size1=0.3)
    desc["axes"] = _axes_for(rng, desc["ens_shape"])
    md = {}
    if rng.random() < 0.6:
        md["note"] = str(rng.choice(["abc", "run 7", ""]))
    if rng.random() < 0.4:
        md["counts"] = {"l": [int(v) for v in rng.integers(0, 9, size=3)]}
    if rng.random() < 0.3:
        md["pair"] = {"t": [1.5, {"t": [2, 3]}]}
    cls = [a["cls"] for a in desc["axes"]]
    if "AxisAlignedTiltAxis" in cls and rng.random() < 0.6:           # an existing base tilt is added to the item's tilt
        md["base_tilt_x"] = float(rng.integers(-4, 5)) / 4
        md["base_tilt_y"] = float(rng.integers(-4, 5)) / 4
    desc["metadata"] = md
    lazy = bool(rng.random() < 0.5)
    chunks = [int(rng.integers(1, n + 1)) for n in desc["ens_shape"]]
    axes = [entry(d, n) for d, n in zip(desc["axes"], desc["ens_shape"])]
    base_dims = L.BASE_DIMS[kind]
    nslices = desc["base_shape"][0] if kind == "PotentialArray" else None
    is_complex = desc["dtype"].startswith("complex")
    ops = []
    for _ in range(int(rng.integers(1, 4))):
        n_ens = len(axes)
        ndim = n_ens + base_dims
        choices = ["index", "reduce", "squeeze", "expand", "stack", "arith", "arith", "reduce-base", "index-base"]
        if kind != "PotentialArray":
            choices.append("concat")
        c = str(rng.choice(choices))
        if c == "index":
            op = _gen_index(rng, axes, nslices, lazy)
            axes = _apply_index_sim(axes, op)
            if "slice_item" in op:
                it = to_index(op["slice_item"])
                nslices = 1 if isinstance(it, int) else len(np.arange(nslices)[it])
        elif c == "reduce":
            f = str(rng.choice(REDUCTIONS if not is_complex else ["mean", "sum", "std"]))
            if n_ens == 0 or rng.random() < 0.08:
                op = {"op": "reduce", "f": f, "axis": None, "keepdims": False}
                ops.append(op)
                break                                        # the result is a bare number: end of the chain
            k = int(rng.integers(1, n_ens + 1))
            ax = sorted(int(v) for v in rng.choice(n_ens, size=k, replace=False))
            if rng.random() < 0.3:
                ax = [a - ndim if rng.random() < 0.5 else a for a in ax]
            if rng.random() < 0.3:
                ax = ax[::-1]
            keep = bool(rng.random() < 0.35)
            op = {"op": "reduce", "f": f, "axis": ax[0] if (len(ax) == 1 and rng.random() < 0.6) else ax, "keepdims": keep}
            red = norm_axes(op["axis"], ndim)
            axes = [({"cls": WILD, "label": None, "n": 1, "direction": None, "values": None} if i in red else a)
                    for i, a in enumerate(axes) if keep or i not in red]
        elif c == "reduce-base":
            f = str(rng.choice(REDUCTIONS if not is_complex else ["mean", "sum", "std"]))
            if base_dims == 0:
                continue
            b = int(rng.integers(n_ens, ndim))
            ax = [b] + ([int(rng.integers(0, n_ens))] if n_ens and rng.random() < 0.4 else [])
            if rng.random() < 0.5:
                ax = [a - ndim for a in ax]
            op = {"op": "reduce-base", "f": f, "axis": ax[0] if len(ax) == 1 else ax, "keepdims": bool(rng.random() < 0.3)}
        elif c == "index-base":
            if base_dims == 0:
                continue
            extra = 2 if kind == "PotentialArray" else 1         # the slice axis of a potential may be indexed
            items = [({"i": int(rng.integers(-a["n"], a["n"]))} if rng.random() < 0.5 else {"s": [None, None, None]}) for a in axes]
            items += [({"i": 0} if rng.random() < 0.6 else {"s": [None, None, None]}) for _ in range(extra + int(rng.integers(0, base_dims - extra + 1)))]
            op = {"op": "index-base", "items": items}
        elif c == "squeeze":
            if rng.random() < 0.5:
                op = {"op": "squeeze", "axis": None}
                sel = range(n_ens)
            else:
                if n_ens == 0:
                    continue
                k = int(rng.integers(1, n_ens + 1))
                ax = [int(v) for v in rng.choice(n_ens, size=k, replace=False)]
                ax = [a - ndim if rng.random() < 0.3 else a for a in ax]
                op = {"op": "squeeze", "axis": ax}
                sel = norm_axes(ax, ndim)
            axes = [a for i, a in enumerate(axes) if not (i in sel and a["n"] == 1)]
        elif c == "expand":
            k = int(rng.choice([1, 1, 1, 2, 3]))
            if n_ens + k > 5:
                continue
            out_ens = n_ens + k
            pos = [int(v) for v in rng.choice(out_ens, size=k, replace=False)]     # unsorted on purpose
            if rng.random() < 0.35:
                pos = [p - (ndim + k) if rng.random() < 0.6 else p for p in pos]
            meta = None
            if rng.random() < 0.5:
                meta = []
                for j in range(k):
                    d = L.rand_axis(rng, 1, ["OrdinalAxis", "ThicknessAxis", "ParameterAxis", "UnknownAxis", "ScanAxis", "FrozenPhononsAxis"])
                    d["label"] = "new%d_%d" % (len(ops), j)
                    meta.append(d)
            if k == 1 and rng.random() < 0.5:
                op = {"op": "expand", "axis": pos[0], "meta": meta}
            else:
                op = {"op": "expand", "axis": pos, "meta": meta}
            new = [entry(d, 1) for d in meta] if meta else [unknown() for _ in range(k)]
            axes = sh_expand(axes, norm_axes(pos, ndim + k), new)
        elif c == "stack":
            if n_ens >= 4:
                continue
            k = int(rng.integers(1, 4))
            a = int(rng.integers(0, n_ens + 1))
            form = str(rng.choice(["none", "strs", "dict", "ordinal"]))
            vals = L.rand_values(rng, "ThicknessAxis", k)
            meta = {"form": form, "label": "stk%d" % len(ops), "values": ["s%d" % i for i in range(k)] if form == "strs" else vals,
                    "cls": str(rng.choice(["OrdinalAxis", "ThicknessAxis", "ParameterAxis", "NonLinearAxis"]))}
            op = {"op": "stack", "k": k, "axis": a, "meta": meta, "seed": int(rng.integers(0, 2 ** 31))}
            axes = axes[:a] + [_stack_entry(meta, k)] + axes[a:]
        elif c == "concat":
            ok = [i for i, a in enumerate(axes) if a["cls"] not in ("ReciprocalSpaceAxis", WILD)]
            if not ok:
                continue
            a = int(rng.choice(ok))
            k = int(rng.integers(1, 4))
            lens = [int(rng.integers(1, 4)) for _ in range(k - 1)]
            op = {"op": "concat", "axis": a, "lens": lens, "seed": int(rng.integers(0, 2 ** 31))}
            e = axes[a]
            extra = _concat_values(e, lens)
            axes = axes[:a] + [{**e, "n": e["n"] + sum(lens), "values": None if e["values"] is None else e["values"] + sum(extra, ())}] + axes[a + 1:]
        else:
            f = str(rng.choice(["add", "sub", "mul", "truediv", "pow", "rmul", "rtruediv"]))
            if f in ("rmul", "rtruediv"):
                other = {"scalar": float(rng.choice([2.0, -0.5, 3.25]))} if rng.random() < 0.6 else \
                    ({"int": int(rng.choice([2, -3, 7]))} if rng.random() < 0.6 else {"cscalar": [0.5, -1.5]})
            elif f == "pow":
                other = {"int": int(rng.choice([2, 3, -1, 0]))} if rng.random() < 0.6 else {"scalar": float(rng.choice([0.5, 2.0, -1.5]))}
            else:
                r = rng.random()
                other = ({"scalar": float(rng.choice([2.0, -0.5, 3.25, 1e-3]))} if r < 0.25 else
                         {"int": int(rng.choice([2, -3, 7]))} if r < 0.4 else
                         {"cscalar": [0.5, -1.5]} if r < 0.5 else
                         {"ndarray": str(rng.choice(["full", "base", "lead1"])), "seed": int(rng.integers(0, 2 ** 31))} if r < 0.75 else
                         {"object": int(rng.integers(0, 2 ** 31))})
            if "cscalar" in other:
                is_complex = True
            op = {"op": "arith", "f": f, "other": other}
        ops.append(op)
    return {"object": desc, "lazy": lazy, "chunks": chunks, "ops": ops}


def _stack_entry(meta, k):
    if meta["form"] == "none":
        e = unknown()
        e["n"] = k
        return e
    if meta["form"] == "strs":
        return {"cls": "OrdinalAxis", "label": "", "n": k, "direction": None, "values": tuple(meta["values"])}
    cls = "OrdinalAxis" if meta["form"] == "dict" else meta["cls"]
    return {"cls": cls, "label": meta["label"], "n": k, "direction": None, "values": tuple(meta["values"])}


def _concat_values(e, lens):
    """Values of the appended pieces (deterministic, distinct from the existing ones)."""
    out, c = [], 0
    for m in lens:
        if e["values"] is None:
            out.append(())
            continue
        piece = []
        for _ in range(m):
            v0 = e["values"][0]
            if isinstance(v0, tuple):
                piece.append(tuple(1000.0 + c + i for i in range(len(v0))))
            elif isinstance(v0, str):
                piece.append("extra%d" % c)
            elif isinstance(v0, int):
                piece.append(1000 + c)
            else:
                piece.append(1000.5 + c)
            c += 1
        out.append(tuple(piece))
    return out


def fixed_cases(tier):
    """The operations DESIGN.md singles out, on small fixed objects (one per array-object type where it matters)."""
    from vf import lib_arrayobj as L
    rng = np.random.default_rng(29)
    out = []

    def obj(kind, ens, classes):
        d = L.rand_object(rng, kind=kind, max_ens=0, size1=0)
        d["ens_shape"] = list(ens)
        d["axes"] = [L.rand_axis(rng, n, [c]) for n, c in zip(ens, classes)]
        for i, a in enumerate(d["axes"]):
            a["label"] = "%s#%d" % (a.get("label", "ax"), i)
        return d

    for kind in L.KINDS:
        for lazy in (False, True):
            d = obj(kind, (2, 3), ("ThicknessAxis", "ScanAxis"))
            chains = [[{"op": "arith", "f": "rtruediv", "other": {"scalar": 2.0}}],
                      [{"op": "arith", "f": "rmul", "other": {"int": 3}}],
                      [{"op": "reduce", "f": "sum", "axis": 0, "keepdims": True}],
                      [{"op": "reduce", "f": "mean", "axis": [0, 1], "keepdims": True}],
                      [{"op": "index", "items": [{"i": -1}, {"s": [None, None, 2]}], "bare": False},
                       {"op": "reduce", "f": "max" if not d["dtype"].startswith("complex") else "sum", "axis": -1 - L.BASE_DIMS[kind], "keepdims": False}],
                      [{"op": "index", "items": [{"s": [0, 1, 1]}], "bare": True}, {"op": "squeeze", "axis": None}],
                      [{"op": "expand", "axis": [2, 0], "meta": None}],
                      [{"op": "expand", "axis": -1 - L.BASE_DIMS[kind], "meta": None}]]
            for ops in chains:
                out.append({"object": d, "lazy": lazy, "chunks": [1, 2], "ops": ops})
    return out


# =========================================================================================== check
def _compute(a):
    return np.asarray(a.compute() if hasattr(a, "compute") else a)


def _finite_max(a):
    a = np.abs(a[np.isfinite(a)])
    return float(a.max()) if a.size else 1.0


def _tol(dtype, op):
    single = np.dtype(dtype) in (np.dtype("float32"), np.dtype("complex64"))
    if op == "std":
        return 2e-4 if single else 1e-10
    if op in ("mean", "sum"):
        return 2e-5 if single else 1e-12
    return 2e-6 if single else 1e-13


class State:
    def __init__(self, obj, arr, axes, base_dims, st):
        self.obj, self.arr, self.axes, self.base_dims, self.st = obj, arr, axes, base_dims, st
        self.md = dict(obj.metadata)


def _clone(obj, arr, lazy, axes=None):
    """Another object of the same type/parameters with a different array (and ensemble axes)."""
    import dask.array as da
    kw = obj._copy_kwargs(exclude=("array",))
    if axes is not None:
        kw["ensemble_axes_metadata"] = axes
    nens = arr.ndim - (len(obj.shape) - len(obj.ensemble_shape))
    kw["array"] = da.from_array(arr, chunks=(1,) * nens + (-1,) * (arr.ndim - nens)) if lazy else arr
    return type(obj)(**kw)


def _judge(ctx, s, res, arr, axes, md, prefix, tolop=None, scale=None, **detail):
    """Compare a result object with the shadow (arr, axes, md).  Returns the array the next step starts from: the real
    result when it agrees with the shadow (so rounding differences of lazy evaluation do not accumulate along a chain)."""
    got = _compute(res.array)
    arr0, n_before = arr, ctx._case_violations
    ok = ctx.expect(got.shape == arr.shape, prefix + "-values", reason="shape", got=list(got.shape), want=list(arr.shape), **detail)
    if ok:
        ok = ctx.expect(got.dtype == arr.dtype, prefix + "-values", reason="dtype", got=str(got.dtype), want=str(arr.dtype), **detail)
        if scale is None:
            scale = float(np.nanmax(np.abs(arr[np.isfinite(arr)]))) if np.isfinite(arr).any() else 1.0
        with np.errstate(all="ignore"):
            inf_ok = np.array_equal(np.isinf(got), np.isinf(arr)) and np.array_equal(got[np.isinf(arr)], arr[np.isinf(arr)])
            g = np.where(np.isinf(arr), 0, got)
            w = np.where(np.isinf(arr), 0, arr)
        ctx.expect(inf_ok, prefix + "-values", reason="inf-mismatch", **detail)
        ctx.close(g, w, prefix + "-values", rtol=_tol(arr.dtype, tolop), scale=scale, **detail)
    am = list(res.axes_metadata)
    ctx.expect(len(am) == got.ndim and len(res.ensemble_axes_metadata) == got.ndim - s.base_dims, "one-axis-entry-per-dimension",
               entries=len(am), ensemble_entries=len(res.ensemble_axes_metadata), ndim=got.ndim, **detail)
    bad = None
    if len(res.ensemble_axes_metadata) != len(axes):
        bad = "ensemble entries %d != %d" % (len(res.ensemble_axes_metadata), len(axes))
    else:
        for i, (a, e) in enumerate(zip(res.ensemble_axes_metadata, axes)):
            n = got.shape[i] if i < got.ndim else None
            if hasattr(a, "values") and len(a.values) != n:
                bad = "axis %d: %d ordinal values for length %s" % (i, len(a.values), n)
            elif e["cls"] == WILD:
                continue
            elif type(a).__name__ != e["cls"] or a.label != e["label"]:
                bad = "axis %d: %s(%r) != %s(%r)" % (i, type(a).__name__, a.label, e["cls"], e["label"])
            elif e["values"] is not None and tuple(a.values) != e["values"]:
                bad = "axis %d (%s): values %r != %r" % (i, e["label"], tuple(a.values)[:6], e["values"][:6])
            if bad:
                break
    ctx.expect(bad is None, prefix + "-axes", problem=bad, **detail)
    rm = dict(res.metadata)
    missing = [k for k, v in md.items() if k not in rm or not _eq(rm[k], v)]
    ctx.expect(not missing, "metadata-kept", missing=missing[:5], got={k: rm.get(k) for k in missing[:5]}, want={k: md[k] for k in missing[:5]}, **detail)
    return np.array(got) if ctx._case_violations == n_before else arr0


def _eq(a, b):
    try:
        if isinstance(a, np.ndarray) or isinstance(b, np.ndarray):
            return bool(np.array_equal(np.asarray(a), np.asarray(b)))
        if isinstance(a, float) and isinstance(b, float) and a != a and b != b:
            return True
        return bool(a == b)
    except Exception:
        return False


def _snapshot(s):
    return _compute(s.obj.array).copy(), [a.copy() for a in s.obj.ensemble_axes_metadata], dict(s.obj.metadata)


def _unchanged(ctx, s, snap, clause, **detail):
    got = _compute(s.obj.array)
    same = (got.shape == snap[0].shape and np.array_equal(got, snap[0], equal_nan=True)
            and list(s.obj.ensemble_axes_metadata) == snap[1] and all(_eq(dict(s.obj.metadata).get(k), v) for k, v in snap[2].items()))
    ctx.expect(same, clause, reason="object changed by a refused operation", **detail)


def check(ctx, case):
    import warnings
    with warnings.catch_warnings():
        warnings.simplefilter("ignore")
        with np.errstate(all="ignore"):
            _check(ctx, case)


def _check(ctx, case):
    import abtem
    from vf import lib_arrayobj as L
    desc = case["object"]
    lazy = case["lazy"]
    obj = L.build_object(desc, lazy=lazy, chunks=case["chunks"])
    arr = L.make_array(desc)
    axes = [entry(d, n) for d, n in zip(desc["axes"], desc["ens_shape"])]
    s = State(obj, arr, axes, L.BASE_DIMS[desc["kind"]], list(desc["params"].get("slice_thickness", [])))
    potential = desc["kind"] == "PotentialArray"
    done = 0
    for step, op in enumerate(case["ops"]):
        name = op["op"]
        n_ens = len(s.axes)
        ndim = s.arr.ndim
        det = dict(step=step, op=name, kind=desc["kind"], lazy=lazy)

        if lazy and hasattr(s.obj.array, "chunks") and any(0 in c for c in s.obj.array.chunks):
            # A stepped slice left zero-length chunks in the dask array.  dask 2026.8 itself then mis-computes what
            # follows (pure dask, no abTEM: da.from_array(np.arange(4.), chunks=2)[0:3:3] + 7 declares shape (1,) and
            # computes 2 items; same for reductions and concatenation over such chunks).  dask is part of the trusted
            # base, so the rest of this chain cannot be judged.
            ctx.note("chain-stopped-on-zero-length-dask-chunks")
            break
        if lazy and s.arr.ndim == 0 and step > 0:
            # a fully reduced lazy object is a 0-d dask array; dask 2026.8 turns `python_complex / 0-d array` into a task
            # that yields a bare python complex, after which stack / expand_dims / indexing fail inside dask
            # (reproduced without abTEM).  Trusted base: the rest of the chain is not judged.
            ctx.note("chain-stopped-on-0d-dask-array")
            break

        # ------------------------------------------------------------------ expected refusals
        if name == "reduce-base":
            snap = _snapshot(s)
            ax = op["axis"] if isinstance(op["axis"], int) else tuple(op["axis"])
            try:
                r = getattr(s.obj, op["f"])(ax, keepdims=op["keepdims"])
            except Exception as e:
                ctx.expect(True, "base-reduction-refused")
                ctx.note("base-reduction-refused-with-" + type(e).__name__)
            else:
                ctx.expect(False, "base-reduction-refused", axis=op["axis"], f=op["f"], result_shape=list(getattr(r, "shape", ())), **det)
            _unchanged(ctx, s, snap, "base-reduction-refused", **det)
            continue
        if name == "index-base":
            snap = _snapshot(s)
            items = tuple(to_index(it) for it in op["items"])
            try:
                r = s.obj[items]
            except Exception as e:
                ctx.expect(True, "base-index-refused")
                ctx.note("base-index-refused-with-" + type(e).__name__)
            else:
                ctx.expect(False, "base-index-refused", items=op["items"], result_shape=list(r.shape), **det)
            _unchanged(ctx, s, snap, "base-index-refused", **det)
            continue

        # ------------------------------------------------------------------ operations that must complete
        before = ctx._case_violations
        try:
            if name == "index":
                items = [to_index(it) for it in op["items"]]
                real_items = list(items)
                if op.get("keepdims"):
                    items = _keepdims_items(items, s.axes)
                new_axes, picked = sh_index(s.axes, items)
                new_md = dict(s.md)
                current = dict(s.obj.metadata)
                for ax, i in picked:
                    new_md.update(item_metadata(ax, i, current))
                np_items = tuple(items)
                new_st = s.st
                if "slice_item" in op:
                    it = to_index(op["slice_item"])
                    keep = slice(it, it + 1 if it != -1 else None) if isinstance(it, int) else it
                    n_none = sum(1 for x in items if x is None)
                    lead = tuple(items) + (slice(None),) * (n_ens - (len(items) - n_none))
                    new_arr = s.arr[lead + (keep,)]
                    new_st = [float(v) for v in np.array(s.st)[keep]]
                    res = s.obj[tuple(items) + (it,)]
                else:
                    new_arr = s.arr[np_items]
                    if op.get("keepdims"):
                        res = type(s.obj)(**s.obj.get_items(tuple(real_items), keepdims=True))
                    else:
                        res = s.obj[items[0]] if op.get("bare") else s.obj[np_items]
                new_arr = _judge(ctx, s, res, new_arr, new_axes, new_md, "index", **det)
                want_items = {k: v for k, v in new_md.items() if k not in s.md or not _eq(s.md[k], v)}
                rm = dict(res.metadata)
                ctx.expect(all(k in rm and _eq(rm[k], v) for k, v in want_items.items()), "index-item-metadata",
                           want=want_items, got={k: rm.get(k) for k in want_items}, **det)
                if potential:
                    ctx.close(res.slice_thickness, new_st, "potential-slice-thickness", rtol=1e-12, **det)
                s.obj, s.arr, s.axes, s.md, s.st = res, new_arr, new_axes, new_md, new_st

            elif name == "reduce":
                f = op["f"]
                if op["axis"] is None:
                    val = getattr(s.obj, f)()
                    want = getattr(np, f)(s.arr)
                    ctx.close(_compute(val), want, "reduce-all-values", rtol=_tol(s.arr.dtype, f) * 10, scale=_finite_max(s.arr) * (s.arr.size if f == "sum" else 1), **det)
                    done += 1
                    break
                ax = op["axis"] if isinstance(op["axis"], int) else tuple(op["axis"])
                red = norm_axes(ax, ndim)
                keep = op["keepdims"]
                new_arr = getattr(np, f)(s.arr, axis=red, keepdims=keep)
                new_axes = [({"cls": WILD, "label": None, "n": 1, "direction": None, "values": None} if i in red else a)
                            for i, a in enumerate(s.axes) if keep or i not in red]
                res = getattr(s.obj, f)(ax, keepdims=keep)
                count = int(np.prod([s.arr.shape[i] for i in red])) if f == "sum" else 1
                new_arr = _judge(ctx, s, res, new_arr, new_axes, s.md, "reduce", tolop=f, scale=_finite_max(s.arr) * count,
                                 f=f, axis=op["axis"], keepdims=keep, **det)
                if keep:
                    ctx.expect(len(res.ensemble_axes_metadata) == n_ens, "reduce-keepdims-axes", **det)
                s.obj, s.arr, s.axes = res, new_arr, new_axes

            elif name == "squeeze":
                if op["axis"] is None:
                    sel = tuple(i for i, a in enumerate(s.axes) if a["n"] == 1)
                    res = s.obj.squeeze()
                else:
                    sel = tuple(i for i in norm_axes(op["axis"], ndim) if i < n_ens and s.axes[i]["n"] == 1)
                    res = s.obj.squeeze(tuple(op["axis"]))
                new_arr = np.squeeze(s.arr, axis=sel)
                new_axes = [a for i, a in enumerate(s.axes) if i not in sel]
                new_arr = _judge(ctx, s, res, new_arr, new_axes, s.md, "squeeze", axis=op["axis"], **det)
                s.obj, s.arr, s.axes = res, new_arr, new_axes

            elif name == "expand":
                ax = op["axis"]
                k = 1 if isinstance(ax, int) else len(ax)
                pos = norm_axes(ax, ndim + k)
                meta = None if op["meta"] is None else [L.build_axis(d) for d in op["meta"]]
                new = [unknown() for _ in range(k)] if op["meta"] is None else [entry(d, 1) for d in op["meta"]]
                new_arr = np.expand_dims(s.arr, ax if isinstance(ax, int) else tuple(ax))
                new_axes = sh_expand(s.axes, pos, new)
                res = s.obj.expand_dims(ax if isinstance(ax, int) else tuple(ax), axis_metadata=meta)
                new_arr = _judge(ctx, s, res, new_arr, new_axes, s.md, "expand", axis=ax, **det)
                s.obj, s.arr, s.axes = res, new_arr, new_axes

            elif name == "stack":
                rng = np.random.default_rng(op["seed"])
                k, a, meta = op["k"], op["axis"], op["meta"]
                arrs = [s.arr] + [(s.arr * rng.uniform(0.5, 2.0) + rng.uniform(-1, 1)).astype(s.arr.dtype) for _ in range(k - 1)]
                objs = [s.obj] + [_clone(s.obj, x, lazy) for x in arrs[1:]]
                if meta["form"] == "none":
                    am = None
                elif meta["form"] == "strs":
                    am = list(meta["values"])
                elif meta["form"] == "dict":
                    am = {"label": meta["label"], "values": tuple(meta["values"])}
                else:
                    am = getattr(abtem.core.axes, meta["cls"])(label=meta["label"], values=tuple(meta["values"]))
                new_arr = np.stack(arrs, axis=a)
                new_axes = s.axes[:a] + [_stack_entry(meta, k)] + s.axes[a:]
                res = abtem.stack(objs, am, axis=a)
                new_arr = _judge(ctx, s, res, new_arr, new_axes, s.md, "stack", axis=a, k=k, form=meta["form"], **det)
                s.obj, s.arr, s.axes = res, new_arr, new_axes

            elif name == "concat":
                rng = np.random.default_rng(op["seed"])
                a = op["axis"]
                e = s.axes[a]
                extra = _concat_values(e, op["lens"])
                arrs, objs = [s.arr], [s.obj]
                for m, vals in zip(op["lens"], extra):
                    shape = list(s.arr.shape)
                    shape[a] = m
                    x = rng.uniform(0.5, 2.0, size=shape).astype(s.arr.dtype)
                    ens = [am.copy() for am in s.obj.ensemble_axes_metadata]
                    if e["values"] is not None:
                        ens[a].values = vals
                    arrs.append(x)
                    objs.append(_clone(s.obj, x, lazy, ens))
                new_arr = np.concatenate(arrs, axis=a)
                new_axes = s.axes[:a] + [{**e, "n": new_arr.shape[a], "values": None if e["values"] is None else e["values"] + sum(extra, ())}] + s.axes[a + 1:]
                res = abtem.concatenate(objs, axis=a)
                new_arr = _judge(ctx, s, res, new_arr, new_axes, s.md, "concatenate", axis=a, lens=op["lens"], **det)
                s.obj, s.arr, s.axes = res, new_arr, new_axes

            else:
                f, o = op["f"], op["other"]
                if lazy and ("ndarray" in o or "object" in o) and any(0 in c for c in s.obj.array.chunks):
                    # dask (trusted) broadcasts an operand against zero-length chunks left by slicing and returns too many items
                    ctx.note("skipped-array-operand-on-zero-length-dask-chunks")
                    continue
                if "scalar" in o:
                    other = other_np = float(o["scalar"])
                elif "int" in o:
                    other = other_np = int(o["int"])
                elif "cscalar" in o:
                    other = other_np = complex(*o["cscalar"])
                elif "ndarray" in o:
                    rng = np.random.default_rng(o["seed"])
                    shape = {"full": s.arr.shape, "base": s.arr.shape[n_ens:], "lead1": (1,) * min(n_ens, 1) + s.arr.shape[min(n_ens, 1):]}[o["ndarray"]]
                    other = other_np = rng.uniform(0.5, 2.0, size=shape).astype(s.arr.real.dtype)
                    if lazy and o["seed"] % 2:
                        import dask.array as da
                        other = da.from_array(other_np, chunks=-1)
                else:
                    rng = np.random.default_rng(o["object"])
                    other_np = (rng.uniform(0.5, 2.0, size=s.arr.shape) * rng.choice([-1.0, 1.0], size=s.arr.shape)).astype(s.arr.dtype)
                    other = _clone(s.obj, other_np, lazy)
                new_arr = np.asarray(ARITH[f](s.arr, other_np))
                res = ARITH[f](s.obj, other)
                clause = "reflected" if f in ("rmul", "rtruediv") else "arithmetic"
                ok = isinstance(res, type(s.obj))
                ctx.expect(ok, clause + "-values", reason="result type", got=type(res).__name__, f=f, **det)
                if not ok:
                    break
                new_arr = _judge_arith(ctx, s, res, new_arr, clause, f=f, other=o, **det)
                s.obj, s.arr = res, new_arr
            done += 1
        except Exception as e:
            import traceback
            ctx.expect(False, "operation-completes", error=repr(e)[:300], tb=traceback.format_exc()[-700:], operation=op, **det)
            break
        else:
            ctx.expect(True, "operation-completes")
        if ctx._case_violations > before:
            break                                            # the shadow is no longer a valid reference for later steps
    ctx.nontrivial(done >= 1 and len(desc["ens_shape"]) >= 1)


def _judge_arith(ctx, s, res, new_arr, clause, **detail):
    got = _compute(res.array)
    n_before = ctx._case_violations
    if ctx.expect(got.shape == new_arr.shape, clause + "-values", reason="shape", got=list(got.shape), want=list(new_arr.shape), **detail):
        ctx.expect(got.dtype == new_arr.dtype, clause + "-values", reason="dtype", got=str(got.dtype), want=str(new_arr.dtype), **detail)
        fin = np.isfinite(new_arr)
        ctx.expect(np.array_equal(np.isfinite(got), fin), clause + "-values", reason="non-finite pattern", **detail)
        scale = float(np.abs(new_arr[fin]).max()) if fin.any() else 1.0
        ctx.close(np.where(fin, got, 0), np.where(fin, new_arr, 0), clause + "-values", rtol=_tol(new_arr.dtype, None) * 10, scale=scale, **detail)
    am = list(res.axes_metadata)
    ctx.expect(len(am) == got.ndim and len(res.ensemble_axes_metadata) == got.ndim - s.base_dims, "one-axis-entry-per-dimension", **detail)
    bad = None
    for i, (a, e) in enumerate(zip(res.ensemble_axes_metadata, s.axes)):
        if e["cls"] != WILD and (type(a).__name__ != e["cls"] or a.label != e["label"] or (e["values"] is not None and tuple(a.values) != e["values"])):
            bad = "axis %d changed" % i
    if len(res.ensemble_axes_metadata) != len(s.axes):
        bad = "entries"
    ctx.expect(bad is None, "arithmetic-axes", problem=bad, **detail)
    rm = dict(res.metadata)
    missing = [k for k, v in s.md.items() if k not in rm or not _eq(rm[k], v)]
    ctx.expect(not missing, "metadata-kept", missing=missing[:5], **detail)
    return np.array(got) if ctx._case_violations == n_before else new_arr
