"""C31 Poisson noise is valid, independent and reproducible.

Every case builds one measurement (Images / DiffractionPatterns / PolarMeasurements / real- and reciprocal-space
line profiles) with 0-3 ensemble axes from a float64 master signal and runs the real `.poisson_noise` eagerly (twice)
and lazily with a given chunking (twice).  Oracles (all independent of abtem/noise.py):

  * counts           every value is finite, >= 0 and a whole number; shape is [doses][samples] + input shape;
  * expectation      lambda = dose * max(signal, 0) in float64 (dose_per_area * pixel area from the axes for the
                     per-area form).  The sum of independent Poisson counts is exactly Poisson(sum lambda), so the total
                     of every (member, block) piece is tested with the *exact* two-sided Poisson tail probability against the
                     6-sigma level 1.97e-9 (no normal approximation);
  * reproducible     same seed, same call -> bit-identical arrays (eager and lazy);
  * lazy == eager    for a fixed seed the computed lazy result must be bit-identical to the eager one, for every chunking;
  * independence     members with identical lambda (ensemble members with equal signal, Poisson samples, repeated doses, and all of
                     them together) must not be exact duplicates -- EVERY such pair along every leading axis is covered by hashing
                     (only judged when the probability of a chance duplicate, computed exactly as prod_p exp(-2 lambda_p)
                     I0(2 lambda_p), is < 1e-12) -- and standardised residuals must be uncorrelated, |rho| <= 6/sqrt(N) over the
                     N >= 256 pixels with lambda >= 10, for neighbouring members along every axis (any lambda) and further
                     pairs of equal lambda;
  * block hook       a wrapper on NoiseTransform._calculate_new_array (installed before the graph is built) records
                     (seed, block shape) per call; the number of calls must equal the number of dask blocks and the evidence
                     shows how many blocks shared one stream.

Known finding (not repaired, DESIGN.md section 4 row 16): with a seed every dask block restarts the same random stream.  It is
classified by mechanism: seed given AND lazy AND more than one block AND the observed lazy result is bit-identical to the
block model recomputed here (the eager `.poisson_noise` with the same arguments applied to every block of the input separately,
results put back in place).  A lazy result that equals neither the eager result nor the block model is a VIOLATION, as is any
duplicate/correlation *inside* a block or without a seed.
"""
import itertools
import math

import numpy as np

from vf import gen as G

PROPERTY = "C31"
TECHNIQUE = "runtime monitoring; exact Poisson tail test + duplicate/correlation monitors + differential lazy-vs-eager with a per-block stream model, hook on NoiseTransform._calculate_new_array"
RULE = ("measurement type (5), 0-3 ensemble axes (ordinal/scan/plain/frozen-phonon, sizes 1-5), base shapes 1-D 16-96 or 2-D 6-32 per "
        "side, signal = base pattern x member scale (members equal / scaled / unrelated), levels 1e-3..1e4 with zeros and negative "
        "pixels, size-1 base axes, dose total or per-area, scalar (float/int/numpy scalar, 0) or 1-3 doses (0 allowed), samples 1-4 (int or "
        "numpy int), dose sequences with repeated values (45 %), seed None / random int / hostile (0, 1, 2**31-1, 2**32-1, 2**32, 2**63-1, 2**64+5) as python or numpy integer, chunkings: one block / per member / random "
        "per axis / base axes split, float32 or float64, threaded or synchronous scheduler; non-trivial = at least 2 members with "
        "identical lambda and sum(lambda) >= 100; distinct = distinct case signature")
CLAUSES = ["counts-nonnegative-whole", "expectation", "seed-reproducible", "lazy-equals-eager", "independent-no-duplicates",
           "independent-correlation", "block-hook"]
QUICK = dict(n=300, time=45)
THOROUGH = dict(n=64000, time=480, shards=16)

FINDING = "C31-seeded-lazy-noise-per-block-stream"
P6 = 1.973175290075396e-09       # two-sided normal tail beyond 6 sigma
MTYPES = ["images", "dp", "polar", "rline", "kline"]


# --------------------------------------------------------------------------- generator
def gen(rng, tier):
    mtype = str(rng.choice(MTYPES, p=[0.35, 0.25, 0.15, 0.15, 0.10]))
    if mtype in ("rline", "kline"):
        base = [int(rng.choice([16, 33, 64, 96, 1, 2]))]
    else:
        base = [int(rng.integers(6, 33)), int(rng.integers(6, 33))]
        if rng.random() < 0.08:          # size-1 base axes
            base[int(rng.integers(0, 2))] = 1
    form = "total"
    n_ens = int(rng.choice([0, 1, 1, 2, 2, 3]))
    ens = []
    if mtype in ("images", "dp", "polar") and rng.random() < 0.35:
        form = "area"
        if mtype != "images":
            # per-area doses need exactly two scan axes
            n_ens = 2
    for i in range(n_ens):
        kind = str(rng.choice(["ordinal", "scan", "plain", "fp"]))
        if form == "area" and mtype != "images":
            kind = "scan"
        elif form == "total" and mtype != "images" and kind == "scan" and sum(e["kind"] == "scan" for e in ens) >= 2:
            kind = "ordinal"
        ens.append({"kind": kind, "n": int(rng.choice([1, 2, 2, 3, 4, 5])), "sampling": float(rng.uniform(0.1, 1.5))})
    while int(np.prod([e["n"] for e in ens] + [1])) > 40:
        ens[int(rng.integers(0, len(ens)))]["n"] = 2
    ndose = int(rng.choice([0, 0, 0, 2, 3, 3]))
    level = float(10 ** rng.uniform(-3, 4))
    dose_scale = float(10 ** rng.uniform(-1, 3))
    if form == "area":
        dose_scale *= 10.0
    ndose = int(rng.choice([ndose, ndose, ndose, 1]))          # a one-element dose sequence is a sequence too
    dose = dose_scale if ndose == 0 else [float(dose_scale * 10 ** rng.uniform(-0.7, 0.7)) for _ in range(ndose)]
    if ndose >= 2 and rng.random() < 0.45:
        # members that share their parameters: the same dose more than once (repeated exposures)
        i, j = rng.choice(ndose, size=2, replace=False)
        dose[int(j)] = dose[int(i)]
        if ndose == 3 and rng.random() < 0.3:
            dose = [dose[int(i)]] * 3
    scalar_as = str(rng.choice(["float", "float", "float", "int", "np.float32", "np.float64"]))
    r = rng.random()
    if r < 0.06:                          # dose 0: every count must be 0
        if ndose == 0:
            dose = 0.0
        else:
            dose[int(rng.integers(0, ndose))] = 0.0
    if ndose == 0 and scalar_as == "int":
        dose = float(max(0, round(dose)))
    shape = [e["n"] for e in ens] + base
    r = rng.random()
    if r < 0.2:
        chunks = list(shape)
    elif r < 0.5:
        chunks = [1] * len(ens) + base
    else:
        chunks = [int(rng.integers(1, n + 1)) for n in shape[:len(ens)]] + base
    if rng.random() < 0.12:
        chunks[-1] = max(1, base[-1] // int(rng.choice([2, 3])))
        if len(base) == 2 and rng.random() < 0.5:
            chunks[-2] = max(1, base[-2] // 2)
    return {
        "mtype": mtype, "ens": ens, "base": base, "sampling": [float(rng.uniform(0.02, 0.5)), float(rng.uniform(0.02, 0.5))],
        "sig_seed": int(rng.integers(0, 2 ** 31)), "sig_mode": str(rng.choice(["equal", "equal", "scaled", "random"])),
        "level": level, "neg": bool(rng.random() < 0.25), "zeros": bool(rng.random() < 0.25),
        "dose": {"form": form, "v": dose, "as": str(rng.choice(["list", "tuple", "ndarray"])), "scalar_as": scalar_as},
        "samples": int(rng.choice([1, 1, 1, 2, 3, 4])), "samples_as": str(rng.choice(["int", "int", "int", "np.int64"])),
        "seed": _gen_seed(rng), "seed_as": str(rng.choice(["int"] * 11 + ["np.int64", "np.uint32", "np.int32"])),
        "chunks": chunks, "precision": str(rng.choice(["float32", "float32", "float64"])),
        "scheduler": str(rng.choice(["threads", "synchronous"])),
    }


HOSTILE_SEEDS = [0, 0, 0, 1, 2 ** 31 - 1, 2 ** 31, 2 ** 32 - 1, 2 ** 32, 2 ** 63 - 1, 2 ** 64 + 5]


def _gen_seed(rng):
    r = rng.random()
    if r < 0.25:
        return None
    if r < 0.55:
        return int(HOSTILE_SEEDS[int(rng.integers(0, len(HOSTILE_SEEDS)))])
    return int(rng.integers(0, 2 ** 31))


def seed_arg(case):
    """The seed object handed to abTEM: python int (default) or a numpy integer scalar of the requested type."""
    v, t = case["seed"], case.get("seed_as", "int")
    if v is None or t == "int":
        return v
    info = np.iinfo(getattr(np, t[3:]))
    if not (info.min <= v <= info.max):
        return v
    return getattr(np, t[3:])(v)


def fixed_cases(tier):
    def case(**kw):
        c = {"mtype": "images", "ens": [{"kind": "ordinal", "n": 4, "sampling": 1.0}, {"kind": "fp", "n": 3, "sampling": 1.0}],
             "base": [24, 20], "sampling": [0.1, 0.2], "sig_seed": 7, "sig_mode": "equal", "level": 30.0, "neg": False, "zeros": False,
             "dose": {"form": "total", "v": 10.0, "as": "list"}, "samples": 1, "seed": 3, "chunks": [1, 1, 24, 20],
             "precision": "float32", "scheduler": "threads"}
        c.update(kw)
        return c
    scan2 = [{"kind": "scan", "n": 3, "sampling": 0.3}, {"kind": "scan", "n": 4, "sampling": 0.5}]
    return [
        case(),                                                               # seeded, one block per member
        case(chunks=[4, 3, 24, 20]),                                          # seeded, single block: lazy must equal eager
        case(chunks=[2, 3, 24, 20], seed=None),                               # unseeded, several blocks: independent
        case(chunks=[4, 3, 12, 20]),                                          # seeded, base axis split
        case(samples=3, dose={"form": "total", "v": [5.0, 50.0], "as": "tuple"}, chunks=[2, 2, 24, 20]),
        case(samples=4, ens=[], chunks=[24, 20], level=200.0),                # no ensemble axes: samples only
        case(mtype="dp", ens=scan2, dose={"form": "area", "v": 4000.0, "as": "list"}, chunks=[3, 2, 24, 20], level=5.0),
        case(mtype="polar", ens=scan2, dose={"form": "area", "v": [900.0, 4000.0], "as": "ndarray"}, chunks=[1, 4, 24, 20], seed=11),
        case(mtype="rline", base=[64], ens=[{"kind": "plain", "n": 5, "sampling": 1.0}], chunks=[2, 64], level=80.0),
        case(mtype="kline", base=[96], ens=[{"kind": "ordinal", "n": 2, "sampling": 1.0}], chunks=[2, 96], seed=None, level=400.0,
             precision="float64", scheduler="synchronous"),
        case(neg=True, zeros=True, level=0.05, chunks=[4, 1, 24, 20], sig_mode="scaled"),
        # hostile values: falsy / extreme seeds, dose 0, one-element dose sequence, size-1 axes, numpy scalars
        case(seed=0, chunks=[4, 3, 24, 20]),                                  # seed 0 is a seed: reproducible, lazy == eager
        case(seed=0),                                                         # seed 0, one block per member
        case(seed=0, samples=2, chunks=[4, 3, 24, 20]),
        case(seed=2 ** 32 - 1, chunks=[4, 3, 24, 20], ens=[{"kind": "plain", "n": 1, "sampling": 1.0},
                                                            {"kind": "ordinal", "n": 3, "sampling": 1.0}]),
        case(seed=2 ** 64 + 5, chunks=[2, 3, 24, 20], samples=3),
        case(seed=5, seed_as="np.int64", chunks=[4, 3, 24, 20]),              # numpy integer seed: refused or honoured, never ignored
        case(seed=0, seed_as="np.int64", chunks=[4, 3, 24, 20]),
        case(dose={"form": "total", "v": 0.0, "as": "list", "scalar_as": "float"}, chunks=[2, 3, 24, 20]),
        case(dose={"form": "total", "v": [0.0, 25.0], "as": "list"}, seed=0, chunks=[4, 3, 24, 20]),
        case(dose={"form": "total", "v": [12.0], "as": "tuple"}, seed=1, chunks=[4, 3, 24, 20]),
        case(dose={"form": "total", "v": 7.0, "as": "list", "scalar_as": "int"}, samples=2, samples_as="np.int64", seed=0,
             chunks=[4, 3, 24, 20]),
        case(base=[1, 20], chunks=[2, 3, 1, 20], seed=0, level=300.0),
        # members sharing their parameters: repeated doses (with / without seed, samples, per-area form, no other ensemble axis)
        case(dose={"form": "total", "v": [5.0, 5.0, 20.0], "as": "list"}, chunks=[4, 3, 24, 20]),
        case(dose={"form": "total", "v": [20.0, 5.0, 20.0], "as": "tuple"}, seed=None, chunks=[2, 3, 24, 20]),
        case(dose={"form": "total", "v": [8.0, 8.0], "as": "ndarray"}, samples=2, ens=[], chunks=[24, 20], level=40.0),
        case(mtype="dp", ens=scan2, dose={"form": "area", "v": [3000.0, 3000.0, 3000.0], "as": "ndarray"}, chunks=[3, 4, 24, 20], level=5.0,
             seed=0),
        case(mtype="rline", base=[1], ens=[{"kind": "ordinal", "n": 4, "sampling": 1.0}], chunks=[4, 1], seed=0, level=500.0),
    ]


# --------------------------------------------------------------------------- building the objects
def master_signal(case):
    rng = np.random.default_rng(case["sig_seed"])
    ens_shape = tuple(e["n"] for e in case["ens"])
    base = tuple(case["base"])
    pattern = rng.gamma(2.0, 0.5, size=base)
    if case["zeros"]:
        pattern[rng.random(base) < 0.3] = 0.0
    if case["neg"]:
        neg = rng.random(base) < 0.15
        pattern[neg] = -pattern[neg] * 0.5
    pattern = pattern * case["level"]
    if case["sig_mode"] == "equal":
        scale = np.ones(ens_shape)
    elif case["sig_mode"] == "scaled":
        scale = rng.choice([0.5, 1.0, 1.0, 2.0], size=ens_shape)
    else:
        scale = None
    if scale is None:
        sig = rng.gamma(2.0, 0.5, size=ens_shape + base) * case["level"]
    else:
        sig = scale.reshape(ens_shape + (1,) * len(base)) * pattern
    return sig


def ens_axes(case, slices=None):
    from abtem.core import axes as A
    out = []
    for i, e in enumerate(case["ens"]):
        sl = slice(None) if slices is None else slices[i]
        if e["kind"] == "ordinal":
            ax = A.OrdinalAxis(label="p%d" % i, values=tuple(float(v) for v in range(e["n"])))[sl]
        elif e["kind"] == "scan":
            ax = A.ScanAxis(label="xy"[i % 2], sampling=e["sampling"], units="Å")
        elif e["kind"] == "fp":
            ax = A.FrozenPhononsAxis()
        else:
            ax = A.AxisMetadata(label="a%d" % i)
        out.append(ax)
    return out


def make(case, array, slices=None):
    from abtem import measurements as M
    axes = ens_axes(case, slices)
    t = case["mtype"]
    s = case["sampling"]
    if t == "images":
        return M.Images(array, sampling=tuple(s), ensemble_axes_metadata=axes)
    if t == "dp":
        return M.DiffractionPatterns(array, sampling=tuple(s), fftshift=True, ensemble_axes_metadata=axes)
    if t == "polar":
        return M.PolarMeasurements(array, radial_sampling=s[0] * 10, azimuthal_sampling=s[1], ensemble_axes_metadata=axes)
    if t == "rline":
        return M.RealSpaceLineProfiles(array, sampling=s[0], ensemble_axes_metadata=axes)
    return M.ReciprocalSpaceLineProfiles(array, sampling=s[0], ensemble_axes_metadata=axes)


def dose_arg(case):
    d = case["dose"]
    v = d["v"]
    if isinstance(v, list):
        # (a python sequence for dose_per_area is refused by numpy-2 scalar*list arithmetic: pass it as an array)
        if d["as"] == "ndarray" or d["form"] == "area":
            v = np.array(v)
        elif d["as"] == "tuple":
            v = tuple(v)
    else:
        t = d.get("scalar_as", "float")
        v = int(v) if t == "int" else np.float32(v) if t == "np.float32" else np.float64(v) if t == "np.float64" else float(v)
    key = "total_dose" if d["form"] == "total" else "dose_per_area"
    return {key: v}


def pixel_area(case):
    """Independent evaluation of the area one value stands for (per-area doses)."""
    if case["mtype"] == "images":
        return float(case["sampling"][0]) * float(case["sampling"][1])
    scan = [e["sampling"] for e in case["ens"] if e["kind"] == "scan"]
    assert len(scan) == 2
    return float(scan[0]) * float(scan[1])


def expected_lambda(case, sig_cast):
    """float64 lambda with the output layout [doses][samples] + signal shape."""
    d = case["dose"]
    doses = np.atleast_1d(np.array(d["v"], dtype=np.float64))
    if not isinstance(d["v"], list) and d.get("scalar_as") == "np.float32":
        doses = doses.astype(np.float32).astype(np.float64)      # the caller's number already is a float32
    if d["form"] == "area":
        doses = doses * pixel_area(case)
    # the dose is handed over in the working precision
    doses = doses.astype(np.float32 if case["precision"] == "float32" else np.float64).astype(np.float64)
    lam = np.clip(sig_cast.astype(np.float64), 0.0, None)
    if case["samples"] > 1:
        lam = np.broadcast_to(lam[None], (case["samples"],) + lam.shape)
    if isinstance(d["v"], list):
        lam = doses.reshape((-1,) + (1,) * lam.ndim) * lam[None]
    else:
        lam = lam * doses[0]
    return np.ascontiguousarray(lam)


# --------------------------------------------------------------------------- statistics
def poisson_two_sided_p(total, lam):
    from scipy.stats import poisson
    if lam <= 0:
        return 1.0 if total == 0 else 0.0
    return float(min(1.0, 2.0 * min(poisson.cdf(total, lam), poisson.sf(total - 1, lam))))


def log_prob_chance_duplicate(lam):
    from scipy.special import ive
    return float(np.sum(np.log(ive(0, 2.0 * lam))))


def blocks_of(chunks):
    """List of tuples of slices, one per dask block."""
    edges = []
    for c in chunks:
        e = np.concatenate([[0], np.cumsum(c)])
        edges.append([slice(int(a), int(b)) for a, b in zip(e[:-1], e[1:])])
    return list(itertools.product(*edges))


class _Hook:
    def __init__(self):
        self.calls = []

    def wrap(self, orig):
        hook = self

        def _calculate_new_array(self_, array_object):
            seeds = self_.seeds
            seed = None if seeds is None else (int(seeds) if isinstance(seeds, (int, np.integer)) else
                                               int(sum(seeds.values)))
            values = None if seeds is None or isinstance(seeds, (int, np.integer)) else tuple(int(v) for v in seeds.values)
            hook.calls.append((seed, tuple(array_object.shape), values))
            return orig(self_, array_object)
        return _calculate_new_array


def check_counts(ctx, arr, lam, where):
    ok_shape = ctx.expect(arr.shape == lam.shape, "counts-nonnegative-whole", what="shape", where=where, got=list(arr.shape),
                          want=list(lam.shape))
    a = np.asarray(arr, dtype=np.float64)
    ctx.expect(bool(np.isfinite(a).all()) and bool((a >= 0).all()) and bool((a == np.round(a)).all()),
               "counts-nonnegative-whole", where=where, min=float(np.min(a)) if a.size else None,
               nonwhole=int(np.sum(a != np.round(a))))
    return ok_shape


def check_expectation(ctx, arr, lam, n_lead, base_blocks, where):
    """Exact Poisson test of the total of every (member, base block) piece."""
    a = np.asarray(arr, dtype=np.float64)
    lead_shape = a.shape[:n_lead]
    worst = 1.0
    for idx in np.ndindex(*lead_shape):
        for bb in base_blocks:
            T = float(a[idx + bb].sum())
            L = float(lam[idx + bb].sum())
            p = poisson_two_sided_p(T, L)
            worst = min(worst, p)
            ctx.expect(p >= P6, "expectation", where=where, member=list(idx), total=T, expected=L, p=p,
                       z=(T - L) / math.sqrt(L) if L > 0 else None)
    # the whole array once more (sensitive to small systematic factors) unless pieces are duplicates of each other
    return worst


def member_groups(lam, n_lead):
    """Groups of leading indices whose lambda arrays are identical."""
    groups = {}
    for idx in np.ndindex(*lam.shape[:n_lead]):
        key = lam[idx].tobytes()
        groups.setdefault(key, []).append(idx)
    return [g for g in groups.values() if len(g) > 1]


def check_independence(ctx, arr, lam, n_lead, where, same_block=None, max_pairs=150):
    """Duplicate and correlation monitors over pairs of members.

    * exact duplicates: EVERY pair of members with identical lambda (along every leading axis: doses, samples, ensemble axes)
      is covered by hashing the members of each group;
    * correlation: neighbouring members along every leading axis first (whatever their lambda: independent noise is
      uncorrelated for any two members), then the remaining pairs inside the groups of identical lambda, up to `max_pairs`.
    same_block(idx_a, idx_b) -> bool restricts the pairs (used when the known finding explains cross-block pairs)."""
    a = np.asarray(arr, dtype=np.float64)
    lead = a.shape[:n_lead]
    groups = member_groups(lam, n_lead)
    # ---- duplicates: all pairs of every group
    for g in groups:
        logp = log_prob_chance_duplicate(lam[g[0]])
        if logp >= math.log(1e-12):
            continue
        buckets = {}
        for idx in g:
            buckets.setdefault(a[idx].tobytes(), []).append(idx)
        dup = [(ia, ib) for b in buckets.values() if len(b) > 1 for ia, ib in itertools.combinations(b, 2)
               if same_block is None or same_block(ia, ib)]
        npairs = len(g) * (len(g) - 1) // 2
        ctx.clauses["independent-no-duplicates"] += max(npairs - 1, 0)
        ctx.expect(not dup, "independent-no-duplicates", where=where, pairs=[[list(x), list(y)] for x, y in dup[:5]],
                   n_duplicate_pairs=len(dup), group_size=len(g), log_prob_chance=logp)
    # ---- correlation
    pairs = []
    seen = set()
    for ax in range(n_lead):
        for idx in np.ndindex(*lead):
            if idx[ax] + 1 < lead[ax]:
                other = idx[:ax] + (idx[ax] + 1,) + idx[ax + 1:]
                pairs.append((idx, other))
                seen.add((idx, other))
    if len(pairs) > max_pairs // 2:
        # keep the pairs of every axis represented
        step = len(pairs) / (max_pairs // 2)
        pairs = [pairs[int(i * step)] for i in range(max_pairs // 2)]
    for g in groups:
        for pr in itertools.combinations(g, 2):
            if len(pairs) >= max_pairs:
                break
            if pr not in seen:
                pairs.append(pr)
    done = 0
    for ia, ib in pairs:
        if same_block is not None and not same_block(ia, ib):
            continue
        la, lb = lam[ia], lam[ib]
        strong = (la >= 10.0) & (lb >= 10.0)
        n = int(strong.sum())
        if n < 256:
            continue
        za = (a[ia][strong] - la[strong]) / np.sqrt(la[strong])
        zb = (a[ib][strong] - lb[strong]) / np.sqrt(lb[strong])
        rho = float(np.mean(za * zb))
        ctx.close(rho, 0.0, "independent-correlation", rtol=0.0, atol=6.0 / math.sqrt(n), where=where, a=list(ia),
                  b=list(ib), n=n, same_lambda=bool(np.array_equal(la, lb)))
        done += 1
    return done


# --------------------------------------------------------------------------- the check
def check(ctx, case):
    import dask
    import dask.array as da
    import abtem
    from abtem import noise as noise_mod

    dtype = np.float32 if case["precision"] == "float32" else np.float64
    sig = master_signal(case).astype(dtype)
    lam = expected_lambda(case, sig)
    n_ens = len(case["ens"])
    n_lead = lam.ndim - len(case["base"])
    n_new = n_lead - n_ens                      # axes added by the transform: [doses][samples]
    samples = np.int64(case["samples"]) if case.get("samples_as") == "np.int64" else case["samples"]
    kwargs = dict(dose_arg(case), samples=samples, seed=seed_arg(case))
    seeded = case["seed"] is not None            # 0 is a seed
    numpy_seed = isinstance(kwargs["seed"], np.integer)
    ctx.monitor("seed:%s" % ("none" if not seeded else "zero" if case["seed"] == 0 else "numpy" if numpy_seed else
                             "huge" if case["seed"] >= 2 ** 32 else "int"))
    full_base = [tuple(slice(None) for _ in case["base"])]
    groups = member_groups(lam, n_lead)
    ctx.nontrivial(bool(groups) and float(lam.sum()) >= 100.0)

    hook = _Hook()
    with G.Wrapped() as w, abtem.config.set({"precision": case["precision"]}), \
            dask.config.set(scheduler=case["scheduler"]):
        w.patch(noise_mod.NoiseTransform, "_calculate_new_array", hook.wrap)

        # ---------------- eager
        m = make(case, sig.copy())
        try:
            e1 = m.poisson_noise(**kwargs)
        except ValueError as e:
            if numpy_seed and "seeds" in str(e):
                # a clean refusal of a numpy integer as seed produces no measurement: nothing to judge (it must not be
                # silently treated as "no seed" -- if it is accepted, every clause below applies with the seed as given)
                ctx.note("numpy-integer-seed-refused")
                return
            raise
        e2 = m.poisson_noise(**kwargs)
        ctx.expect(type(e1) is type(m) and isinstance(e1.array, np.ndarray), "counts-nonnegative-whole", what="type",
                   got=type(e1).__name__)
        ctx.expect(np.array_equal(m.array, sig), "counts-nonnegative-whole", what="input array modified by poisson_noise")
        ctx.expect(len(hook.calls) == 2 and all(c[1] == sig.shape for c in hook.calls), "block-hook", where="eager",
                   calls=hook.calls[:4])
        if not check_counts(ctx, e1.array, lam, "eager"):
            return
        check_expectation(ctx, e1.array, lam, n_lead, full_base, "eager")
        if seeded:
            ctx.expect(np.array_equal(e1.array, e2.array), "seed-reproducible", where="eager")
        else:
            ctx.note("unseeded-eager-repeat-differs" if not np.array_equal(e1.array, e2.array) else "unseeded-eager-repeat-EQUAL")
        check_independence(ctx, e1.array, lam, n_lead, "eager")
        # two unseeded calls are two more independent draws of every member
        if not seeded:
            both = np.stack([e1.array, e2.array])
            check_independence(ctx, both, np.stack([lam, lam]), n_lead + 1, "eager-two-calls", max_pairs=20)

        # ---------------- lazy
        chunks = tuple(case["chunks"])
        darr = da.from_array(sig.copy(), chunks=chunks)
        in_chunks = darr.chunks
        nblocks = int(np.prod([len(c) for c in in_chunks]))
        ml = make(case, darr)
        hook.calls.clear()
        l1 = ml.poisson_noise(**kwargs)
        ctx.expect(isinstance(l1.array, da.Array) and not hook.calls, "block-hook", what="lazy call must stay lazy",
                   calls=len(hook.calls))
        out_chunks = l1.array.chunks if isinstance(l1.array, da.Array) else None
        a1 = l1.compute().array
        calls1 = list(hook.calls)
        hook.calls.clear()
        l2 = ml.poisson_noise(**kwargs)
        a2 = l2.compute().array
        ctx.monitor("noise-block-calls", len(calls1))
        ctx.monitor("lazy-blocks", nblocks)
        ctx.expect(len(calls1) == nblocks, "block-hook", where="lazy", calls=len(calls1), blocks=nblocks)
        streams = {c[0] for c in calls1}
        if seeded and nblocks > 1:
            ctx.monitor("seeded-blocks-sharing-one-stream", len(calls1) - len(streams))
        ctx.monitor("chunking:%s" % ("one-block" if nblocks == 1 else "ensemble-blocks" if all(
            len(c) == 1 for c in in_chunks[n_ens:]) else "base-blocks"))

        want_chunks = tuple((int(s),) for s in lam.shape[:n_new]) + in_chunks
        chunks_as_modelled = out_chunks == want_chunks
        if not chunks_as_modelled:
            ctx.note("output-chunks-differ-from-input-chunks")
        if not check_counts(ctx, a1, lam, "lazy"):
            return
        base_blocks = blocks_of(in_chunks[n_ens:]) if chunks_as_modelled else full_base
        if seeded:
            ctx.expect(np.array_equal(a1, a2), "seed-reproducible", where="lazy")

        # ---- lazy vs eager for a fixed seed, and the per-block stream model
        # The stream of a transform is fixed before the graph runs when a seed is given, and also -- without a seed -- when
        # samples > 1 (the per-sample seeds are drawn once, at construction, and summed into the seed of every block).
        fixed_stream = seeded or case["samples"] > 1
        equals_eager = seeded and np.array_equal(a1, e1.array)
        known = False
        model = None
        if fixed_stream and nblocks > 1 and chunks_as_modelled and not equals_eager:
            model_kwargs = dict(kwargs)
            if not seeded:
                drawn = {c[2] for c in calls1}
                ctx.expect(len(drawn) == 1 and None not in drawn, "block-hook", what="per-sample seeds differ between blocks",
                           n=len(drawn))
                model_kwargs["seed"] = calls1[0][2]
            saved = list(hook.calls)
            model = np.empty_like(a1)
            for blk in blocks_of(in_chunks):
                sub = make(case, np.ascontiguousarray(sig[blk]), slices=blk[:n_ens])
                model[(slice(None),) * n_new + blk] = sub.poisson_noise(**model_kwargs).array
            hook.calls[:] = saved
            known = bool(np.array_equal(a1, model))
        if seeded:
            if equals_eager:
                ctx.expect(True, "lazy-equals-eager", blocks=nblocks)
            elif known:
                ctx.clauses["lazy-equals-eager"] += 1
                ctx.known(FINDING)
            else:
                ctx.expect(False, "lazy-equals-eager", blocks=nblocks, chunks=[list(c) for c in in_chunks],
                           differing=int(np.sum(a1 != e1.array)), matches_block_model=False if model is not None else None)
        elif known:
            ctx.note("unseeded-samples>1-blocks-share-the-seeds-drawn-at-construction")
            ctx.known(FINDING)

        check_expectation(ctx, a1, lam, n_lead, base_blocks, "lazy")

        # ---- independence on the lazy result
        if known:
            # pairs inside one block are not explained by the finding: they must be independent
            ens_edges = [np.concatenate([[0], np.cumsum(c)]) for c in in_chunks[:n_ens]]

            def same_block(ia, ib):
                for ax in range(n_ens):
                    ba = int(np.searchsorted(ens_edges[ax], ia[n_new + ax], side="right"))
                    bb = int(np.searchsorted(ens_edges[ax], ib[n_new + ax], side="right"))
                    if ba != bb:
                        return False
                return True

            if all(len(c) == 1 for c in in_chunks[n_ens:]):
                check_independence(ctx, a1, lam, n_lead, "lazy-within-block", same_block=same_block)
            else:
                # base axes are split: a member consists of pieces drawn from restarted streams; judge piece by piece
                for bb in base_blocks:
                    sl = (slice(None),) * n_lead + bb
                    check_independence(ctx, a1[sl], lam[sl], n_lead, "lazy-within-block", same_block=same_block, max_pairs=15)
        else:
            check_independence(ctx, a1, lam, n_lead, "lazy")
            if not seeded:
                both = np.stack([a1, a2])
                check_independence(ctx, both, np.stack([lam, lam]), n_lead + 1, "lazy-two-calls", max_pairs=20)
