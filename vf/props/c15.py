"""C15 Fourier interpolation and shifting obey their algebra.

Every clause of the statement is decided on the arrays returned by the real
`abtem.core.fft.fft_interpolate`, `fft_shift` and `Waves.downsample`:

  roundtrip          fft_interpolate(fft_interpolate(a, new), old) == a.  Axes that go *down* in the
                     first step only carry content that fits the smaller grid (otherwise the
                     statement does not apply); axes that go up / stay carry arbitrary content.
  values-mean        normalization='values' keeps the mean over the interpolated axes of every
                     batch item (any content, up or down).
  intensity          normalization='intensity' keeps sum |fftn(a)|^2 over the interpolated axes of
                     band-limited arrays (content strictly below the Nyquist index of both grids);
                     additionally of arbitrary arrays when no axis goes down.
  band-content       band-limited arrays are reproduced exactly on the new grid: the reference places
                     the float64 numpy Fourier coefficients by explicit signed-frequency index
                     arithmetic (no masks, no abTEM code).
  shift-roll         fft_shift by whole pixels == np.roll (also for batches of positions, negative,
                     larger-than-grid and huge shifts).
  shift-compose      fft_shift(fft_shift(x, a), b) == fft_shift(x, a + b) for fractional a, b; in two
                     sub-families a + b is chosen to be 0 or a whole-pixel vector, so the fractional
                     kernels are also tied to the independent identity / np.roll oracle
                     (`shift-compose-roll`).
  downsample-content Waves.downsample (gpts=, 'cutoff', 'valid', angle; 'values'/'amplitude'; eager and
                     lazy; ensemble axes) keeps a band-limited wave unchanged.  The wave is synthesised
                     from random plane-wave coefficients by direct summation (no FFT), the reference
                     is the same sum evaluated on the new grid points.
  downsample-grid    the extent (sampling*gpts), energy and ensemble axes survive downsampling.

Known finding (classified by mechanism, never by case): real input with an even axis that is
up-sampled.  fft_crop stores the Nyquist row of such an axis at the negative frequency only, the
final `.real` therefore keeps half of it; the round trip returns the input with exactly those Fourier
rows halved, and 'intensity' loses half of their power.  The check computes this "half-Nyquist" model
from the case in float64 and accepts *only* results equal to the identity or equal to that model.
"""
import itertools

import numpy as np

PROPERTY = "C15"
TECHNIQUE = "runtime monitoring; float64 numpy reference models (index-arithmetic Fourier placement, np.roll, direct plane-wave summation) on arrays returned by the real functions"
RULE = ("interp cases: 0-2 batch axes (size 1-3) x 1-3 interpolated axes, every axis size 1-40 in and out (odd/even, "
        "up/down/same drawn per axis), dtypes float32/float64/int/complex64/complex128, content full-band, strictly "
        "band-limited, Nyquist-only or constant, precision float64/float32, fft library fftw (planner MEASURE/ESTIMATE) or "
        "numpy, both normalizations; "
        "shift cases: complex grids 1-40 x 1-40 with batch axes and batches of positions, integer (negative, > grid, "
        "up to 1e6) and fractional shifts; downsample cases: band-limited waves 6-40 gpts, 0-2 ensemble axes, eager/lazy "
        "chunkings, gpts=/cutoff/valid/angle. non-trivial = at least one axis changes size with non-constant content, a "
        "non-zero shift, or a real change of gpts; distinct = distinct case dict")
CLAUSES = ["roundtrip", "values-mean", "intensity", "band-content", "shift-roll", "shift-compose",
           "shift-compose-roll", "downsample-content", "downsample-grid"]
QUICK = dict(n=1400, time=40)
THOROUGH = dict(n=256000, time=480, shards=16)
ASSUMPTIONS = ["band-limited = no Fourier content at or above the Nyquist index of the smaller grid in any resampled axis",
               "fft_shift is judged for complex input only (abTEM's fftw fft2 refuses real arrays; all internal callers pass complex probes)"]

FINDING = "C15-real-even-upsample-nyquist"

# tolerances, relative to max|reference| (calibrated: see final report; >= 10x head-room)
TOL = {"float64": 1.5e-12, "float32": 4e-5}


# --------------------------------------------------------------------------- generation
def _size(rng, hi):
    r = rng.random()
    if r < 0.12:
        return int(rng.choice([1, 2, 3, 4]))
    return int(rng.integers(1, hi + 1))


def _plan(rng):
    # abTEM's default planner (FFTW_MEASURE) costs ~30 ms per new shape; most cases use the estimate planner
    return "FFTW_MEASURE" if rng.random() < 0.15 else "FFTW_ESTIMATE"


def _pair(rng, hi):
    """(n_in, n_out) with explicit control over direction and parity."""
    n1 = _size(rng, hi)
    r = rng.random()
    if r < 0.15:
        return n1, n1
    if r < 0.6:   # up
        return n1, int(rng.integers(n1 + 1, max(hi, n1 + 1) + 1)) if rng.random() < 0.8 else n1 + 1
    n1 = max(n1, 2)
    return n1, int(rng.integers(1, n1))   # down


def gen(rng, tier):
    k = rng.random()
    if k < 0.62:
        nd = int(rng.choice([1, 2, 2, 2, 3]))
        hi = {1: 40, 2: 40, 3: 14 if tier == "quick" else 20}[nd]
        pairs = [_pair(rng, hi) for _ in range(nd)]
        nb = int(rng.choice([0, 0, 1, 1, 2]))
        batch = [int(rng.integers(1, 4)) for _ in range(nb)]
        any_down = any(b < a for a, b in pairs)
        content = str(rng.choice(["band", "band", "nyquist", "const"] if any_down else
                                 ["full", "full", "full", "band", "nyquist", "const"]))
        dtype = str(rng.choice(["float64", "float32", "complex128", "complex64", "float64", "complex128", "int16"]))
        if dtype == "int16" and content in ("band", "nyquist"):
            dtype = "float64"      # rounding to integers would destroy the band limit
        return {"kind": "interp", "batch": batch, "shape": [p[0] for p in pairs], "new": [p[1] for p in pairs],
                "dtype": dtype, "content": content, "offset": float(rng.choice([0.0, 0.0, 3.5, -120.0])),
                "scale": float(10 ** rng.uniform(-3, 3)) if rng.random() < 0.3 else 1.0,
                "precision": "float64" if rng.random() < 0.7 else "float32",
                "fft": "fftw" if rng.random() < 0.85 else "numpy",
                "explicit_batch": bool(rng.random() < 0.15), "plan": _plan(rng),
                "seed": int(rng.integers(0, 2 ** 31))}
    if k < 0.84:
        ny, nx = _size(rng, 40), _size(rng, 40)
        form = str(rng.choice(["single", "abatch", "pbatch", "pbatch2", "outer"]))
        abatch, pbatch = [], []
        if form == "abatch":
            abatch = [int(rng.integers(1, 4)) for _ in range(int(rng.integers(1, 3)))]
        elif form == "pbatch":
            pbatch = [int(rng.integers(1, 5))]
        elif form == "pbatch2":
            pbatch = [int(rng.integers(1, 4)), int(rng.integers(1, 4))]
        elif form == "outer":
            abatch, pbatch = [int(rng.integers(1, 4)), 1], [int(rng.integers(1, 4))]
        precision = "float64" if rng.random() < 0.7 else "float32"
        npos = int(np.prod(pbatch)) if pbatch else 1
        mag = str(rng.choice(["small", "small", "wrap", "huge"])) if precision == "float64" else "small"

        def ints():
            out = []
            for _ in range(npos):
                v = []
                for n in (ny, nx):
                    if mag == "small":
                        v.append(int(rng.integers(-n, n + 1)))
                    elif mag == "wrap":
                        v.append(int(rng.integers(-7 * n, 7 * n + 1)))
                    else:
                        v.append(int(rng.integers(-10 ** 6, 10 ** 6)))
                out.append(v)
            return out

        sub = str(rng.choice(["free", "inverse", "whole"]))
        a = [[float(np.round(rng.uniform(-n, n), 6)) for n in (ny, nx)] for _ in range(npos)]
        whole = ints()
        return {"kind": "shift", "ny": ny, "nx": nx, "abatch": abatch, "pbatch": pbatch,
                "dtype": str(rng.choice(["complex128", "complex64"])), "precision": precision,
                "int_shifts": ints(), "a": a, "sub": sub, "whole": whole,
                "b_free": [[float(np.round(rng.uniform(-n, n), 6)) for n in (ny, nx)] for _ in range(npos)],
                "plan": _plan(rng), "seed": int(rng.integers(0, 2 ** 31))}
    gpts = [int(rng.integers(6, 41)), int(rng.integers(6, 41))]
    samp = float(rng.uniform(0.04, 0.3))
    extent = [gpts[0] * samp, gpts[1] * samp * float(rng.uniform(0.7, 1.4))]
    mode = str(rng.choice(["gpts", "gpts", "cutoff", "valid", "angle"]))
    ens = [int(rng.integers(1, 4)) for _ in range(int(rng.choice([0, 1, 1, 2])))]
    lazy = bool(rng.random() < 0.5)
    return {"kind": "downsample", "gpts": gpts, "extent": extent,
            "energy": float(rng.choice([60e3, 100e3, 200e3, 300e3])), "mode": mode,
            "new_gpts": [int(rng.integers(1, gpts[0] + 1)), int(rng.integers(1, gpts[1] + 1))],
            "angle_frac": float(rng.uniform(0.1, 1.0)),
            "normalization": str(rng.choice(["values", "values", "amplitude"])),
            "ens": ens, "lazy": lazy, "chunks": [int(rng.integers(1, n + 1)) for n in ens],
            "precision": "float64" if rng.random() < 0.6 else "float32",
            "dtype": str(rng.choice(["complex64", "complex128"])), "plan": _plan(rng),
            "seed": int(rng.integers(0, 2 ** 31))}


def fixed_cases(tier):
    out = []
    base = {"kind": "interp", "batch": [], "offset": 0.0, "scale": 1.0, "precision": "float64", "fft": "fftw",
            "explicit_batch": False, "content": "full", "plan": "FFTW_MEASURE"}
    # the fixed-shape cases of test_fft plus the smallest odd/even up/down corners, real and complex
    for shape, new in [([4], [8]), ([5], [9]), ([4, 5], [8, 9]), ([5, 4], [6, 7]), ([1, 1], [3, 4]), ([2, 2], [3, 3]),
                       ([3, 3], [4, 4]), ([4, 4, 4], [6, 6, 6]), ([3, 4, 5], [3, 7, 5]), ([6, 5], [6, 5]),
                       ([2, 3], [40, 40]), ([1], [40])]:
        for dt in ("float64", "complex128"):
            for batch in ([], [2]):
                out.append(dict(base, shape=shape, new=new, dtype=dt, batch=batch, seed=len(out)))
    for shape, new in [([8, 9], [4, 5]), ([9, 8], [5, 4]), ([7], [2]), ([6, 6, 6], [3, 4, 5]), ([8, 5], [5, 8]), ([5, 5], [1, 1])]:
        for dt in ("float64", "complex128"):
            out.append(dict(base, shape=shape, new=new, dtype=dt, batch=[2], content="band", seed=len(out)))
    return out


# --------------------------------------------------------------------------- reference models
def _signed(n):
    """signed integer frequency of every fft index of an axis of length n (Nyquist counted negative)"""
    k = np.arange(n)
    return np.where(k < (n + 1) // 2, k, k - n)


def _band(n1, n2):
    """largest |k| strictly below the Nyquist index of both grids"""
    return (min(n1, n2) - 1) // 2


def make_array(case):
    """float64/complex128 master array (numpy only) and the array handed to abTEM."""
    rng = np.random.default_rng(case["seed"])
    shape = tuple(case["batch"]) + tuple(case["shape"])
    nd = len(case["shape"])
    axes = tuple(range(len(shape) - nd, len(shape)))
    cplx = case["dtype"].startswith("complex")
    a = rng.standard_normal(shape)
    if cplx:
        a = a + 1j * rng.standard_normal(shape)
    content = case["content"]
    if content in ("band", "nyquist"):
        A = np.fft.fftn(a, axes=axes)
        keep = np.ones(shape, dtype=bool)
        for ax, n1, n2 in zip(axes, case["shape"], case["new"]):
            k = np.abs(_signed(n1))
            if content == "band":
                m = k <= _band(n1, n2)
            else:  # content on the Nyquist row of every even axis that goes up, DC elsewhere
                m = (k == n1 // 2) if (n1 % 2 == 0 and n2 > n1) else (k == 0)
            sl = [None] * len(shape)
            sl[ax] = slice(None)
            keep = keep & m[tuple(sl)]
        a = np.fft.ifftn(A * keep, axes=axes)
        if not cplx:
            a = a.real
    elif content == "const":
        a = np.ones(shape) * (1.0 + (0.5j if cplx else 0.0))
    a = a * case["scale"] + case["offset"]
    if case["dtype"] == "int16":
        a = np.round(a * 50).astype(np.int16)
        given = a
        master = a.astype(np.float64)
    else:
        given = a.astype(case["dtype"])
        master = given.astype(np.complex128 if cplx else np.float64)
    return master, given, axes


def place(master, axes, shape, new, halve_real_nyquist=False):
    """Fourier coefficients of `master` moved to the new grid by signed-frequency index arithmetic.
    Returns the new spectrum (un-normalised, i.e. as np.fft.fftn of the result under 'intensity').
    With halve_real_nyquist the defect model of the known finding is applied: the Nyquist rows of even
    up-sampled axes are split half/half between -N/2 and +N/2 (what `.real` does to the one-sided row)."""
    A = np.fft.fftn(master, axes=axes)
    out_shape = list(master.shape)
    idx_in, idx_out = [], []
    for ax, n1, n2 in zip(axes, shape, new):
        out_shape[ax] = n2
        k = _signed(n1)
        if n2 >= n1:
            sel = np.arange(n1)
        else:
            lo, hi = -(n2 // 2), (n2 - 1) // 2        # frequencies that exist on the smaller grid
            sel = np.nonzero((k >= lo) & (k <= hi))[0]
        idx_in.append(sel)
        idx_out.append(k[sel] % n2)
    B = np.zeros(out_shape, dtype=np.complex128)
    lead = [np.arange(s) for s in master.shape[: axes[0]]]
    B[np.ix_(*lead, *idx_out)] = A[np.ix_(*lead, *idx_in)]
    if halve_real_nyquist:
        # symmetrise: S'(k) = (S(k) + conj(S(-k))) / 2  == spectrum of the real part
        Bm = B
        for ax in axes:
            Bm = np.roll(np.flip(Bm, axis=ax), 1, axis=ax)
        B = 0.5 * (B + np.conj(Bm))
    return B


def nyquist_factor(master_shape, axes, shape, new):
    """0.5 on the Nyquist rows of even up-sampled axes, 1 elsewhere (round-trip model of the finding)."""
    f = np.ones(master_shape)
    hit = np.zeros(master_shape, dtype=bool)
    for ax, n1, n2 in zip(axes, shape, new):
        if n1 % 2 == 0 and n2 > n1:
            sl = [slice(None)] * len(master_shape)
            sl[ax] = n1 // 2
            hit[tuple(sl)] = True
    f[hit] = 0.5
    return f


# --------------------------------------------------------------------------- checks
def _judge(ctx, got, want, clause, tol_rel, model=None, real_even_up=False, **detail):
    """identity/reference within tolerance -> held; equal to the half-Nyquist model of a real, even,
    up-sampled input -> known finding; everything else -> violation."""
    got = np.asarray(got)
    want = np.asarray(want)
    if got.shape != want.shape:
        ctx.expect(False, clause, reason="shape", got_shape=list(got.shape), want_shape=list(want.shape), **detail)
        return
    scale = float(np.abs(want).max()) if want.size else 1.0
    scale = max(scale, 1e-300)
    res = float(np.abs(got - want).max()) if want.size else 0.0
    if not (real_even_up and model is not None):
        ctx.close(got, want, clause, rtol=tol_rel, scale=scale, **detail)
        return
    mres = float(np.abs(got - np.asarray(model)).max())
    if res <= tol_rel * scale:
        if mres < 0.1 * res:
            # identity within tolerance, but only because the halved Nyquist rows are tiny here: held, and
            # kept out of the residual statistics (they would show the defect's size, not round-off)
            ctx.clauses[clause] += 1
            ctx.monitor("half-nyquist-below-tolerance:" + clause)
        else:
            ctx.close(got, want, clause, rtol=tol_rel, scale=scale, **detail)
        return
    if mres <= tol_rel * scale:
        ctx.clauses[clause] += 1
        ctx.monitor("half-nyquist-model-matched:" + clause)
        ctx.known(FINDING)
    else:
        ctx.expect(False, clause, residual=res, model_residual=mres, tol=tol_rel * scale,
                   reason="neither identity nor half-Nyquist model", **detail)


def check_interp(ctx, case):
    import abtem
    from abtem.core.fft import fft_interpolate
    master, given, axes = make_array(case)
    shape, new = case["shape"], case["new"]
    nd = len(shape)
    cplx = np.iscomplexobj(master)
    tol = TOL[case["precision"]]
    if case["dtype"] in ("float32", "complex64"):
        tol = max(tol, TOL["float32"])
    new_shape = tuple(new)
    old_shape = tuple(shape)
    if case["explicit_batch"]:
        new_shape = tuple(case["batch"]) + new_shape
        old_shape = tuple(case["batch"]) + old_shape
        if len(new_shape) == 2 and given.ndim != 2:   # cannot happen (batch+nd == ndim), kept for safety
            new_shape, old_shape = tuple(new), tuple(shape)
    even_up = any(n1 % 2 == 0 and n2 > n1 for n1, n2 in zip(shape, new))
    real_even_up = (not cplx) and even_up
    changed = any(n1 != n2 for n1, n2 in zip(shape, new))
    ctx.nontrivial(changed and case["content"] != "const")
    if real_even_up:
        ctx.monitor("real-even-upsample-cases")
    band_limited = case["content"] in ("band", "const") or (case["content"] == "nyquist" and not even_up)
    any_down = any(n2 < n1 for n1, n2 in zip(shape, new))
    npix_in = float(np.prod(shape))
    npix_out = float(np.prod(new))
    given0 = given.copy()

    with abtem.config.set({"precision": case["precision"], "fft": case["fft"], "fftw.planning_effort": case["plan"]}):
        up_v = np.asarray(fft_interpolate(given, new_shape, normalization="values"))
        up_i = np.asarray(fft_interpolate(given, new_shape, normalization="intensity"))
        rt_v = np.asarray(fft_interpolate(up_v, old_shape, normalization="values"))
        rt_i = np.asarray(fft_interpolate(up_i, old_shape, normalization="intensity"))
    ctx.monitor("fft_interpolate-calls", 4)
    ctx.expect(np.array_equal(given, given0), "input-not-mutated")
    if np.iscomplexobj(up_v) != cplx:      # not part of the statement: recorded, not judged
        ctx.note("dtype-kind-changed")

    # ---- round trip (content is band-limited along every axis that goes down, by construction)
    if case["content"] != "full" or not any_down:
        model = None
        if real_even_up:
            F = nyquist_factor(master.shape, axes, shape, new)
            model = np.fft.ifftn(np.fft.fftn(master, axes=axes) * F, axes=axes).real
        _judge(ctx, rt_v, master, "roundtrip", tol, model, real_even_up, norm="values")
        _judge(ctx, rt_i, master, "roundtrip", tol, model, real_even_up, norm="intensity")

    # ---- 'values' keeps the mean of every batch item
    m_in = master.mean(axis=axes)
    m_out = up_v.mean(axis=axes)
    ctx.close(m_out, m_in, "values-mean", rtol=tol, scale=max(float(np.abs(master).max()), 1e-300))

    # ---- 'intensity' keeps sum |FFT|^2 of band-limited arrays
    if case["content"] != "full" or not any_down:
        p_in = (np.abs(np.fft.fftn(master, axes=axes)) ** 2).sum(axis=axes)
        p_out = (np.abs(np.fft.fftn(up_i.astype(np.complex128), axes=axes)) ** 2).sum(axis=axes)
        model = None
        if real_even_up:
            model = (np.abs(place(master, axes, shape, new, halve_real_nyquist=True)) ** 2).sum(axis=axes)
        _judge(ctx, p_out, p_in, "intensity", 4 * tol, model, real_even_up)

    # ---- band-limited content is reproduced on the new grid
    if band_limited:
        B = place(master, axes, shape, new)
        want_i = np.fft.ifftn(B, axes=axes)
        want_v = want_i * (npix_out / npix_in)
        if not cplx:
            want_i, want_v = want_i.real, want_v.real
        sc = max(float(np.abs(master).max()), 1e-300)
        ctx.close(up_v, want_v, "band-content", rtol=tol, scale=sc, norm="values")
        ctx.close(up_i, want_i, "band-content", rtol=tol, scale=max(sc * npix_in / npix_out, 1e-300), norm="intensity")


def _positions(lst, pbatch):
    p = np.array(lst, dtype=np.float64)
    return p.reshape(tuple(pbatch) + (2,)) if pbatch else p.reshape(2)


def _roll_ref(x, pos):
    """np.roll of every (broadcast) batch item by its own whole-pixel vector"""
    out_batch = np.broadcast_shapes(x.shape[:-2], pos.shape[:-1])
    xb = np.broadcast_to(x, out_batch + x.shape[-2:])
    pb = np.broadcast_to(pos, out_batch + (2,))
    out = np.empty(out_batch + x.shape[-2:], dtype=x.dtype)
    for idx in itertools.product(*[range(n) for n in out_batch]):
        s = pb[idx]
        out[idx] = np.roll(xb[idx], (int(s[0]), int(s[1])), axis=(0, 1))
    return out


def check_shift(ctx, case):
    import abtem
    from abtem.core.fft import fft_shift
    rng = np.random.default_rng(case["seed"])
    shape = tuple(case["abatch"]) + (case["ny"], case["nx"])
    x = (rng.standard_normal(shape) + 1j * rng.standard_normal(shape)).astype(case["dtype"])
    xm = x.astype(np.complex128)
    pb = case["pbatch"]
    ints = _positions(case["int_shifts"], pb)
    a = _positions(case["a"], pb)
    if case["sub"] == "inverse":
        b = -a
    elif case["sub"] == "whole":
        b = _positions(case["whole"], pb) - a
    else:
        b = _positions(case["b_free"], pb)
    f32 = case["precision"] == "float32" or case["dtype"] == "complex64"
    eps = 6e-8 if f32 else 1.2e-16
    scale = float(np.abs(xm).max())

    def tol(pmax):
        # phase error of exp(-2 pi i k p): ~ eps * pi * |p| per axis, plus FFT round-off
        return (TOL["float32"] if f32 else TOL["float64"]) + 50 * eps * pmax

    x0 = x.copy()
    with abtem.config.set({"precision": case["precision"], "fftw.planning_effort": case["plan"]}):
        got_int = np.asarray(fft_shift(x, ints))
        s_a = fft_shift(x, a)
        got_ab = np.asarray(fft_shift(s_a, b))
        got_sum = np.asarray(fft_shift(x, a + b))
    ctx.monitor("fft_shift-calls", 4)
    ctx.expect(np.array_equal(x, x0), "input-not-mutated")
    ctx.nontrivial(bool(np.any(ints % np.array([case["ny"], case["nx"]]) != 0)) or bool(np.any(a != 0)))

    ctx.close(got_int, _roll_ref(xm, ints), "shift-roll", rtol=tol(float(np.abs(ints).max())), scale=scale,
              shifts=case["int_shifts"][:3])
    pmax = float(max(np.abs(a).max(), np.abs(b).max(), np.abs(a + b).max()))
    ctx.close(got_ab, got_sum, "shift-compose", rtol=2 * tol(pmax), scale=scale)
    if case["sub"] in ("inverse", "whole"):
        tot = np.rint(a + b)
        want = _roll_ref(xm, tot)
        ctx.close(got_ab, want, "shift-compose-roll", rtol=2 * tol(pmax), scale=scale, sub=case["sub"])
        ctx.close(got_sum, want, "shift-compose-roll", rtol=2 * tol(pmax), scale=scale, sub=case["sub"], direct=True)


def _planewave_sum(C, kx, ky, n0, n1):
    """psi[..., j, l] = sum_{k,m} C[..., k, m] exp(2 pi i (kx_k j / n0 + ky_m l / n1)) by direct summation"""
    ex = np.exp(2j * np.pi * np.outer(np.arange(n0), kx) / n0)     # (n0, K)
    ey = np.exp(2j * np.pi * np.outer(np.arange(n1), ky) / n1)     # (n1, M)
    return np.einsum("jk,...km,lm->...jl", ex, C, ey)


def check_downsample(ctx, case):
    import abtem
    import dask.array as da
    from abtem.core.axes import OrdinalAxis
    rng = np.random.default_rng(case["seed"])
    n0, n1 = case["gpts"]
    ens = tuple(case["ens"])
    meta = [OrdinalAxis(values=tuple(range(m)), label="e%d" % i) for i, m in enumerate(ens)]

    def build(arr):
        if case["lazy"]:
            arr = da.from_array(arr, chunks=tuple(case["chunks"]) + (-1, -1))
        return abtem.Waves(arr, energy=case["energy"], extent=tuple(case["extent"]), ensemble_axes_metadata=list(meta))

    with abtem.config.set({"precision": case["precision"], "fftw.planning_effort": case["plan"]}):
        probe = abtem.Waves(np.zeros((n0, n1), dtype=np.complex64), energy=case["energy"], extent=tuple(case["extent"]))
        if case["mode"] == "gpts":
            kwargs = {"gpts": tuple(case["new_gpts"])}
        elif case["mode"] in ("cutoff", "valid"):
            kwargs = {"max_angle": case["mode"]}
        else:
            kwargs = {"max_angle": float(case["angle_frac"] * min(probe.full_cutoff_angles))}
        try:
            m0, m1 = probe.downsample(**kwargs).gpts      # the grid abTEM will choose (public API, zero wave)
        except Exception:
            if min(probe.antialias_cutoff_gpts) < 1:      # no grid point inside the cutoff: outside the domain
                ctx.note("degenerate-cutoff-grid")
                return
            raise
        if case["mode"] == "gpts":
            ctx.expect((m0, m1) == tuple(case["new_gpts"]), "downsample-grid", got=[m0, m1])
        b0, b1 = _band(n0, m0), _band(n1, m1)
        kx = np.arange(-b0, b0 + 1)
        ky = np.arange(-b1, b1 + 1)
        C = (rng.standard_normal(ens + (kx.size, ky.size)) + 1j * rng.standard_normal(ens + (kx.size, ky.size)))
        C = C / np.sqrt(kx.size * ky.size)
        psi = _planewave_sum(C, kx, ky, n0, n1).astype(case["dtype"])
        want = _planewave_sum(C, kx, ky, m0, m1)
        if case["normalization"] == "amplitude":
            want = want * (n0 * n1) / float(m0 * m1)
        waves = build(psi)
        out = waves.downsample(normalization=case["normalization"], **kwargs)
        if bool(out.is_lazy) != case["lazy"]:
            ctx.note("downsample-laziness-changed")
        got = np.asarray(out.compute().array if case["lazy"] else out.array)
        ctx.monitor("downsample-lazy" if case["lazy"] else "downsample-eager")
    ctx.nontrivial((m0, m1) != (n0, n1))
    f32 = case["precision"] == "float32" or case["dtype"] == "complex64"
    tol = TOL["float32"] if f32 else TOL["float64"]
    sc = max(float(np.abs(psi).max()), 1e-300) * ((n0 * n1) / float(m0 * m1) if case["normalization"] == "amplitude" else 1.0)
    ctx.close(got, want, "downsample-content", rtol=tol, scale=sc, mode=case["mode"], new=[m0, m1])
    ok = (tuple(out.gpts) == (m0, m1)
          and np.allclose(np.array(out.sampling) * np.array(out.gpts), case["extent"], rtol=1e-6)
          and np.isclose(out.energy, case["energy"]) and tuple(out.ensemble_shape) == ens
          and [type(a).__name__ for a in out.ensemble_axes_metadata] == [type(a).__name__ for a in meta])
    ctx.expect(ok, "downsample-grid", gpts=list(out.gpts), sampling=list(out.sampling), extent=case["extent"])


def setup(ctx):
    # import once, outside the per-case watchdog: an import failure is an environment problem (shard dies ->
    # INCONCLUSIVE), not a property violation
    import abtem  # noqa: F401
    import abtem.core.fft  # noqa: F401
    import abtem.waves  # noqa: F401


def check(ctx, case):
    if case["kind"] == "interp":
        check_interp(ctx, case)
    elif case["kind"] == "shift":
        check_shift(ctx, case)
    else:
        check_downsample(ctx, case)
