"""C28 Ptychographic operators honour their mathematical contracts.

Direct algebra in complex128 on the static methods of the four operator classes in
abtem/reconstruct.py (Regularized, Simultaneous incl. warm-up/alternative, MixedState incl. warm-up,
Multislice), plus monitors wrapped around the same static methods inside real `reconstruct()` runs.

  * Fourier projection  psi' = P(psi, A):  |F psi'| = A,  arg F psi' = arg F psi,  P(P(psi)) = P(psi)
    (mixed-state: sqrt(sum_k |F psi'_k|^2) = A and every F psi'_k is a non-negative multiple of F psi_k);
  * truth is a fixed point: exit wave from the real overlap projection of a true object/probe at a
    (wrapping, fractional) position, amplitude |F psi| -> zero error increment, psi' = psi, and the real
    update function leaves object(s) and probe(s) unchanged for any alpha/beta/step sizes;
  * J explicit scan positions -> J pixel positions, row j = R(theta)(r_j/sampling) - min + padding.
"""
import numpy as np

PROPERTY = "C28"
TECHNIQUE = "runtime monitoring; complex128 reference algebra (numpy FFT) on operator return values, wrappers inside reconstruct()"
RULE = ("kinds: fourier (6 projection variants x random/zero-containing/consistent amplitudes x exit waves with Fourier zeros, "
        "grids 3..20 odd/even/rectangular, 1-3 mixed states or slices), fixed (8 update variants, objects 1.0-2.5x the probe "
        "window, integer/fractional/negative/beyond-edge positions, alpha/beta in {0,1e-3,U,1}, step sizes, fix_probe), positions "
        "(J=1..12 explicit positions incl. duplicates, rotation, padding; raster scans; operator preprocess), pipeline (real "
        "reconstruct() from the truth and from a flat start with monitors on the static methods); non-trivial = non-constant "
        "amplitude and >=2 pixels / J>=2; distinct = distinct case dict")
CLAUSES = ["fourier-amplitude", "fourier-phase", "fourier-idempotent", "zero-error-at-truth", "projection-fixed-at-truth",
           "exit-wave-product", "update-fixed-object", "update-fixed-probe", "positions-count", "positions-order",
           "raster-positions", "preprocess-positions", "pipeline-fourier-amplitude", "pipeline-fourier-phase",
           "pipeline-fourier-idempotent", "pipeline-update-fixed", "pipeline-zero-error"]
ASSUMPTIONS = ["MultislicePtychographicOperator is exercised with one slice only: with more slices _propagate_array calls FresnelPropagator._evaluate_propagator_array, which does not exist any more (AttributeError, outside the property statement)",
               "position correction, probe centre-of-mass correction and probe orthogonalisation are not part of the property and are switched off",
               "positions are kept off the x.5 rounding boundary of the probe window"]
QUICK = dict(n=3000, time=40)
THOROUGH = dict(n=320000, time=480, shards=16)

FOURIER = ["reg", "mixed-warmup", "multislice", "sim-warmup", "sim", "mixed"]
FIXED = ["reg", "mixed-warmup", "mixed", "sim-warmup", "sim", "sim-alt", "multislice1", "reg-oversize"]

TOL = 1e-10          # relative; float64 algebra leaves ~1e-15
SSE_TOL = 1e-22


# ------------------------------------------------------------------------------------------- generation
def _shape(rng, lo=3, hi=20):
    a = int(rng.integers(lo, hi + 1))
    return [a, a] if rng.random() < 0.25 else [a, int(rng.integers(lo, hi + 1))]


def _reg_param(rng):
    r = rng.random()
    if r < 0.15:
        return 0.0
    if r < 0.3:
        return 1.0
    if r < 0.45:
        return float(10 ** rng.uniform(-3, -1))
    return float(rng.uniform(0.05, 1.0))


def _coord(rng, size):
    base = float(rng.choice([0, 1, size // 2, size - 1, size, -3, size + 5, int(rng.integers(0, size))]))
    r = rng.random()
    frac = 0.0 if r < 0.35 else (float(rng.choice([0.25, -0.25, 0.125])) if r < 0.5 else float(rng.uniform(-0.49, 0.49)))
    return base + frac


def gen(rng, tier):
    k = rng.random()
    if k < 0.42:
        n, m = _shape(rng)
        return {"kind": "fourier", "variant": str(rng.choice(FOURIER)), "shape": [n, m], "states": int(rng.integers(1, 4)),
                "amp": str(rng.choice(["random", "zeros", "consistent", "scaled", "constant"])),
                "exit": str(rng.choice(["random", "random", "fourier-zeros", "real"])),
                "sse0": float(rng.choice([0.0, 0.0, rng.uniform(0, 2)])), "seed": int(rng.integers(0, 2 ** 31))}
    if k < 0.78:
        n, m = _shape(rng)
        variant = str(rng.choice(FIXED))
        grow = [float(rng.uniform(1.0, 2.5)), float(rng.uniform(1.0, 2.5))]
        P, Q = max(n, int(round(n * grow[0]))), max(m, int(round(m * grow[1])))
        return {"kind": "fixed", "variant": variant, "shape": [n, m], "object_shape": [P, Q],
                "states": int(rng.integers(1, 4)),
                "position": [_coord(rng, P), _coord(rng, Q)], "old_position": [_coord(rng, P), _coord(rng, Q)],
                "alpha": _reg_param(rng), "beta": _reg_param(rng),
                "object_step_size": float(rng.choice([1.0, rng.uniform(0.05, 2.0)])),
                "probe_step_size": float(rng.choice([1.0, rng.uniform(0.05, 2.0)])),
                "fix_probe": bool(rng.random() < 0.25), "probe_zeros": bool(rng.random() < 0.3),
                "seed": int(rng.integers(0, 2 ** 31))}
    if k < 0.96:
        J = int(rng.choice([1, 2, 3, 4, 5, 7, 12, int(rng.integers(1, 13))]))
        pos = (rng.uniform(-40, 40, size=(J, 2))).round(4)
        if J > 2 and rng.random() < 0.3:
            pos[1] = pos[0]                       # duplicate point
        if J > 2 and rng.random() < 0.2:
            pos[:, 0] = pos[0, 0]                 # a vertical line scan: ptp(x) = 0
        sub = str(rng.choice(["explicit", "explicit", "explicit", "raster", "preprocess"]))
        rot = None if rng.random() < 0.4 else float(rng.uniform(-np.pi, np.pi))
        pad = None if rng.random() < 0.5 else [float(rng.integers(0, 30)), float(rng.integers(0, 30))]
        c = {"kind": "positions", "sub": sub, "positions": pos.tolist(), "rotation": rot, "padding": pad,
             "sampling": [float(rng.uniform(0.05, 0.6)), float(rng.uniform(0.05, 0.6))], "roi": _shape(rng, 6, 24)}
        if sub == "raster":
            c["grid"] = [int(rng.integers(1, 7)), int(rng.integers(1, 7))]
            c["steps"] = [float(rng.uniform(0.1, 3.0)), float(rng.uniform(0.1, 3.0))]
        if sub == "preprocess":
            c["op"] = str(rng.choice(["reg", "mixed", "multislice"]))
            c["roi"] = _shape(rng, 6, 14)
            c["energy"] = float(rng.uniform(60e3, 300e3))
            c["angular_sampling"] = [float(rng.uniform(1.0, 4.0)), float(rng.uniform(1.0, 4.0))]
        return c
    n, m = _shape(rng, 6, 12)
    return {"kind": "pipeline", "op": str(rng.choice(["reg", "reg", "mixed"])), "start": str(rng.choice(["truth", "truth", "flat"])),
            "shape": [n, m], "grid": [int(rng.integers(1, 4)), int(rng.integers(2, 4))],
            "step_px": [int(rng.integers(1, 5)), int(rng.integers(1, 5))], "iterations": int(rng.integers(1, 3)),
            "alpha": max(_reg_param(rng), 1e-3), "beta": max(_reg_param(rng), 1e-3),
            "positions": str(rng.choice(["raster", "explicit"])),
            "energy": float(rng.uniform(60e3, 300e3)), "angular_sampling": [float(rng.uniform(1.0, 4.0)), float(rng.uniform(1.0, 4.0))],
            "states": int(rng.integers(1, 3)), "seed": int(rng.integers(0, 2 ** 31))}


def fixed_cases(tier):
    out = []
    for i, v in enumerate(FOURIER):
        out.append({"kind": "fourier", "variant": v, "shape": [8, 5], "states": 2, "amp": "zeros", "exit": "random", "sse0": 0.5, "seed": i})
        out.append({"kind": "fourier", "variant": v, "shape": [7, 7], "states": 3, "amp": "consistent", "exit": "random", "sse0": 0.0, "seed": 10 + i})
    for i, v in enumerate(FIXED):
        out.append({"kind": "fixed", "variant": v, "shape": [6, 9], "object_shape": [11, 9], "states": 2, "position": [10.25, -0.3],
                    "old_position": [3.0, 4.4], "alpha": 0.0 if i % 2 else 0.3, "beta": 1.0 if i % 2 else 0.0,
                    "object_step_size": 1.0, "probe_step_size": 0.7, "fix_probe": False, "probe_zeros": False, "seed": 20 + i})
    out.append({"kind": "positions", "sub": "explicit", "positions": [[0.0, 0.0], [0.0, 1.0], [2.0, 0.5]], "rotation": None,
                "padding": None, "sampling": [0.1, 0.2], "roi": [16, 12]})
    out.append({"kind": "positions", "sub": "raster", "positions": [[0.0, 0.0]], "rotation": 0.3, "padding": [3.0, 4.0],
                "sampling": [0.1, 0.2], "roi": [16, 12], "grid": [3, 2], "steps": [0.5, 0.7]})
    out.append({"kind": "positions", "sub": "preprocess", "positions": [[0.0, 0.0], [3.0, 1.0], [1.0, 4.5], [6.0, 2.0]], "rotation": None,
                "padding": None, "sampling": [0.1, 0.2], "roi": [10, 12], "op": "reg", "energy": 80e3, "angular_sampling": [2.0, 2.5]})
    for i, (op, start, pos) in enumerate([("reg", "truth", "raster"), ("reg", "flat", "raster"), ("mixed", "truth", "raster"),
                                          ("reg", "truth", "explicit")]):
        out.append({"kind": "pipeline", "op": op, "start": start, "shape": [8, 10], "grid": [2, 3], "step_px": [2, 3], "iterations": 2,
                    "alpha": 0.5, "beta": 1.0, "positions": pos, "energy": 80e3, "angular_sampling": [2.0, 2.5], "states": 2, "seed": 40 + i})
    return out


# ------------------------------------------------------------------------------------------- helpers
def _cplx(rng, shape, lo=0.3, hi=1.5):
    return rng.uniform(lo, hi, size=shape) * np.exp(1j * rng.uniform(-np.pi, np.pi, size=shape))


def _classes():
    from abtem import reconstruct as R
    return {"reg": R.RegularizedPtychographicOperator, "sim": R.SimultaneousPtychographicOperator,
            "mixed": R.MixedStatePtychographicOperator, "multislice": R.MultislicePtychographicOperator}


def window(position, wshape, ashape):
    """Independent model of the probe window: probe pixel (nx//2, ny//2) sits on object pixel round(position)."""
    rows = [int((int(np.round(position[0])) - wshape[0] // 2 + i) % ashape[0]) for i in range(wshape[0])]
    cols = [int((int(np.round(position[1])) - wshape[1] // 2 + j) % ashape[1]) for j in range(wshape[1])]
    return np.array(rows)[:, None], np.array(cols)[None, :]


def _judge_single(ctx, psi, amp, out, prefix="", **detail):
    """|F out| = amp ; F out = amp * F psi / |F psi| wherever both are resolved."""
    F0 = np.fft.fft2(psi)
    F1 = np.fft.fft2(out)
    scale = max(float(np.abs(amp).max()), 1e-300)
    ctx.close(np.abs(F1), amp, prefix + "fourier-amplitude", rtol=TOL, scale=scale, **detail)
    resolved = (np.abs(F0) > 1e-9 * max(float(np.abs(F0).max()), 1e-300)) & (amp > 1e-6 * scale)
    if resolved.any():
        u0 = F0[resolved] / np.abs(F0[resolved])
        u1 = F1[resolved] / amp[resolved]
        # phase difference of unit phasors; the division by amp >= 1e-6*scale costs at most 1e6*eps
        ctx.close(u1, u0, prefix + "fourier-phase", rtol=0, atol=1e-8, **detail)
    return int(resolved.sum())


# ------------------------------------------------------------------------------------------- fourier
def check_fourier(ctx, case):
    C = _classes()
    rng = np.random.default_rng(case["seed"])
    n, m = case["shape"]
    v = case["variant"]
    K = case["states"] if v in ("mixed", "multislice") else 1
    nwaves = 2 if v in ("sim", "sim-warmup") else 1

    def exit_wave():
        if case["exit"] == "real":
            return rng.normal(size=(n, m)).astype(np.complex128)
        psi = rng.normal(size=(n, m)) + 1j * rng.normal(size=(n, m))
        if case["exit"] == "fourier-zeros" and v != "mixed":
            F = np.fft.fft2(psi)
            F[rng.random((n, m)) < 0.3] = 0.0
            psi = np.fft.ifft2(F)
        return psi

    def amplitude(psis):
        total = np.sqrt(sum(np.abs(np.fft.fft2(p)) ** 2 for p in psis))
        a = case["amp"]
        if a == "consistent":
            return total
        if a == "scaled":
            return total * float(rng.uniform(0.1, 10))
        if a == "constant":
            return np.full((n, m), float(rng.uniform(0.1, 5)))
        A = rng.uniform(0.0, 3.0, size=(n, m)) * float(10 ** rng.uniform(-3, 3))
        if a == "zeros":
            A[rng.random((n, m)) < 0.3] = 0.0
            A.flat[0] = 0.0
        if not A.any():
            A.flat[-1] = 1.0
        return A

    sse0 = case["sse0"]
    consistent = case["amp"] == "consistent"
    ctx.nontrivial(n * m >= 2 and case["amp"] != "constant")

    if v in ("reg", "mixed-warmup", "multislice"):
        psi = exit_wave()
        A = amplitude([psi])
        if v == "reg":
            f = C["reg"]._fourier_projection
        elif v == "mixed-warmup":
            f = C["mixed"]._warmup_fourier_projection
        else:
            f = C["multislice"]._fourier_projection
        if v == "multislice":
            stack = np.stack([exit_wave() for _ in range(K - 1)] + [psi])
            out, sse = f(stack.copy(), A.copy(), sse0)
            ctx.expect(out.shape == stack.shape, "fourier-amplitude", reason="shape", got=list(out.shape))
            out1 = out[-1]
            out2 = f(np.array(out), A.copy(), 0.0)[0][-1]
        else:
            out, sse = f(psi.copy(), A.copy(), sse0)
            out1 = out
            out2 = f(np.array(out), A.copy(), 0.0)[0]
        _judge_single(ctx, psi, A, out1, variant=v)
        ctx.close(out2, out1, "fourier-idempotent", rtol=TOL, scale=max(float(np.abs(out1).max()), 1e-300), variant=v)
        if consistent:
            ctx.expect(abs(float(sse) - sse0) <= SSE_TOL, "zero-error-at-truth", variant=v, sse=float(sse), sse0=sse0)
            ctx.close(out1, psi, "projection-fixed-at-truth", rtol=TOL, variant=v)
        elif not float(sse) > sse0:
            ctx.note("error-not-increased-on-mismatch")
        return

    if v in ("sim", "sim-warmup"):
        psis = [exit_wave(), exit_wave()]
        As = [amplitude([psis[0]]), amplitude([psis[1]])]
        f = C["sim"]._fourier_projection if v == "sim" else C["sim"]._warmup_fourier_projection
        outs, sse = f((psis[0].copy(), psis[1].copy()), (As[0].copy(), As[1].copy()), sse0)
        ctx.expect(isinstance(outs, tuple) and len(outs) == 2, "fourier-amplitude", reason="not a pair")
        judged = [0, 1] if v == "sim" else [0]
        if v == "sim-warmup":
            ctx.expect(outs[1] is None, "fourier-amplitude", reason="warm-up returns a reverse wave")
        again = f(tuple(np.array(o) if o is not None else psis[1].copy() for o in outs), (As[0].copy(), As[1].copy()), 0.0)[0]
        for i in judged:
            _judge_single(ctx, psis[i], As[i], outs[i], variant=v, wave=i)
            ctx.close(again[i], outs[i], "fourier-idempotent", rtol=TOL, scale=max(float(np.abs(outs[i]).max()), 1e-300), variant=v)
            if consistent:
                ctx.close(outs[i], psis[i], "projection-fixed-at-truth", rtol=TOL, variant=v)
        if consistent:
            ctx.expect(abs(float(sse) - sse0) <= SSE_TOL, "zero-error-at-truth", variant=v, sse=float(sse), sse0=sse0)
        return

    # mixed state: several exit waves share one measured amplitude
    psis = np.stack([exit_wave() for _ in range(K)])
    A = amplitude(list(psis))
    f = C["mixed"]._fourier_projection
    out, sse = f(psis.copy(), A.copy(), sse0)
    _judge_mixed(ctx, psis, A, out, variant=v)
    out2 = f(np.array(out), A.copy(), 0.0)[0]
    ctx.close(out2, out, "fourier-idempotent", rtol=TOL, scale=max(float(np.abs(out).max()), 1e-300), variant=v)
    if consistent:
        ctx.expect(abs(float(sse) - sse0) <= SSE_TOL, "zero-error-at-truth", variant=v, sse=float(sse), sse0=sse0)
        ctx.close(out, psis, "projection-fixed-at-truth", rtol=TOL, variant=v)


def _judge_mixed(ctx, psis, A, out, prefix="", **detail):
    F0 = np.fft.fft2(psis, axes=(-2, -1))
    F1 = np.fft.fft2(out, axes=(-2, -1))
    scale = max(float(np.abs(A).max()), 1e-300)
    ctx.close(np.sqrt((np.abs(F1) ** 2).sum(0)), A, prefix + "fourier-amplitude", rtol=TOL, scale=scale, **detail)
    norm0 = np.sqrt((np.abs(F0) ** 2).sum(0))
    # every state keeps its phase and its share of the total amplitude
    ctx.close(F1, A[None] * F0 / norm0[None], prefix + "fourier-phase", rtol=1e-9, scale=scale, **detail)


# ------------------------------------------------------------------------------------------- fixed point
def check_fixed(ctx, case):
    C = _classes()
    rng = np.random.default_rng(case["seed"])
    n, m = case["shape"]
    P, Q = case["object_shape"]
    v = case["variant"]
    if v == "reg-oversize":
        P, Q = n, m                                     # the window covers the whole object
    pos = np.array(case["position"], dtype=float)
    old = np.array(case["old_position"], dtype=float)
    alpha, beta = case["alpha"], case["beta"]
    params = {"alpha": alpha, "beta": beta, "object_step_size": case["object_step_size"],
              "probe_step_size": case["probe_step_size"], "position_step_size": 1.0}
    fix_probe = case["fix_probe"]
    K = case["states"]

    def probe():
        p = _cplx(rng, (n, m))
        if case["probe_zeros"] and alpha >= 0.05 and n * m > 2:
            z = rng.random((n, m)) < 0.2
            z.flat[0] = False
            p[z] = 0.0                                    # dark pixels are fine when alpha regularises the division
        return p

    def obj():
        return _cplx(rng, (P, Q), 0.5, 1.3)

    win = window(pos, (n, m), (P, Q))
    ctx.nontrivial(n * m >= 2)
    kw = dict(variant=v, alpha=alpha, beta=beta)

    def fixed(got, want, clause, **d):
        ctx.close(got, want, clause, rtol=TOL, scale=max(float(np.abs(want).max()), 1e-300), **kw, **d)

    if v in ("reg", "reg-oversize", "mixed-warmup", "mixed", "multislice1"):
        O = obj()
        if v in ("reg", "reg-oversize"):
            cls, Pr = C["reg"], probe()
            ov, fp, up = cls._overlap_projection, cls._fourier_projection, cls._update_function
            extra = {}
        elif v == "mixed-warmup":
            cls, Pr = C["mixed"], np.stack([probe() for _ in range(K)])
            ov, fp, up = cls._warmup_overlap_projection, cls._warmup_fourier_projection, cls._warmup_update_function
            extra = {}
        elif v == "mixed":
            cls, Pr = C["mixed"], np.stack([probe() for _ in range(K)])
            ov, fp, up = cls._overlap_projection, cls._fourier_projection, cls._update_function
            extra = {}
        else:
            cls, Pr = C["multislice"], probe()[None]
            O = O[None]
            ov, fp, up = cls._overlap_projection, cls._fourier_projection, cls._update_function
            extra = {"propagator": None, "slice_thicknesses": np.array([float(rng.uniform(0.5, 5))]),
                     "sampling": (0.1, 0.1), "wavelength": 0.03}
        O0 = O.copy()
        probes, exit_wave = ov(O.copy(), Pr.copy(), pos, old, **extra)
        probes = np.array(probes)
        # documented product psi = O_window * P (with the probe the projection returned)
        if v == "multislice1":
            ref = O0[0][win] * probes[0]
            ctx.close(exit_wave[0], ref, "exit-wave-product", rtol=1e-12, **kw)
        elif v == "mixed":
            ctx.close(exit_wave, O0[win][None] * probes, "exit-wave-product", rtol=1e-12, **kw)
        elif v == "mixed-warmup":
            ctx.close(exit_wave, O0[win] * probes[0], "exit-wave-product", rtol=1e-12, **kw)
        else:
            ctx.close(exit_wave, O0[win] * probes, "exit-wave-product", rtol=1e-12, **kw)
        if v == "mixed":
            A = np.sqrt((np.abs(np.fft.fft2(exit_wave, axes=(-2, -1))) ** 2).sum(0))
        elif v == "multislice1":
            A = np.abs(np.fft.fft2(exit_wave[-1]))
        else:
            A = np.abs(np.fft.fft2(exit_wave))
        modified, sse = fp(np.array(exit_wave), A, 0.0)
        ctx.expect(abs(float(sse)) <= SSE_TOL, "zero-error-at-truth", sse=float(sse), **kw)
        fixed(modified, exit_wave, "projection-fixed-at-truth")
        P0 = probes.copy()
        O1, P1, pos1 = up(O0.copy(), probes.copy(), pos.copy(), np.array(exit_wave), np.array(modified), A,
                          fix_probe=fix_probe, position_correction=None, reconstruction_parameters=dict(params), **extra)
        fixed(O1, O0, "update-fixed-object")
        fixed(P1, P0, "update-fixed-probe")
        ctx.expect(np.array_equal(np.asarray(pos1), pos), "update-fixed-object", reason="position changed without position correction", **kw)
        return

    # simultaneous (electrostatic V, magnetic M; forward / reverse probes)
    cls = C["sim"]
    V, M = obj(), obj()
    Pf, Prv = probe(), probe()
    if v == "sim-warmup":
        ov, fp, up = cls._warmup_overlap_projection, cls._warmup_fourier_projection, cls._warmup_update_function
    elif v == "sim":
        ov, fp, up = cls._overlap_projection, cls._fourier_projection, cls._update_function
    else:
        ov, fp, up = cls._alternative_overlap_projection, cls._fourier_projection, cls._alternative_update_function
    (pf, pr), (ef, er) = ov((V.copy(), M.copy()), (Pf.copy(), Prv.copy()), pos, old)
    if v == "sim-warmup":
        ctx.close(ef, V[win] * pf, "exit-wave-product", rtol=1e-12, **kw)
        ctx.expect(er is None, "exit-wave-product", reason="warm-up produced a reverse exit wave", **kw)
        er_in = np.zeros_like(ef)
        Af, Ar = np.abs(np.fft.fft2(ef)), np.ones_like(np.abs(ef))
    else:
        ctx.close(ef, V[win] * M[win] * pf, "exit-wave-product", rtol=1e-12, **kw)
        ctx.close(er, V[win] * np.conj(M[win]) * (pr if v == "sim" else pf), "exit-wave-product", rtol=1e-12, **kw)
        er_in = np.array(er)
        Af, Ar = np.abs(np.fft.fft2(ef)), np.abs(np.fft.fft2(er))
    (mf, mr), sse = fp((np.array(ef), er_in), (Af, Ar), 0.0)
    ctx.expect(abs(float(sse)) <= SSE_TOL, "zero-error-at-truth", sse=float(sse), **kw)
    fixed(mf, ef, "projection-fixed-at-truth")
    if v != "sim-warmup":
        fixed(mr, er, "projection-fixed-at-truth")
    V0, M0, pf0, pr0 = V.copy(), M.copy(), np.array(pf), np.array(pr)
    (V1, M1), (pf1, pr1), pos1 = up((V.copy(), M.copy()), (np.array(pf), np.array(pr)), pos.copy(),
                                    (np.array(ef), None if v == "sim-warmup" else np.array(er)),
                                    (np.array(mf), None if v == "sim-warmup" else np.array(mr)), (Af, Ar),
                                    fix_probe=fix_probe, position_correction=None, reconstruction_parameters=dict(params))
    fixed(V1, V0, "update-fixed-object", which="electrostatic")
    fixed(M1, M0, "update-fixed-object", which="magnetic")
    fixed(pf1, pf0, "update-fixed-probe", which="forward")
    fixed(pr1, pr0, "update-fixed-probe", which="reverse")


# ------------------------------------------------------------------------------------------- positions
def positions_model(pos, sampling, rotation, padding, roi):
    q = np.asarray(pos, dtype=float) / np.asarray(sampling, dtype=float)[None]
    if rotation is not None:
        c, s = np.cos(rotation), np.sin(rotation)
        q = np.stack([q[:, 0] * c + q[:, 1] * s, -q[:, 0] * s + q[:, 1] * c], axis=1)
    q = q - q.min(axis=0)
    pad = np.asarray(roi, dtype=float) / 2 if padding is None else np.asarray(padding, dtype=float)
    return q + pad[None]


def check_positions(ctx, case):
    C = _classes()
    pos = np.array(case["positions"], dtype=float).reshape(-1, 2)
    J = len(pos)
    samp = tuple(case["sampling"])
    roi = tuple(case["roi"])
    ep = {"grid_scan_shape": None, "scan_step_sizes": None, "rotation_angle": case["rotation"],
          "object_px_padding": None if case["padding"] is None else list(case["padding"])}
    sub = case["sub"]
    if sub == "raster":
        nx, ny = case["grid"]
        sx, sy = case["steps"]
        ep["grid_scan_shape"] = (nx, ny)
        ep["scan_step_sizes"] = (sx, sy)
        for name in ("reg", "sim", "mixed", "multislice"):
            got, _ = C[name]._calculate_scan_positions_in_pixels(None, samp, roi, dict(ep))
            grid = np.array([[i * sx, j * sy] for i in range(nx) for j in range(ny)], dtype=float)
            want = positions_model(grid, samp, case["rotation"], case["padding"], roi)
            ctx.close(got, want, "raster-positions", rtol=1e-9, atol=1e-9, cls=name)
        ctx.nontrivial(nx * ny >= 2)
        return
    if sub == "explicit":
        want = positions_model(pos, samp, case["rotation"], case["padding"], roi)
        for name in ("reg", "sim", "mixed", "multislice"):
            got, ep_out = C[name]._calculate_scan_positions_in_pixels(pos.copy(), samp, roi, dict(ep))
            got = np.asarray(got)
            if ctx.expect(got.shape == (J, 2), "positions-count", J=J, got_shape=list(got.shape), cls=name):
                ctx.close(got, want, "positions-order", rtol=1e-9, atol=1e-9, cls=name)
        ctx.nontrivial(J >= 2)
        return
    # operator level: explicit positions handed to the constructor, converted by preprocess()
    rng = np.random.default_rng(J)
    dp = rng.random((J,) + roi)
    kw = dict(energy=case["energy"], semiangle_cutoff=20.0, positions=pos.copy(),
              angular_sampling=tuple(case["angular_sampling"]))
    if case["rotation"] is not None:
        kw["rotation_angle"] = case["rotation"]
    if case["padding"] is not None:
        kw["object_px_padding"] = list(case["padding"])
    if case["op"] == "reg":
        op = C["reg"](dp, **kw)
    elif case["op"] == "mixed":
        op = C["mixed"](dp, num_probes=2, **kw)
    else:
        op = C["multislice"](dp, num_slices=2, slice_thicknesses=2.0, **kw)
    op.preprocess()
    got = np.asarray(op._positions_px)
    want = positions_model(pos, op.sampling, case["rotation"], case["padding"], roi)
    if ctx.expect(got.shape == (J, 2), "positions-count", J=J, got_shape=list(got.shape), level="preprocess", op=case["op"]):
        ctx.close(got, want, "preprocess-positions", rtol=1e-9, atol=1e-9, op=case["op"])
    else:
        ctx.clauses["preprocess-positions"] += 1
    ctx.nontrivial(J >= 2)


# ------------------------------------------------------------------------------------------- pipeline
def check_pipeline(ctx, case):
    from abtem.core.energy import energy2wavelength
    from vf.gen import Wrapped
    C = _classes()
    rng = np.random.default_rng(case["seed"])
    n, m = case["shape"]
    gx, gy = case["grid"]
    energy = case["energy"]
    ang = tuple(case["angular_sampling"])
    samp = tuple(energy2wavelength(energy) * 1e3 / dk / k for dk, k in zip(ang, (n, m)))
    steps_px = case["step_px"]
    mixed = case["op"] == "mixed"
    K = case["states"] if mixed else 1
    # pixel positions the operator will derive: raster with integer pixel steps, first point at the padding
    # (integer padding: the default roi/2 would put odd windows on the x.5 rounding boundary)
    pad = (n // 2 + 1, m // 2 + 2)
    px = np.array([[i * steps_px[0] + pad[0], j * steps_px[1] + pad[1]] for i in range(gx) for j in range(gy)], dtype=float)
    P, Q = int(px[:, 0].max() + n), int(px[:, 1].max() + m)
    O = _cplx(rng, (P, Q), 0.5, 1.3)
    p0 = _cplx(rng, (n, m))
    # MixedState.preprocess tiles one probe into states p/(k+1): the truth is built the same way
    Pr = np.stack([p0 / (k + 1) for k in range(K)])
    dps = []
    for p in px:
        w = window(p, (n, m), (P, Q))
        ex = O[w][None] * Pr
        dps.append(np.fft.fftshift((np.abs(np.fft.fft2(ex, axes=(-2, -1))) ** 2).sum(0)))
    dps = np.array(dps)
    truth = case["start"] == "truth"
    kw = dict(energy=energy, semiangle_cutoff=20.0, angular_sampling=ang, object_px_padding=pad)
    if truth:
        kw["objects"] = O.copy()
        kw["probes"] = Pr[0].copy()
    if case["positions"] == "raster":
        dp_in = dps.reshape((gx, gy, n, m))
        kw["scan_step_sizes"] = (steps_px[0] * samp[0], steps_px[1] * samp[1])
    else:
        dp_in = dps
        kw["positions"] = (px - px.min(0)) * np.array(samp)[None]
    op = C["mixed"](dp_in, num_probes=K, **kw) if mixed else C["reg"](dp_in, **kw)
    op.preprocess()
    got_px = np.asarray(op._positions_px)
    if case["positions"] == "explicit":
        if not ctx.expect(got_px.shape == px.shape, "positions-count", J=len(px), got_shape=list(got_px.shape), level="pipeline"):
            return
    if not np.allclose(got_px, px, atol=1e-6):
        ctx.note("pipeline-positions-not-on-pixels")
        return
    cls = type(op)
    state = {"fp": 0, "up": 0}

    def wrap_fp(orig):
        f = orig.__func__

        def fourier(exit_waves, diffraction_patterns, sse, **kwargs):
            s0 = float(sse)
            psi = np.array(exit_waves, dtype=np.complex128)
            out, sse1 = f(exit_waves, diffraction_patterns, sse, **kwargs)
            state["fp"] += 1
            A = np.asarray(diffraction_patterns, dtype=float)
            o = np.asarray(out)
            if mixed:
                _judge_mixed(ctx, psi, A, o, prefix="pipeline-")
            else:
                _judge_single(ctx, psi, A, o, prefix="pipeline-")
            again = f(np.array(o), diffraction_patterns, 0.0, **kwargs)[0]
            ctx.close(again, o, "pipeline-fourier-idempotent", rtol=TOL, scale=max(float(np.abs(o).max()), 1e-300))
            if truth:
                ctx.expect(abs(float(sse1) - s0) <= 1e-20, "pipeline-zero-error", increment=float(sse1) - s0)
            return out, sse1
        return staticmethod(fourier)

    def wrap_up(orig):
        f = orig.__func__

        def update(objects, probes, position, *args, **kwargs):
            O0, P0 = np.array(objects), np.array(probes)
            res = f(objects, probes, position, *args, **kwargs)
            state["up"] += 1
            if truth:
                ok = (np.abs(np.asarray(res[0]) - O0).max() <= 1e-9 * np.abs(O0).max()
                      and np.abs(np.asarray(res[1]) - P0).max() <= 1e-9 * np.abs(P0).max())
                ctx.expect(ok, "pipeline-update-fixed", dobj=float(np.abs(np.asarray(res[0]) - O0).max()),
                           dprobe=float(np.abs(np.asarray(res[1]) - P0).max()))
            return res
        return staticmethod(update)

    class _NoBar:
        def __init__(self, **kwargs):
            pass

        def update(self, n):
            pass

        reset = refresh = close = lambda self: None

    from abtem import reconstruct as R
    with Wrapped() as w:
        w.patch(R, "ProgressBar", lambda orig: _NoBar)
        w.patch(cls, "_fourier_projection", wrap_fp)
        w.patch(cls, "_update_function", wrap_up)
        op.reconstruct(max_iterations=case["iterations"], fix_com=False, random_seed=case["seed"] % 1000, verbose=False,
                       parameters={"alpha": case["alpha"], "beta": case["beta"]})
    ctx.monitor("pipeline-fourier-projection-calls", state["fp"])
    ctx.monitor("pipeline-update-calls", state["up"])
    if truth and state["up"]:
        ok = np.abs(np.asarray(op._objects) - O).max() <= 1e-8 and np.abs(np.asarray(op._probes) - (Pr if mixed else Pr[0])).max() <= 1e-8
        ctx.expect(ok, "pipeline-update-fixed", stage="final")
    ctx.nontrivial(state["fp"] >= 2)


def check(ctx, case):
    import warnings
    with warnings.catch_warnings():
        warnings.simplefilter("ignore")
        with np.errstate(all="ignore"):
            {"fourier": check_fourier, "fixed": check_fixed, "positions": check_positions, "pipeline": check_pipeline}[case["kind"]](ctx, case)
