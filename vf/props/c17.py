"""C17 Simulation grids stay consistent through any history of edits.

History monitor: random sequences of assignments (extent / gpts / sampling, `match`,
`round_to_power`) are applied to one long-lived Grid; a wrapper around every step has the
previous state in hand and checks, after the step (whether it raised or not):

  * consistency   a fully defined grid has extent = gpts*sampling ((gpts-1)*sampling with
                  endpoint) and reciprocal sampling 1/(gpts*sampling) in every dimension;
  * locks         locked quantities did not change (beyond the np.allclose tolerance the
                  setter itself uses to accept an assignment).

Second monitor (`pipeline-invariant`): an icontract class invariant with the same
consistency predicate is installed on the real `abtem.core.grid.Grid`, then real objects
(Probe, PlaneWave, Potential, GridScan, Waves, SMatrix) are built, edited and matched, so the
invariant is evaluated after every public Grid call made *by abTEM itself*.
"""
import numpy as np

PROPERTY = "C17"
TECHNIQUE = "runtime monitoring; history monitor with pure-Python grid model + icontract class invariant on Grid"
RULE = ("histories of 1-8 operations on one Grid: initial (extent,gpts,sampling) subset, all 8 lock combinations, endpoint "
        "False/True/mixed, 1-3 dimensions, operations set-extent/set-gpts/set-sampling (scalars, tuples, lists, ndarrays, None "
        "for extent), match with another grid, round_to_power; non-trivial = at least two operations completed without raising "
        "on a fully defined grid; distinct = distinct history signature")
CLAUSES = ["consistency", "reciprocal-sampling", "locks", "consistency-after-raise", "pipeline-invariant"]
QUICK = dict(n=6000, time=45)
THOROUGH = dict(n=1430270, time=480, shards=16)

REL = 1e-9


def _val(rng, kind, dims):
    def one():
        if kind == "gpts":
            return int(rng.choice([1, 2, 3, 7, 16, 17, 64, 100, int(rng.integers(1, 300))]))
        if kind == "extent":
            return float(rng.choice([1.0, 2.5, 10.0, float(rng.uniform(0.3, 60))]))
        return float(rng.choice([0.05, 0.1, 0.25, 1.0, float(rng.uniform(0.01, 2.0))]))
    form = rng.random()
    if form < 0.4 or dims == 1 and form < 0.6:
        return {"v": one(), "as": "scalar"}
    return {"v": [one() for _ in range(dims)], "as": str(rng.choice(["tuple", "list", "ndarray"]))}


def gen(rng, tier):
    if rng.random() < 0.03:
        return {"kind": "pipeline", "seed": int(rng.integers(0, 2 ** 31))}
    dims = int(rng.choice([1, 2, 2, 2, 3]))
    ep = rng.random()
    endpoint = False if ep < 0.5 else (True if ep < 0.75 else [bool(rng.random() < 0.5) for _ in range(dims)])
    which = int(rng.integers(0, 8))
    init = {}
    if which & 1:
        init["extent"] = _val(rng, "extent", dims)
    if which & 2:
        init["gpts"] = _val(rng, "gpts", dims)
    if which & 4 and not (which & 1 and which & 2):
        init["sampling"] = _val(rng, "sampling", dims)
    locks = int(rng.integers(0, 8))
    ops = []
    for _ in range(int(rng.integers(1, 9))):
        r = rng.random()
        if r < 0.3:
            ops.append({"op": "extent", "val": None if rng.random() < 0.05 else _val(rng, "extent", dims)})
        elif r < 0.6:
            ops.append({"op": "gpts", "val": _val(rng, "gpts", dims)})
        elif r < 0.9:
            ops.append({"op": "sampling", "val": _val(rng, "sampling", dims)})
        elif r < 0.96:
            other = {k: _val(rng, k, dims) for k in ("extent", "gpts") if rng.random() < 0.7}
            ops.append({"op": "match", "other": other})
        else:
            ops.append({"op": "round", "powers": [int(p) for p in rng.choice([2, 3, 5, 7], size=int(rng.integers(1, 4)), replace=False)]})
    return {"kind": "history", "dims": dims, "endpoint": endpoint, "init": init,
            "locks": {"extent": bool(locks & 1), "gpts": bool(locks & 2), "sampling": bool(locks & 4)}, "ops": ops}


def _arg(d):
    if d is None:
        return None
    v = d["v"]
    if d["as"] == "scalar":
        return v
    if d["as"] == "tuple":
        return tuple(v)
    if d["as"] == "ndarray":
        return np.array(v)
    return list(v)


def consistent(grid):
    """None if consistent / not fully defined, else description of the inconsistency.
    Returns ('degenerate', ...) for the endpoint & gpts==1 dimension (known finding)."""
    e, g, s = grid.extent, grid.gpts, grid.sampling
    if e is None or g is None or s is None:
        return None
    problems = []
    for d, (ee, gg, ss, ep) in enumerate(zip(e, g, s, grid.endpoint)):
        want = (gg - 1) * ss if ep else gg * ss
        if abs(ee - want) > REL * max(abs(ee), abs(want), 1e-300):
            kind = "degenerate" if (ep and gg == 1) else "inconsistent"
            problems.append((kind, d, ee, gg, ss, bool(ep)))
    return problems or None


def _state(grid):
    return (grid.extent, grid.gpts, grid.sampling)


def _locked_changed(before, after, locks):
    out = []
    for name, b, a, lk in (("extent", before[0], after[0], locks["extent"]), ("gpts", before[1], after[1], locks["gpts"]),
                           ("sampling", before[2], after[2], locks["sampling"])):
        if not lk or b is None:
            continue
        if a is None or not np.allclose(a, b, rtol=1e-5, atol=1e-8):
            out.append((name, b, a))
    return out


def _judge(ctx, grid, before, locks, raised, step, op):
    prob = consistent(grid)
    clause = "consistency-after-raise" if raised else "consistency"
    if prob and all(p[0] == "degenerate" for p in prob):
        ctx.clauses[clause] += 1
        ctx.known("C17-endpoint-single-point", "grid with endpoint=True and gpts==1 cannot satisfy extent=(gpts-1)*sampling")
    else:
        ctx.expect(prob is None, clause, step=step, op=op, problems=prob, before=before, after=_state(grid))
    if prob is None and grid.extent is not None and grid.gpts is not None and grid.sampling is not None:
        if any(d == 0 for d in grid.sampling):
            # zero sampling is never assigned by the workload: it can only be inherited from the
            # one-point endpoint grid (known finding); 1/(gpts*sampling) is undefined there
            ctx.known("C17-endpoint-single-point")
        else:
            rs = grid.reciprocal_space_sampling
            want = [1.0 / (n * d) for n, d in zip(grid.gpts, grid.sampling)]
            ctx.close(rs, want, "reciprocal-sampling", rtol=1e-12)
    ch = _locked_changed(before, _state(grid), locks)
    ctx.expect(not ch, "locks", step=step, op=op, changed=ch, raised=raised)


def check_history(ctx, case):
    import warnings
    from abtem.core.grid import Grid
    init = {k: _arg(v) for k, v in case["init"].items()}
    ep = case["endpoint"]
    ep = ep if isinstance(ep, bool) else tuple(ep)
    locks = case["locks"]
    with warnings.catch_warnings():
        warnings.simplefilter("ignore")
        try:
            grid = Grid(dimensions=case["dims"], endpoint=ep, lock_extent=locks["extent"], lock_gpts=locks["gpts"],
                        lock_sampling=locks["sampling"], **init)
        except Exception:
            ctx.note("constructor-refused")
            return
        _judge(ctx, grid, (None, None, None), {"extent": False, "gpts": False, "sampling": False}, False, -1, "init")
        done = 0
        for i, op in enumerate(case["ops"]):
            before = _state(grid)
            defined = None not in before
            raised = False
            try:
                if op["op"] in ("extent", "gpts", "sampling"):
                    setattr(grid, op["op"], _arg(op["val"]))
                elif op["op"] == "match":
                    other = Grid(dimensions=case["dims"], endpoint=ep, **{k: _arg(v) for k, v in op["other"].items()})
                    grid.match(other)
                    _judge(ctx, other, (None, None, None), {"extent": False, "gpts": False, "sampling": False}, False, i, "match-other")
                else:
                    if grid.gpts is None:
                        continue
                    grid.round_to_power(op["powers"])
            except Exception as e:
                raised = True
                ctx.note("raised-" + type(e).__name__)
            _judge(ctx, grid, before, locks, raised, i, op["op"])
            if not raised and defined:
                done += 1
    ctx.nontrivial(done >= 2)


# ---------------------------------------------------------------- pipeline invariant
class GridInvariantBroken(Exception):
    pass


_EVALS = {"n": 0, "degenerate": 0}


def grid_is_consistent(self):
    _EVALS["n"] += 1
    prob = consistent(self)
    if prob and all(p[0] == "degenerate" for p in prob):
        _EVALS["degenerate"] += 1
        return True
    return prob is None


def _manual_invariant(cls):
    import functools

    def wrap(f):
        @functools.wraps(f)
        def inner(self, *a, **k):
            out = f(self, *a, **k)
            if not grid_is_consistent(self):
                raise GridInvariantBroken("Grid invariant broken after %s" % f.__name__)
            return out
        return inner

    for name, attr in list(cls.__dict__.items()):
        if isinstance(attr, property) and attr.fset is not None:
            setattr(cls, name, property(attr.fget, wrap(attr.fset), attr.fdel, attr.__doc__))
        elif callable(attr) and (not name.startswith("_") or name == "__init__") and not isinstance(attr, (staticmethod, classmethod, type)):
            setattr(cls, name, wrap(attr))


def check_pipeline(ctx, case):
    import warnings
    import abtem
    from abtem.core import grid as grid_mod
    rng = np.random.default_rng(case["seed"])
    orig = dict(grid_mod.Grid.__dict__)
    n0 = _EVALS["n"]
    deg0 = _EVALS["degenerate"]
    try:
        import icontract
        icontract.invariant(grid_is_consistent, error=GridInvariantBroken)(grid_mod.Grid)
        ctx.monitor("invariant-engine-icontract")
    except ImportError:
        # the contracts library is installed by setup.sh into .deps; without it the same invariant is attached by a
        # plain wrapper around every public method and property setter of Grid
        _manual_invariant(grid_mod.Grid)
        ctx.monitor("invariant-engine-manual")
    broken = None
    try:
        with warnings.catch_warnings():
            warnings.simplefilter("ignore")
            try:
                from ase.build import bulk
                atoms = bulk("Si", cubic=True) * (int(rng.integers(1, 3)), 1, 1)
                g = (int(rng.integers(8, 40)), int(rng.integers(8, 40)))
                pot = abtem.Potential(atoms, gpts=g, slice_thickness=2.0)
                pot.sampling = float(rng.uniform(0.1, 0.4))
                pot.gpts = (int(rng.integers(8, 40)), int(rng.integers(8, 40)))
                probe = abtem.Probe(energy=100e3, semiangle_cutoff=15.0)
                probe.grid.match(pot)
                pw = abtem.PlaneWave(energy=80e3, sampling=float(rng.uniform(0.05, 0.3)))
                pw.grid.match(pot)
                scan = abtem.GridScan(start=(0, 0), end=(float(rng.uniform(1, 5)), float(rng.uniform(1, 5))),
                                      sampling=float(rng.uniform(0.2, 1.0)), endpoint=bool(rng.random() < 0.5))
                scan.get_positions()
                ls = abtem.LineScan(start=(0, 0), end=(2.0, 3.0), gpts=int(rng.integers(2, 12)), endpoint=bool(rng.random() < 0.5))
                ls.get_positions()
                w = probe.build(scan=abtem.CustomScan([[0.5, 0.5]]), lazy=False)
                w.grid.sampling  # noqa
                try:
                    w.gpts = (5, 5)     # locked: must raise, must keep state
                except RuntimeError:
                    pass
                w.extent = (float(rng.uniform(3, 9)), float(rng.uniform(3, 9)))
                w.sampling = float(rng.uniform(0.05, 0.5))
                w.intensity().interpolate(sampling=float(rng.uniform(0.05, 0.3)))
                s = abtem.SMatrix(semiangle_cutoff=10.0, energy=100e3, potential=pot, interpolation=1)
                s.gpts, s.extent
                pot2 = abtem.Potential(atoms, sampling=float(rng.uniform(0.1, 0.3)))
                try:
                    pot2.extent = (1.0, 1.0)    # locked extent
                except RuntimeError:
                    pass
                pot2.gpts = int(rng.integers(8, 50))
                pw2 = abtem.PlaneWave(energy=80e3)
                pw2.grid.match(pot2)
                pw2.build(lazy=False)
            except GridInvariantBroken as e:
                broken = repr(e)[:300]
    finally:
        for k in list(grid_mod.Grid.__dict__):
            if k not in orig:
                try:
                    delattr(grid_mod.Grid, k)
                except Exception:
                    pass
        for k, v in orig.items():
            if k in ("__dict__", "__weakref__", "__doc__", "__module__"):
                continue
            try:
                if grid_mod.Grid.__dict__.get(k) is not v:
                    setattr(grid_mod.Grid, k, v)
            except Exception:
                pass
    n = _EVALS["n"] - n0
    ctx.monitor("grid-invariant-evaluations", n)
    if _EVALS["degenerate"] - deg0:
        ctx.note("pipeline-degenerate-endpoint-grids", _EVALS["degenerate"] - deg0)
    if n == 0:
        ctx.note("pipeline-invariant-not-reached")
        return
    ctx.expect(broken is None, "pipeline-invariant", error=broken)
    ctx.nontrivial(n > 50)


def check(ctx, case):
    if case["kind"] == "pipeline":
        check_pipeline(ctx, case)
    else:
        check_history(ctx, case)


def fixed_cases(tier):
    # the lock combinations abTEM itself uses, plus every double lock, on small exact numbers
    out = [{"kind": "pipeline", "seed": 1}, {"kind": "pipeline", "seed": 2}]
    for locks in range(8):
        for ep in (False, True):
            out.append({"kind": "history", "dims": 2, "endpoint": ep,
                        "init": {"extent": {"v": 10.0, "as": "scalar"}, "gpts": {"v": 20, "as": "scalar"}},
                        "locks": {"extent": bool(locks & 1), "gpts": bool(locks & 2), "sampling": bool(locks & 4)},
                        "ops": [{"op": "extent", "val": {"v": 7.3, "as": "scalar"}},
                                {"op": "gpts", "val": {"v": [13, 31], "as": "tuple"}},
                                {"op": "sampling", "val": {"v": 0.3, "as": "scalar"}},
                                {"op": "extent", "val": {"v": [4.1, 9.9], "as": "list"}}]})
    return out
