"""C14 Diffraction pattern geometry is self-consistent.

Oracles (numpy index arithmetic and float64 geometry, independent of abTEM):

* the full pattern itself is compared with a float64 matrix DFT, so "crop of the full pattern" is anchored;
* cropped (max_angle = cutoff / valid / float, any parity) pattern == centred window of the full shifted
  pattern: out[j] = full[j - n//2 + N//2] (zero where the window leaves the grid);
* fftshift=False pattern == numpy.ifftshift of the fftshift=True pattern (values), shapes identical;
* shape parity as requested ("same" = parity of the wave grid, per axis);
* DiffractionPatterns.crop(gpts= / max_angle=) == the same centred window (for an unshifted pattern: the
  inverse shift of that window, layout flag preserved);
* block_direct: every pixel gets its *true* scattering angle from its frequency index (shifted:
  i - n//2, unshifted: fftfreq order) and our own wavelength.  Pixels with angle < R - eps must be zero,
  pixels with angle > R + eps must be bit-identical to the input, pixels in the eps-band may be either
  (sandwich; in particular radius=0 leaves the fate of the zero-angle pixel open: abTEM's float32 linspace
  coordinates do not give it the exact angle 0 on even grids); R is the effective radius the docstring defines (explicit / semiangle_cutoff / 1.0001 pixel,
  plus one pixel of margin when requested or implied by semiangle_cutoff).
"""
import numpy as np

from vf import lib_diffraction as L

PROPERTY = "C14"
TECHNIQUE = "runtime monitoring; index-arithmetic oracle on the float64-DFT-anchored full pattern, sandwich oracle on true per-pixel angles for block_direct"
RULE = ("(a) random complex Waves on odd/even/rectangular grids 5-64 with 0-2 ensemble axes, energies 30-300 keV, max_angle in "
        "{cutoff, valid, full, float inside the grid}, parity in {same, odd, even}, float32/float64, eager/lazy, optional "
        "block_direct=float in the same call; (b) DiffractionPatterns built directly with strictly positive values, sizes 5-64 "
        "odd/even/rectangular, fftshift True/False, anisotropic sampling, radius explicit/default, margin None/True/False, with and "
        "without semiangle_cutoff metadata, ensembles, eager/lazy (chunked along ensemble axes; split base axes are offered too: a "
        "loud refusal is noted, a result is judged); 30-35 % of the cases are histories: the same input again in the same process "
        "with exactly one parameter changed (energy, radius, margin, layout, sampling/extent, max_angle, parity); non-trivial = cropped shape differs from the grid in an axis, or "
        "a blocked disc with pixels inside and outside; distinct = distinct case signature")
CLAUSES = ["full-values", "crop-centred", "unshifted-is-ifftshift", "parity", "angle-range", "limits", "crop-method", "crop-method-unshifted",
           "block-inside-zero", "block-outside-unchanged", "block-unshifted", "block-in-pipeline", "history"]
QUICK = dict(n=220, time=40)
THOROUGH = dict(n=64000, time=480, shards=16)
ASSUMPTIONS = ["float max_angle values are drawn inside the simulated grid; parity is judged for angle-limited patterns only "
               "(max_angle='full' returns the wave grid by definition)",
               "block_direct(radius=True) via diffraction_patterns(block_direct=True) is not judged: the effective radius of that "
               "spelling is not defined by the documentation"]


def _size(rng):
    return int(rng.choice([5, 6, 7, 8, 9, 16, 17, int(rng.integers(5, 65)), int(rng.integers(5, 65))]))


def gen(rng, tier):
    nx = _size(rng)
    ny = nx if rng.random() < 0.3 else _size(rng)
    energy = float(rng.choice([30e3, 60e3, 100e3, 200e3, 300e3]))
    if rng.random() < 0.5:
        spec = L.rand_axes(rng, max_axes=2, max_len=3)
        ma = str(rng.choice(["cutoff", "valid", "full", "float", "float"]))
        # real-space sampling with an anisotropy of at most 2, so that the antialias cutoff keeps >= 1 pixel per axis
        sx = float(rng.uniform(0.05, 0.4))
        sy = sx if rng.random() < 0.3 else float(sx * rng.uniform(0.5, 2.0))
        case = {"kind": "waves", "gpts": [nx, ny], "extent": [nx * sx, ny * sy],
                "energy": energy, "axes": spec, "chunks": [int(rng.integers(1, 4)) for _ in spec],
                "lazy": bool(rng.random() < 0.3), "precision": str(rng.choice(["float32", "float64"])),
                "max_angle": ma, "frac": float(rng.uniform(0.05, 0.97)), "parity": str(rng.choice(["same", "odd", "even"])),
                "crop_gpts": [int(rng.integers(1, nx + 1)), int(rng.integers(1, ny + 1))], "crop_frac": float(rng.uniform(0.05, 0.95)),
                "block": (None if rng.random() < 0.5 else float(rng.uniform(0.3, 6.0))), "seed": int(rng.integers(0, 2 ** 31)),
                "crop_base_chunks": L.rand_base_chunks(rng, (nx, ny), p_split=0.3)}
        if rng.random() < 0.3:
            # history: the same waves again in the same process with exactly one parameter changed
            k = int(rng.integers(0, 5))
            case["then"] = [{"energy": float(rng.choice([e for e in (30e3, 60e3, 100e3, 200e3, 300e3) if e != energy]))} if k == 0 else
                            {"max_angle": "float", "frac": float(rng.uniform(0.05, 0.97))} if k == 1 else
                            {"parity": str(rng.choice([q for q in ("same", "odd", "even") if q != case["parity"]]))} if k == 2 else
                            {"block": float(rng.uniform(0.3, 6.0))} if k == 3 else
                            {"extent": [case["extent"][0] * float(rng.uniform(0.7, 1.4)), case["extent"][1]]}]
        return case
    spec = L.rand_axes(rng, max_axes=2, max_len=3)
    rk = rng.random()
    lazy = bool(rng.random() < 0.3)
    case = {"kind": "block", "gpts": [nx, ny], "sampling": [float(rng.uniform(0.01, 0.2)), float(rng.uniform(0.01, 0.2))],
            "energy": energy, "fftshift": bool(rng.random() < 0.5), "axes": spec, "chunks": [int(rng.integers(1, 4)) for _ in spec],
            "lazy": lazy, "base_chunks": (L.rand_base_chunks(rng, (nx, ny), p_split=0.3) if lazy else None),
            "dtype": str(rng.choice(["float32", "float64"])),
            # radius in units of the larger angular pixel: None = default
            "radius_px": (None if rk < 0.35 else float(rng.choice([0.0, 0.5, 1.0, 1.5, 2.0, float(rng.uniform(0.2, 0.45 * min(nx, ny))),
                                                                    float(rng.uniform(0.2, 0.45 * min(nx, ny)))]))),
            "margin": [None, True, False][int(rng.integers(0, 3))],
            "semiangle_px": (None if rng.random() < 0.5 else float(rng.uniform(0.5, 0.3 * min(nx, ny)))),
            "seed": int(rng.integers(0, 2 ** 31))}
    if rng.random() < 0.35:
        then = []
        for _ in range(int(rng.integers(1, 3))):
            k = int(rng.integers(0, 6))
            if k == 0:
                then.append({"energy": float(rng.choice([e for e in (20e3, 60e3, 100e3, 200e3, 300e3) if e != energy]))})
            elif k == 1:
                then.append({"radius_px": float(rng.uniform(0.2, 0.45 * min(nx, ny)))})
            elif k == 2:
                then.append({"margin": [None, True, False][int(rng.integers(0, 3))]})
            elif k == 3:
                then.append({"fftshift": not case["fftshift"]})
            elif k == 4:
                then.append({"sampling": [float(rng.uniform(0.01, 0.2)), float(rng.uniform(0.01, 0.2))]})
            else:
                then.append({"semiangle_px": (None if case["semiangle_px"] is not None else float(rng.uniform(0.5, 0.3 * min(nx, ny))))})
        case["then"] = then
    return case


# ------------------------------------------------------------------------------------------ helpers
def centred_window(full, shape):
    """out[..., j, k] = full[..., j - n//2 + N//2, k - m//2 + M//2], zero outside (full is in the shifted layout)."""
    N, M = full.shape[-2:]
    n, m = shape
    out = np.zeros(full.shape[:-2] + (n, m), dtype=full.dtype)
    jx = np.arange(n) - n // 2 + N // 2
    jy = np.arange(m) - m // 2 + M // 2
    okx = (jx >= 0) & (jx < N)
    oky = (jy >= 0) & (jy < M)
    ix, iy = np.nonzero(okx)[0], np.nonzero(oky)[0]
    out[..., ix[:, None], iy[None, :]] = full[..., jx[okx][:, None], jy[oky][None, :]]
    return out


def pixel_angles(shape, sampling, energy, shifted):
    lam = L.wavelength(energy)
    ax = L.freq_index(shape[0], shifted) * sampling[0] * lam * 1e3
    ay = L.freq_index(shape[1], shifted) * sampling[1] * lam * 1e3
    return np.hypot(ax[:, None], ay[None, :]), (sampling[0] * lam * 1e3, sampling[1] * lam * 1e3)


def judge_block(ctx, before, after, angles, R, shifted, extra=(), **detail):
    """Sandwich: inside R-eps zero, outside R+eps unchanged."""
    eps = 2e-5 * max(R, float(angles[angles > 0].min()) if (angles > 0).any() else R)
    inside = angles < R - eps
    outside = angles > R + eps
    names_in = ["block-inside-zero"] + list(extra) + ([] if shifted else ["block-unshifted"])
    names_out = ["block-outside-unchanged"] + list(extra) + ([] if shifted else ["block-unshifted"])
    bad_in = np.argwhere(after[..., inside] != 0)
    bad_out = np.argwhere(after[..., outside] != before[..., outside])
    for name in names_in:
        ctx.expect(bad_in.size == 0, name, what="pixel within the radius not zeroed", n_bad=int(len(bad_in)),
                   first=_where(inside, bad_in), radius=R, **detail)
    for name in names_out:
        ctx.expect(bad_out.size == 0, name, what="pixel outside the radius changed", n_bad=int(len(bad_out)),
                   first=_where(outside, bad_out), radius=R, **detail)
    return int(inside.sum()), int(outside.sum())


def _where(mask, bad):
    if not len(bad):
        return None
    ij = np.argwhere(mask)[int(bad[0][-1])]
    return [int(ij[0]), int(ij[1])]


# ------------------------------------------------------------------------------------------ waves
def check_waves(ctx, case):
    import abtem
    rng = np.random.default_rng(case["seed"])
    nx, ny = case["gpts"]
    spec = case["axes"]
    ens = L.axes_shape(spec)
    a = rng.normal(size=ens + (nx, ny)) + 1j * rng.normal(size=ens + (nx, ny))
    f64 = case["precision"] == "float64"
    a = a.astype(np.complex128 if f64 else np.complex64)
    ref = np.abs(L.direct_dft2(a)) ** 2
    ref_shift = np.fft.fftshift(ref, axes=(-2, -1))
    rt = 1e-11 if f64 else 1e-5
    with abtem.config.set({"precision": case["precision"]}):
        arr = L.chunk_array(a, case["chunks"]) if case["lazy"] else a.copy()
        w = abtem.Waves(arr, energy=case["energy"], extent=tuple(case["extent"]), ensemble_axes_metadata=L.make_axes(spec))
        s = (1.0 / case["extent"][0], 1.0 / case["extent"][1])
        ang, (px, py) = pixel_angles((nx, ny), s, case["energy"], True)
        full = w.diffraction_patterns(max_angle="full", parity="same", fftshift=True)
        fullv = L.as_numpy(full)
        if not ctx.close(fullv, ref_shift, "full-values", rtol=rt, atol=1e-30):
            return
        ctx.close(full.sampling, s, "limits", rtol=1e-12, what="sampling")
        if case["max_angle"] == "float":
            max_angle = case["frac"] * min(nx // 2 * px, ny // 2 * py)
        else:
            max_angle = case["max_angle"]
        dpT = w.diffraction_patterns(max_angle=max_angle, parity=case["parity"], fftshift=True)
        dpF = w.diffraction_patterns(max_angle=max_angle, parity=case["parity"], fftshift=False)
        vT, vF = L.as_numpy(dpT), L.as_numpy(dpF)
        n, m = vT.shape[-2:]
        scale = float(fullv.max())
        # cropped == centred window of the uncropped pattern (same FFT output, so essentially bit-equal)
        ctx.close(vT, centred_window(fullv, (n, m)), "crop-centred", rtol=1e-6 if not f64 else 1e-13, scale=scale,
                  max_angle=max_angle, shape=[n, m], grid=[nx, ny])
        ctx.close(vT, centred_window(ref_shift, (n, m)), "crop-centred", rtol=rt, scale=scale, against="float64 DFT")
        if ctx.expect(vF.shape == vT.shape, "unshifted-is-ifftshift", reason="shape", shifted=list(vT.shape), unshifted=list(vF.shape)):
            ctx.close(vF, np.fft.ifftshift(vT, axes=(-2, -1)), "unshifted-is-ifftshift", rtol=1e-6 if not f64 else 1e-13,
                      scale=scale, shape=[n, m])
        ctx.expect(dpT.fftshift is True and dpF.fftshift is False, "unshifted-is-ifftshift", what="fftshift flag")
        # parity
        if case["max_angle"] != "full":
            want = {"same": (nx % 2, ny % 2), "odd": (1, 1), "even": (0, 0)}[case["parity"]]
            ctx.expect((n % 2, m % 2) == want, "parity", shape=[n, m], grid=[nx, ny], parity=case["parity"], max_angle=max_angle)
        else:
            ctx.expect((n, m) == (nx, ny), "parity", what="full pattern must have the wave grid", shape=[n, m])
        # an angle-limited pattern reaches the requested angle on both axes (and stops within ~2 pixels of it)
        if case["max_angle"] == "float":
            for nn, pp in ((n, px), (m, py)):
                ctx.expect(max_angle * (1 - 1e-9) <= (nn // 2) * pp <= max_angle + 2.5 * pp, "angle-range", max_angle=max_angle,
                           pixels=nn, pixel=pp, reach=(nn // 2) * pp)
        # coordinates of the shifted pattern: zero frequency on pixel n//2
        lim = dpT.limits
        ctx.close([lim[0][0], lim[0][1], lim[1][0], lim[1][1]],
                  [-(n // 2) * s[0], (n - 1 - n // 2) * s[0], -(m // 2) * s[1], (m - 1 - m // 2) * s[1]], "limits", rtol=1e-12,
                  atol=1e-15, shape=[n, m])
        ctx.close(dpT.sampling, s, "limits", rtol=1e-12, what="sampling of the cropped pattern")
        # DiffractionPatterns.crop
        g = tuple(case["crop_gpts"])
        cr = full.crop(gpts=g)
        ctx.close(L.as_numpy(cr), centred_window(fullv, g), "crop-method", rtol=0, atol=0, gpts=list(g), grid=[nx, ny])
        # ... and on the unshifted full pattern: same window in the unshifted layout, layout flag kept
        fullF = w.diffraction_patterns(max_angle="full", parity="same", fftshift=False)
        crF = fullF.crop(gpts=g)
        ctx.expect(crF.fftshift is False, "crop-method-unshifted", what="layout flag")
        ctx.close(L.as_numpy(crF), np.fft.ifftshift(centred_window(fullv, g), axes=(-2, -1)), "crop-method-unshifted", rtol=0,
                  atol=0, gpts=list(g), grid=[nx, ny])
        # ... and on a lazily stored copy of the full pattern whose base axes are split (refusal noted, result judged)
        if case.get("crop_base_chunks"):
            from abtem.measurements import DiffractionPatterns
            lz = DiffractionPatterns(L.chunk_array(fullv, case["chunks"], base_chunks=case["crop_base_chunks"]), sampling=full.sampling,
                                     fftshift=True, ensemble_axes_metadata=list(full.ensemble_axes_metadata), metadata=dict(full.metadata))
            ctx.monitor("lazy-base-axes-chunked")
            try:
                cz = L.as_numpy(lz.crop(gpts=g))
            except (ValueError, RuntimeError, AssertionError, IndexError) as e:
                # (repaired by fix 5b2469f3: a refusal or a wrongly shaped result is a violation again)
                ctx.expect(False, "crop-method", what="lazy base-chunked crop raised", error=repr(e)[:200],
                           base_chunks=case["crop_base_chunks"])
                cz = None
            if cz is not None and cz.shape == fullv.shape[:-2] + g:
                ctx.close(cz, centred_window(fullv, g), "crop-method", rtol=0, atol=0, gpts=list(g), base_chunks=case["crop_base_chunks"])
            elif cz is not None:
                ctx.expect(False, "crop-method", what="lazy base-chunked crop has the wrong shape", shape=list(cz.shape),
                           base_chunks=case["crop_base_chunks"])
        ca = case["crop_frac"] * min(nx // 2 * px, ny // 2 * py)
        cr = full.crop(max_angle=ca)
        cv = L.as_numpy(cr)
        ctx.close(cv, centred_window(fullv, cv.shape[-2:]), "crop-method", rtol=0, atol=0, max_angle=ca)
        ctx.expect(cv.shape[-2] % 2 == 1 and cv.shape[-1] % 2 == 1 and cv.shape[-2] // 2 * px >= ca * (1 - 1e-9) - 0.5 * px
                   and cv.shape[-1] // 2 * py >= ca * (1 - 1e-9) - 0.5 * py, "crop-method", what="crop(max_angle) window", shape=list(cv.shape),
                   max_angle=ca)
        # block_direct inside the same call
        if case["block"] is not None:
            R = case["block"] * case.get("_unit", max(px, py))
            for shifted, base in ((True, vT), (False, vF)):
                b = w.diffraction_patterns(max_angle=max_angle, parity=case["parity"], fftshift=shifted, block_direct=R)
                angles, _ = pixel_angles((n, m), s, case["energy"], shifted)
                judge_block(ctx, base, L.as_numpy(b), angles, R, shifted, extra=("block-in-pipeline",), shape=[n, m], via="waves")
    ctx.nontrivial((n, m) != (nx, ny))


# ------------------------------------------------------------------------------------------ block
def check_block(ctx, case):
    from abtem.measurements import DiffractionPatterns
    rng = np.random.default_rng(case["seed"])
    nx, ny = case["gpts"]
    spec = case["axes"]
    ens = L.axes_shape(spec)
    I = (rng.random(ens + (nx, ny)) + 0.1).astype(case["dtype"])
    shifted = case["fftshift"]
    angles, (px, py) = pixel_angles((nx, ny), case["sampling"], case["energy"], shifted)
    pmax = max(px, py)
    # radii are generated in units of the larger angular pixel; inside a history the unit is the pixel of the first step, so
    # that a step which changes the energy or the sampling keeps numerically identical radii in mrad
    unit = case.get("_unit", pmax)
    md = {"energy": case["energy"]}
    if case["semiangle_px"] is not None:
        md["semiangle_cutoff"] = case["semiangle_px"] * unit
    arr = L.chunk_array(I, case["chunks"], base_chunks=case.get("base_chunks")) if case["lazy"] else I.copy()
    split = case["lazy"] and bool(case.get("base_chunks"))
    dp = DiffractionPatterns(arr, sampling=tuple(case["sampling"]), fftshift=shifted, metadata=md,
                             ensemble_axes_metadata=L.make_axes(spec))
    radius = None if case["radius_px"] is None else case["radius_px"] * unit
    # effective radius as documented
    if radius is not None:
        R = radius
    elif case["semiangle_px"] is not None:
        R = md["semiangle_cutoff"]
    else:
        R = 1.0001 * pmax
    margin = case["margin"]
    if margin is None:
        margin = case["semiangle_px"] is not None
    if margin:
        R = R + pmax
    kwargs = {}
    if radius is not None:
        kwargs["radius"] = radius
    if case["margin"] is not None:
        kwargs["margin"] = case["margin"]
    if split:
        # A lazily stored pattern whose base axes are split into several chunks: abTEM applies the mask block-wise with the
        # coordinates of the whole pattern and refuses loudly (broadcast error).  A refusal is noted, a result is judged.
        ctx.monitor("lazy-base-axes-chunked")
        try:
            out = dp.block_direct(**kwargs)
            after = L.as_numpy(out)
        except (ValueError, RuntimeError, AssertionError, IndexError) as e:
            # (repaired by fix 5b2469f3: a refusal or a wrongly shaped result is a violation again)
            ctx.expect(False, "block-outside-unchanged", what="lazy base-chunked block_direct raised", error=repr(e)[:200])
            return
        if after.shape != I.shape:
            ctx.expect(False, "block-outside-unchanged", what="lazy base-chunked block_direct has the wrong shape",
                       shape=list(after.shape), want=list(I.shape))
            return
        ctx.monitor("base-chunked-block-direct-judged")
    else:
        out = dp.block_direct(**kwargs)
        after = L.as_numpy(out)
    if not ctx.expect(after.shape == I.shape and type(out) is DiffractionPatterns and out.fftshift == shifted, "block-outside-unchanged",
                      what="type/shape/layout", shape=list(after.shape)):
        return
    nin, nout = judge_block(ctx, I, after, angles, R, shifted, gpts=[nx, ny], kwargs={k: (v if isinstance(v, bool) else float(v)) for k, v in kwargs.items()})
    # the input object is untouched
    ctx.expect(np.array_equal(L.as_numpy(dp), I), "block-outside-unchanged", what="input pattern modified")
    ctx.nontrivial(nin >= 1 and nout >= 1)


def _unit(step):
    """Larger angular pixel [mrad] of a step."""
    samp = step["sampling"] if step["kind"] == "block" else (1.0 / step["extent"][0], 1.0 / step["extent"][1])
    lam = L.wavelength(step["energy"])
    return max(samp) * lam * 1e3


def check(ctx, case):
    steps = L.steps_of(case)
    if len(steps) > 1:
        for st in steps:
            st["_unit"] = _unit(steps[0])
    for i, step in enumerate(steps):
        if i:
            ctx.monitor("history-steps")
            ctx.clauses["history"] += 1      # judged by the regular clauses
        if step["kind"] == "waves":
            check_waves(ctx, step)
        else:
            check_block(ctx, step)


def fixed_cases(tier):
    out = []
    for g in ([9, 8], [8, 9], [7, 7], [6, 6]):
        for sh in (False, True):
            out.append({"kind": "block", "gpts": g, "sampling": [0.05, 0.04], "energy": 100e3, "fftshift": sh, "axes": [], "chunks": [],
                        "lazy": False, "base_chunks": None, "dtype": "float32", "radius_px": None, "margin": None, "semiangle_px": None, "seed": 5})
    for sh in (False, True):
        out.append({"kind": "block", "gpts": [7, 6], "sampling": [0.05, 0.04], "energy": 100e3, "fftshift": sh, "axes": [], "chunks": [],
                    "lazy": False, "base_chunks": None, "dtype": "float64", "radius_px": 0.0, "margin": False, "semiangle_px": None, "seed": 6})
    # energy series on the same pattern (the blocked disc is defined in mrad), then another radius and the other layout
    out.append({"kind": "block", "gpts": [17, 16], "sampling": [0.05, 0.04], "energy": 300e3, "fftshift": True, "axes": [{"k": "S", "n": 2}],
                "chunks": [1], "lazy": True, "base_chunks": None, "dtype": "float32", "radius_px": 3.0, "margin": False, "semiangle_px": None,
                "seed": 9, "then": [{"energy": 60e3}, {"radius_px": 1.5}, {"fftshift": False}]})
    out.append({"kind": "waves", "gpts": [15, 12], "extent": [9.0, 7.0], "energy": 100e3, "axes": [{"k": "O", "n": 2}], "chunks": [1],
                "lazy": False, "precision": "float32", "max_angle": "float", "frac": 0.5, "parity": "odd", "crop_gpts": [7, 4],
                "crop_frac": 0.4, "block": 1.5, "seed": 11})
    return out
