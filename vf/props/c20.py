"""C20 Scan positions have the geometry their parameters describe.

Oracle (positions): float64 arithmetic on the scan's *reported* state.  After construction (and
after every edit through the public setters / add_margin) the scan reports start, end, gpts,
sampling and endpoint; the positions must be exactly gpts points start + i*sampling*direction, the
last one on `end` (endpoint) or one step short of it, and `ensemble_axes_metadata[d].coordinates(n)`
must list the same coordinates (absolute x / y for a GridScan, distance from the start for a
LineScan).  Requested gpts must be honoured; a requested sampling is only used as an upper bound on
the reported one (the statement binds positions to the *reported* sampling).

Oracle (probe): the probe built at the origin is shifted independently in complex128: np.roll for
positions on the pixel grid, Fourier shift theorem on the numpy DFT for fractional positions.  The
probes are band limited below Nyquist, so the shift is unique.  Positions come from CustomScan
(inside and outside the cell, negative), GridScan and LineScan, eager and lazy, float32 and float64.
"""
import numpy as np

from vf import gen as G

PROPERTY = "C20"
TECHNIQUE = "runtime monitoring; float64 geometry model of the reported scan state + independent DFT shift-theorem / np.roll oracle for built probes"
RULE = ("GridScan: start in any quadrant, positive extent, gpts 1-40 (scalar or pair) or sampling, endpoint scalar/pair, "
        "absolute or fractional coordinates with a potential or atoms, followed by 0-3 edits (start/end/gpts/sampling "
        "setters); LineScan: any start/end, gpts 1-40 or sampling, endpoint, fractional, at_position, add_margin, setter "
        "edits; gpts==1 with endpoint is generated but its end clause is not judged (no consistent end exists); probes: "
        "odd/even/rectangular grids 8-48, aberrated (defocus, astigmatism, coma) band-limited probes, 1-6 positions on and "
        "off the pixel grid, inside/outside the cell, through CustomScan/GridScan/LineScan, eager/lazy, float32/float64; "
        "non-trivial = at least 2 positions along some axis (scan) or a position that is not a multiple of the cell (probe); "
        "distinct = distinct case signature")
CLAUSES = ["grid:count", "grid:spacing-equals-sampling", "grid:first-equals-start", "grid:last-vs-end", "grid:mesh",
           "grid:axes-coordinates", "grid:request-honoured", "line:count", "line:spacing-equals-sampling",
           "line:first-equals-start", "line:last-vs-end", "line:collinear", "line:axes-coordinates", "line:request-honoured",
           "probe:on-grid-roll", "probe:fractional-shift", "probe:axes-coordinates", "probe:default-centre"]
QUICK = dict(n=900, time=40)
THOROUGH = dict(n=192000, time=480, shards=16)


# --------------------------------------------------------------------------- generation
def _coord(rng, lo=-20.0, hi=20.0):
    r = rng.random()
    if r < 0.15:
        return 0.0
    if r < 0.3:
        return float(rng.integers(-10, 11))
    return float(rng.uniform(lo, hi))


def _gpts1(rng):
    r = rng.random()
    if r < 0.08:
        return 1
    if r < 0.2:
        return 2
    return int(rng.integers(3, 41))


def _edits(rng, kind):
    out = []
    for _ in range(int(rng.choice([0, 0, 1, 2, 3]))):
        op = str(rng.choice(["start", "end", "gpts", "sampling"] + (["margin"] if kind == "line" else [])))
        if op == "start":
            out.append({"op": "start", "d": [float(rng.uniform(-3, 0.5)), float(rng.uniform(-3, 0.5))]})
        elif op == "end":
            out.append({"op": "end", "d": [float(rng.uniform(-0.5, 3)), float(rng.uniform(-0.5, 3))]})
        elif op == "gpts":
            out.append({"op": "gpts", "v": [int(rng.integers(2, 30)), int(rng.integers(2, 30))]})
        elif op == "sampling":
            out.append({"op": "sampling", "f": [float(rng.uniform(0.05, 0.5)), float(rng.uniform(0.05, 0.5))]})
        else:
            m = float(rng.uniform(0, 3))
            out.append({"op": "margin", "v": m if rng.random() < 0.5 else [m, float(rng.uniform(0, 3))]})
    return out


def gen_grid(rng):
    start = [_coord(rng), _coord(rng)]
    ext = [float(rng.choice([1.0, 5.0, float(rng.uniform(0.3, 30))])), float(rng.uniform(0.3, 30))]
    c = {"kind": "grid", "start": start, "extent": ext, "precision": str(rng.choice(["float32", "float64"])),
         "edits": _edits(rng, "grid")}
    ep = rng.random()
    c["endpoint"] = False if ep < 0.45 else (True if ep < 0.75 else [bool(rng.random() < 0.5), bool(rng.random() < 0.5)])
    if rng.random() < 0.7:
        c["gpts"] = _gpts1(rng) if rng.random() < 0.3 else [_gpts1(rng), _gpts1(rng)]
    else:
        f = [float(rng.uniform(0.02, 0.5)), float(rng.uniform(0.02, 0.5))]
        c["sampling"] = f[0] * min(ext) if rng.random() < 0.4 else [f[0] * ext[0], f[1] * ext[1]]
    if rng.random() < 0.25:
        c["fractional"] = {"cell": [float(rng.uniform(3, 12)), float(rng.uniform(3, 12)), 4.0],
                           "as": str(rng.choice(["potential", "atoms"])),
                           "start": [float(rng.uniform(-0.5, 0.5)), float(rng.uniform(-0.5, 0.5))],
                           "end": [float(rng.uniform(0.6, 1.5)), float(rng.uniform(0.6, 1.5))]}
    return c


def gen_line(rng):
    start = [_coord(rng), _coord(rng)]
    ang = float(rng.uniform(0, 2 * np.pi)) if rng.random() < 0.7 else float(rng.choice([0, 0.5, 1, 1.5]) * np.pi)
    length = float(rng.choice([1.0, float(rng.uniform(0.2, 40))]))
    end = [start[0] + length * np.cos(ang), start[1] + length * np.sin(ang)]
    c = {"kind": "line", "start": start, "end": [float(end[0]), float(end[1])], "endpoint": bool(rng.random() < 0.6),
         "precision": str(rng.choice(["float32", "float64"])), "edits": _edits(rng, "line")}
    if rng.random() < 0.65:
        c["gpts"] = _gpts1(rng)
    else:
        c["sampling"] = float(rng.uniform(0.02, 0.5)) * length
    r = rng.random()
    if r < 0.2:
        c["at_position"] = {"center": [_coord(rng), _coord(rng)], "extent": length, "angle": float(rng.uniform(-360, 360))}
    elif r < 0.4:
        c["fractional"] = {"cell": [float(rng.uniform(3, 12)), float(rng.uniform(3, 12)), 4.0],
                           "as": str(rng.choice(["potential", "atoms"])),
                           "start": [float(rng.uniform(-0.5, 1)), float(rng.uniform(-0.5, 1))],
                           "end": [float(rng.uniform(-0.5, 1.5)), float(rng.uniform(1.01, 1.5))]}
    return c


def gen_probe(rng):
    g = G.rand_gpts(rng, 8, 48)
    if rng.random() < 0.2:
        g[int(rng.integers(0, 2))] |= 1       # make sure odd sizes are common
    ext = [float(rng.uniform(4, 15)), float(rng.uniform(4, 15))]
    npos = int(rng.integers(1, 7))
    pos = []
    for _ in range(npos):
        r = rng.random()
        if r < 0.45:      # on the pixel grid, possibly outside the cell / negative
            pos.append({"pix": [int(rng.integers(-2 * g[0], 2 * g[0] + 1)), int(rng.integers(-2 * g[1], 2 * g[1] + 1))]})
        elif r < 0.9:
            pos.append({"frac": [float(rng.uniform(-1.5, 2.5)), float(rng.uniform(-1.5, 2.5))]})
        else:             # half-pixel positions
            pos.append({"halfpix": [int(rng.integers(-g[0], g[0])), int(rng.integers(-g[1], g[1]))]})
    via = str(rng.choice(["custom", "custom", "grid", "line"]))
    c = {"kind": "probe", "gpts": g, "extent": ext, "energy": float(rng.choice([60e3, 100e3, 200e3, 300e3])),
         "band": float(rng.uniform(0.2, 0.6)), "defocus": float(rng.uniform(-200, 200)),
         "astig": float(rng.uniform(0, 100)), "astig_angle": float(rng.uniform(0, np.pi)),
         "coma": float(rng.uniform(0, 2000)), "coma_angle": float(rng.uniform(0, 2 * np.pi)),
         "positions": pos, "via": via, "lazy": bool(rng.random() < 0.4),
         "precision": str(rng.choice(["float32", "float64"]))}
    if via == "grid":
        c["scan"] = {"start": [float(rng.uniform(-1, 1) * ext[0]), float(rng.uniform(-1, 1) * ext[1])],
                     "extent": [float(rng.uniform(0.1, 1.2) * ext[0]), float(rng.uniform(0.1, 1.2) * ext[1])],
                     "gpts": [int(rng.integers(1, 4)), int(rng.integers(1, 4))], "endpoint": bool(rng.random() < 0.5)}
        if c["scan"]["endpoint"]:
            c["scan"]["gpts"] = [max(2, x) for x in c["scan"]["gpts"]]
    if via == "line":
        c["scan"] = {"start": [float(rng.uniform(-1, 1) * ext[0]), float(rng.uniform(-1, 1) * ext[1])],
                     "end": [float(rng.uniform(-1, 2) * ext[0]), float(rng.uniform(1.1, 2) * ext[1])],
                     "gpts": int(rng.integers(2, 6)), "endpoint": bool(rng.random() < 0.5)}
    return c


def gen(rng, tier):
    k = rng.random()
    if k < 0.4:
        return gen_grid(rng)
    if k < 0.8:
        return gen_line(rng)
    return gen_probe(rng)


def fixed_cases(tier):
    return [
        {"kind": "grid", "start": [0.0, 0.0], "extent": [2.0, 3.0], "gpts": [4, 3], "endpoint": False, "precision": "float32",
         "edits": []},
        {"kind": "grid", "start": [-1.0, 2.0], "extent": [2.0, 3.0], "gpts": [5, 2], "endpoint": True, "precision": "float64",
         "edits": [{"op": "end", "d": [1.0, 1.0]}, {"op": "gpts", "v": [3, 7]}]},
        {"kind": "grid", "start": [0.5, 0.5], "extent": [2.0, 3.0], "sampling": 0.3, "endpoint": [True, False],
         "precision": "float64", "edits": [{"op": "sampling", "f": [0.11, 0.2]}]},
        {"kind": "line", "start": [1.0, 1.0], "end": [3.0, 2.0], "gpts": 5, "endpoint": True, "precision": "float32", "edits": []},
        {"kind": "line", "start": [3.0, 1.0], "end": [-3.0, -2.0], "gpts": 6, "endpoint": False, "precision": "float64",
         "edits": [{"op": "margin", "v": 1.0}]},
        {"kind": "line", "start": [0.0, 0.0], "end": [0.0, 5.0], "sampling": 0.7, "endpoint": True, "precision": "float64",
         "edits": [{"op": "start", "d": [-1.0, 0.0]}]},
        {"kind": "probe", "gpts": [16, 16], "extent": [8.0, 8.0], "energy": 100e3, "band": 0.5, "defocus": 50.0, "astig": 30.0,
         "astig_angle": 0.3, "coma": 500.0, "coma_angle": 1.0, "positions": [{"pix": [1, 0]}, {"pix": [0, -3]},
                                                                           {"frac": [0.33, 0.71]}, {"halfpix": [2, 5]}],
         "via": "custom", "lazy": False, "precision": "float64"},
        {"kind": "probe", "gpts": [15, 22], "extent": [6.0, 9.0], "energy": 200e3, "band": 0.55, "defocus": -80.0, "astig": 10.0,
         "astig_angle": 1.3, "coma": 1500.0, "coma_angle": 4.0, "positions": [{"pix": [-17, 40]}, {"frac": [-0.2, 1.7]}],
         "via": "custom", "lazy": True, "precision": "float32"},
    ]


# --------------------------------------------------------------------------- helpers
def _potential(desc):
    import abtem
    from ase import Atoms
    atoms = Atoms("C", positions=[(0.5, 0.5, 2.0)], cell=desc["cell"], pbc=True)
    if desc["as"] == "atoms":
        return atoms
    return abtem.Potential(atoms, sampling=0.2)


def _tols(precision, *coords):
    scale = max([1.0] + [float(np.max(np.abs(np.asarray(c, dtype=float)))) for c in coords if np.size(c)])
    if precision == "float64":
        return 1e-11 * scale
    return 6e-7 * scale + 1e-6       # float32 positions (design: 1e-5 A at typical coordinates)


def _apply_edit(scan, ed, kind):
    if ed["op"] == "start":
        s = scan.start
        scan.start = (s[0] + ed["d"][0], s[1] + ed["d"][1])
    elif ed["op"] == "end":
        e = scan.end
        scan.end = (e[0] + ed["d"][0], e[1] + ed["d"][1])
    elif ed["op"] == "gpts":
        scan.gpts = tuple(ed["v"]) if kind == "grid" else ed["v"][0]
    elif ed["op"] == "sampling":
        if kind == "grid":
            ext = scan.extent
            scan.sampling = (ed["f"][0] * ext[0], ed["f"][1] * ext[1])
        else:
            scan.sampling = ed["f"][0] * scan.extent
    elif ed["op"] == "margin":
        scan.add_margin(ed["v"] if isinstance(ed["v"], float) else tuple(ed["v"]))


# --------------------------------------------------------------------------- GridScan
def judge_grid(ctx, scan, precision, stage, want_gpts=None, asked_sampling=None):
    start = np.asarray(scan.start, dtype=float)
    end = np.asarray(scan.end, dtype=float)
    gpts = tuple(int(g) for g in scan.gpts)
    samp = np.asarray(scan.sampling, dtype=float)
    ep = tuple(bool(e) for e in scan.endpoint)
    pos = np.asarray(scan.get_positions())
    tol = _tols(precision, start, end)
    d = dict(stage=stage, start=start, end=end, gpts=gpts, sampling=samp, endpoint=ep)
    ok = ctx.expect(pos.shape == gpts + (2,) and tuple(scan.shape) == gpts and len(scan) == gpts[0] * gpts[1]
                    and tuple(scan.ensemble_shape) == gpts, "grid:count", shape=list(pos.shape), **d)
    if want_gpts is not None:
        ctx.expect(gpts == tuple(want_gpts), "grid:request-honoured", want=want_gpts, **d)
    if asked_sampling is not None:
        # the grid may refine the requested sampling to fit the extent, never coarsen it
        ctx.expect(bool(np.all(np.abs(samp) <= np.abs(asked_sampling) * (1 + 1e-9))), "grid:request-honoured",
                   asked=asked_sampling, **d)
    if not ok:
        return
    x = pos[:, 0, 0].astype(float)
    y = pos[0, :, 1].astype(float)
    ctx.expect(bool(np.all(pos[..., 0] == pos[:, :1, 0]) and np.all(pos[..., 1] == pos[:1, :, 1])), "grid:mesh", **d)
    for ax, (c, name) in enumerate(((x, "x"), (y, "y"))):
        n = gpts[ax]
        ctx.close(c[0], start[ax], "grid:first-equals-start", rtol=0, atol=tol, axis=name, **d)
        want = start[ax] + samp[ax] * np.arange(n)
        ctx.close(c, want, "grid:spacing-equals-sampling", rtol=0, atol=tol * 2, axis=name, **d)
        if n > 1:
            ctx.close(np.diff(c), np.full(n - 1, samp[ax]), "grid:spacing-equals-sampling", rtol=0, atol=tol * 2,
                      axis=name, what="diff", **d)
        if ep[ax] and n == 1:
            ctx.note("one-point-endpoint-axis-not-judged")
        else:
            last = end[ax] if ep[ax] else end[ax] - samp[ax]
            ctx.close(c[-1], last, "grid:last-vs-end", rtol=0, atol=tol * 2, axis=name, **d)
        meta = scan.ensemble_axes_metadata[ax]
        coords = np.asarray(meta.coordinates(n), dtype=float)
        ctx.close(coords, c, "grid:axes-coordinates", rtol=0, atol=tol * 2, axis=name, **d)
        ctx.expect(bool(meta.endpoint) == ep[ax] and meta.units == "Å", "grid:axes-coordinates", reason="endpoint/units",
                   axis=name)
    ctx.close(scan._x_coordinates().astype(float), x, "grid:axes-coordinates", rtol=0, atol=tol, what="_x_coordinates")
    ctx.close(scan._y_coordinates().astype(float), y, "grid:axes-coordinates", rtol=0, atol=tol, what="_y_coordinates")
    lim = scan.limits
    ctx.close(np.asarray(lim, dtype=float), np.stack([start, end]), "grid:first-equals-start", rtol=0, atol=0, what="limits")
    ctx.nontrivial(max(gpts) >= 2)


def check_grid(ctx, case):
    import abtem
    with G.precision(case["precision"]):
        kw = {"endpoint": case["endpoint"] if isinstance(case["endpoint"], bool) else tuple(case["endpoint"])}
        want_gpts = None
        asked = None
        if "gpts" in case:
            kw["gpts"] = case["gpts"] if isinstance(case["gpts"], int) else tuple(case["gpts"])
            want_gpts = (case["gpts"],) * 2 if isinstance(case["gpts"], int) else tuple(case["gpts"])
        else:
            kw["sampling"] = case["sampling"] if isinstance(case["sampling"], float) else tuple(case["sampling"])
            asked = np.asarray((case["sampling"],) * 2 if isinstance(case["sampling"], float) else case["sampling"])
        if "fractional" in case:
            fr = case["fractional"]
            pot = _potential(fr)
            scan = abtem.GridScan(start=tuple(fr["start"]), end=tuple(fr["end"]), fractional=True, potential=pot, **kw)
            cell = np.asarray(fr["cell"][:2])
            want_start, want_end = np.asarray(fr["start"]) * cell, np.asarray(fr["end"]) * cell
            if asked is not None:
                asked = None   # the request was drawn relative to another extent
        else:
            want_start = np.asarray(case["start"])
            want_end = want_start + np.asarray(case["extent"])
            scan = abtem.GridScan(start=tuple(want_start), end=tuple(want_end), **kw)
        ctx.close(np.asarray(scan.start, dtype=float), want_start, "grid:first-equals-start", rtol=1e-12, atol=1e-12,
                  what="reported start")
        ctx.close(np.asarray(scan.end, dtype=float), want_end, "grid:last-vs-end", rtol=1e-12, atol=1e-12, what="reported end")
        judge_grid(ctx, scan, case["precision"], "constructed", want_gpts, asked)
        for i, ed in enumerate(case["edits"]):
            if ed["op"] == "gpts" and any(scan.endpoint) and min(ed["v"]) < 2:
                continue
            try:
                _apply_edit(scan, ed, "grid")
            except RuntimeError as e:
                # refused edit (locked grid quantity): state must still be consistent
                ctx.note("edit-refused-" + type(e).__name__)
            judge_grid(ctx, scan, case["precision"], "edit-%d-%s" % (i, ed["op"]),
                       tuple(ed["v"]) if ed["op"] == "gpts" else None)


# --------------------------------------------------------------------------- LineScan
def judge_line(ctx, scan, precision, stage, want_gpts=None, asked_sampling=None):
    start = np.asarray(scan.start, dtype=float)
    end = np.asarray(scan.end, dtype=float)
    n = int(scan.gpts)
    samp = float(scan.sampling)
    ep = bool(scan.endpoint)
    length = float(np.linalg.norm(end - start))
    u = (end - start) / length
    pos = np.asarray(scan.get_positions())
    tol = _tols(precision, start, end)
    d = dict(stage=stage, start=start, end=end, gpts=n, sampling=samp, endpoint=ep)
    ok = ctx.expect(pos.shape == (n, 2) and tuple(scan.shape) == (n,) and len(scan) == n and scan.num_positions == n,
                    "line:count", shape=list(pos.shape), **d)
    if want_gpts is not None:
        ctx.expect(n == want_gpts, "line:request-honoured", want=want_gpts, **d)
    if asked_sampling is not None:
        # gpts = ceil(extent / asked); with endpoint the n points span n-1 steps, so the reported step may exceed the
        # request by at most the factor n/(n-1); the statement only binds the positions to the *reported* sampling
        slack = n / (n - 1.0) if (ep and n > 1) else 1.0
        ctx.expect(0 < samp <= asked_sampling * slack * (1 + 1e-9), "line:request-honoured", asked=asked_sampling, **d)
    ctx.close(float(scan.extent), length, "line:request-honoured", rtol=1e-12, what="extent", **d)
    if not ok:
        return
    p = pos.astype(float)
    ctx.close(p[0], start, "line:first-equals-start", rtol=0, atol=tol, **d)
    want = start[None] + samp * np.arange(n)[:, None] * u[None]
    ctx.close(p, want, "line:spacing-equals-sampling", rtol=0, atol=2 * tol, **d)
    if n > 1:
        steps = np.linalg.norm(np.diff(p, axis=0), axis=1)
        ctx.close(steps, np.full(n - 1, samp), "line:spacing-equals-sampling", rtol=0, atol=3 * tol, what="step length", **d)
    # every position lies on the segment's line
    off = (p - start[None]) @ np.array([-u[1], u[0]])
    ctx.close(off, np.zeros(n), "line:collinear", rtol=0, atol=2 * tol, **d)
    if ep and n == 1:
        ctx.note("one-point-endpoint-line-not-judged")
    else:
        last = end if ep else end - samp * u
        ctx.close(p[-1], last, "line:last-vs-end", rtol=0, atol=2 * tol, **d)
    meta = scan.ensemble_axes_metadata
    if ctx.expect(len(meta) == 1, "line:axes-coordinates", reason="one scan axis expected"):
        coords = np.asarray(meta[0].coordinates(n), dtype=float)
        along = (p - start[None]) @ u
        ctx.close(coords, along, "line:axes-coordinates", rtol=0, atol=2 * tol, **d)
        ctx.expect(bool(meta[0].endpoint) == ep, "line:axes-coordinates", reason="endpoint flag")
    ctx.nontrivial(n >= 2)


def check_line(ctx, case):
    import abtem
    with G.precision(case["precision"]):
        kw = {"endpoint": case["endpoint"]}
        want_gpts = asked = None
        if "gpts" in case:
            kw["gpts"] = want_gpts = case["gpts"]
        else:
            kw["sampling"] = asked = case["sampling"]
        if "at_position" in case:
            ap = case["at_position"]
            scan = abtem.LineScan.at_position(center=tuple(ap["center"]), extent=ap["extent"], angle=ap["angle"], **kw)
            a = np.deg2rad(ap["angle"])
            h = 0.5 * ap["extent"] * np.array([np.cos(a), np.sin(a)])
            want_start, want_end = np.asarray(ap["center"]) - h, np.asarray(ap["center"]) + h
        elif "fractional" in case:
            fr = case["fractional"]
            scan = abtem.LineScan(start=tuple(fr["start"]), end=tuple(fr["end"]), fractional=True, potential=_potential(fr), **kw)
            cell = np.asarray(fr["cell"][:2])
            want_start, want_end = np.asarray(fr["start"]) * cell, np.asarray(fr["end"]) * cell
            asked = None
        else:
            want_start, want_end = np.asarray(case["start"]), np.asarray(case["end"])
            scan = abtem.LineScan(start=tuple(want_start), end=tuple(want_end), **kw)
        ctx.close(np.asarray(scan.start, dtype=float), want_start, "line:first-equals-start", rtol=1e-12, atol=1e-12,
                  what="reported start")
        ctx.close(np.asarray(scan.end, dtype=float), want_end, "line:last-vs-end", rtol=1e-12, atol=1e-12, what="reported end")
        judge_line(ctx, scan, case["precision"], "constructed", want_gpts, asked)
        for i, ed in enumerate(case["edits"]):
            before = (np.asarray(scan.start, dtype=float), np.asarray(scan.end, dtype=float))
            _apply_edit(scan, ed, "line")
            if ed["op"] == "margin":
                m = (ed["v"], ed["v"]) if isinstance(ed["v"], float) else tuple(ed["v"])
                u = (before[1] - before[0]) / np.linalg.norm(before[1] - before[0])
                ctx.close(np.asarray(scan.start, dtype=float), before[0] - m[0] * u, "line:first-equals-start", rtol=0,
                          atol=1e-10, what="add_margin start")
                ctx.close(np.asarray(scan.end, dtype=float), before[1] + m[1] * u, "line:last-vs-end", rtol=0, atol=1e-10,
                          what="add_margin end")
            judge_line(ctx, scan, case["precision"], "edit-%d-%s" % (i, ed["op"]),
                       ed["v"][0] if ed["op"] == "gpts" else None)


# --------------------------------------------------------------------------- probes
def _shift_ref(p0, pix):
    """P0 shifted periodically by `pix` pixels (float), complex128, via the DFT shift theorem."""
    nx, ny = p0.shape
    kx = np.fft.fftfreq(nx)[:, None]
    ky = np.fft.fftfreq(ny)[None, :]
    f = np.fft.fft2(p0.astype(np.complex128))
    return np.fft.ifft2(f * np.exp(-2j * np.pi * (kx * pix[0] + ky * pix[1])))


def check_probe(ctx, case):
    import abtem
    from abtem.core.energy import energy2wavelength
    gpts = tuple(case["gpts"])
    ext = tuple(case["extent"])
    samp = np.array(ext) / np.array(gpts)
    lam = energy2wavelength(case["energy"])
    nyq_mrad = lam / (2 * samp.max()) * 1e3
    cutoff = case["band"] * nyq_mrad
    with G.precision(case["precision"]):
        probe = abtem.Probe(energy=case["energy"], gpts=gpts, extent=ext, semiangle_cutoff=cutoff, defocus=case["defocus"],
                            astigmatism=case["astig"], astigmatism_angle=case["astig_angle"], coma=case["coma"],
                            coma_angle=case["coma_angle"])
        p0 = G.to_numpy(probe.build(scan=abtem.CustomScan([[0.0, 0.0]]), lazy=False))
        p0 = p0.reshape(gpts)
        # the oracle needs a band-limited probe: nothing on the Nyquist rows
        f0 = np.abs(np.fft.fft2(p0.astype(np.complex128)))
        nyq = 0.0
        if gpts[0] % 2 == 0:
            nyq = max(nyq, f0[gpts[0] // 2].max())
        if gpts[1] % 2 == 0:
            nyq = max(nyq, f0[:, gpts[1] // 2].max())
        if nyq > 1e-6 * f0.max():
            ctx.note("probe-not-band-limited-skipped")
            return
        pos = []
        ongrid = []
        for p in case["positions"]:
            if "pix" in p:
                pos.append([p["pix"][0] * samp[0], p["pix"][1] * samp[1]])
                ongrid.append(tuple(p["pix"]))
            elif "halfpix" in p:
                pos.append([(p["halfpix"][0] + 0.5) * samp[0], (p["halfpix"][1] + 0.5) * samp[1]])
                ongrid.append(None)
            else:
                pos.append([p["frac"][0] * ext[0], p["frac"][1] * ext[1]])
                ongrid.append(None)
        via = case["via"]
        if via == "custom":
            scan = abtem.CustomScan(np.array(pos))
        elif via == "grid":
            s = case["scan"]
            scan = abtem.GridScan(start=tuple(s["start"]), end=(s["start"][0] + s["extent"][0], s["start"][1] + s["extent"][1]),
                                  gpts=tuple(s["gpts"]), endpoint=s["endpoint"])
        else:
            s = case["scan"]
            scan = abtem.LineScan(start=tuple(s["start"]), end=tuple(s["end"]), gpts=s["gpts"], endpoint=s["endpoint"])
        waves = probe.build(scan=scan, lazy=case["lazy"])
        if case["lazy"]:
            waves = waves.compute()
        arr = G.to_numpy(waves)
        scan_pos = np.asarray(scan.get_positions(), dtype=float)
        if not ctx.expect(arr.shape == scan_pos.shape[:-1] + gpts, "probe:axes-coordinates", reason="shape",
                          got=list(arr.shape), want=list(scan_pos.shape[:-1] + gpts)):
            return
        # axes metadata of the built waves list the scan coordinates
        meta = waves.ensemble_axes_metadata
        if via == "custom":
            vals = np.asarray(meta[0].values, dtype=float)
            ctx.close(vals, scan_pos, "probe:axes-coordinates", rtol=0, atol=_tols(case["precision"], scan_pos))
        elif via == "grid":
            for ax in range(2):
                c = np.asarray(meta[ax].coordinates(arr.shape[ax]), dtype=float)
                want = scan_pos[:, 0, 0] if ax == 0 else scan_pos[0, :, 1]
                ctx.close(c, want, "probe:axes-coordinates", rtol=0, atol=2 * _tols(case["precision"], scan_pos))
        else:
            c = np.asarray(meta[0].coordinates(arr.shape[0]), dtype=float)
            want = np.linalg.norm(scan_pos - scan_pos[:1], axis=1)
            ctx.close(c, want, "probe:axes-coordinates", rtol=0, atol=2 * _tols(case["precision"], scan_pos))
        flat = arr.reshape((-1,) + gpts)
        flat_pos = scan_pos.reshape(-1, 2)
        amp = float(np.abs(p0).max())
        f64 = case["precision"] == "float64"
        nontrivial = False
        for i, r in enumerate(flat_pos):
            pix = r / samp
            if np.any(np.abs(pix / np.array(gpts) - np.round(pix / np.array(gpts))) > 1e-6):
                nontrivial = True
            # float32: the position itself carries ~6e-8 relative error -> phase error 2*pi*k*delta
            rt = 2e-9 if f64 else 4e-5 + 4e-6 * float(np.abs(pix).max())
            og = ongrid[i] if via == "custom" else None
            if og is not None:
                ctx.close(flat[i], np.roll(p0, og, axis=(0, 1)), "probe:on-grid-roll", rtol=0, atol=rt * amp, position=r,
                          pixels=og)
            ctx.close(flat[i], _shift_ref(p0, pix), "probe:fractional-shift", rtol=0, atol=rt * amp, position=r, pixels=pix)
        # default build (no scan): the probe sits in the centre of the cell
        centre = G.to_numpy(probe.build(lazy=False)).reshape(gpts)
        ctx.close(centre, _shift_ref(p0, np.array(gpts) / 2.0), "probe:default-centre", rtol=0,
                  atol=(2e-9 if f64 else 1e-4) * amp)
        ctx.nontrivial(nontrivial)


def check(ctx, case):
    {"grid": check_grid, "line": check_line, "probe": check_probe}[case["kind"]](ctx, case)
