"""C23 Apertures and partial-coherence envelopes stay within physical bounds.

The bounds of the property are evaluated on the *real kernels* (objects with a grid -> `_evaluate_kernel()`, the module
functions `soft_aperture` / `hard_aperture` on explicit float64 angle arrays, envelopes on explicit (alpha, phi) samples,
and the kernel recovered from the real pipeline `Waves(delta).apply_ctf/apply_transform`).

Reference geometry (float64, independent of abTEM): alpha = lambda * |k| with k from numpy.fft.fftfreq, phi = arctan2(ky, kx),
angular pixel size d_x = lambda / (n_x * s_x), d_y likewise, and "half a pixel along phi" =
0.5 * sqrt((cos(phi) d_x)^2 + (sin(phi) d_y)^2) as the code defines it.  Mask boundaries are decided with a sandwich:
pixels with alpha <= cut - half - eps MUST be 1, pixels with alpha >= cut + half + eps MUST be 0 (half = 0 for a hard edge),
eps = 1e-5 (float32) / 1e-12 (float64) of the angular range; pixels inside the eps-band only have to lie in [0, 1].
The inclusive boundary of the hard aperture (alpha == cutoff -> 1) is tested on `hard_aperture` with bit-identical floats.

Histories: ONE live Aperture / TemporalEnvelope / SpatialEnvelope / CTF is evaluated, exactly one of energy / gpts / sampling /
extent / cutoff / focal spread / angular spread / a coefficient is changed (public attributes, or implicit matching to waves of
another energy or grid) and it is evaluated again; every evaluation must satisfy the bounds for the *current* parameters
(reference geometry rebuilt from the current energy and grid) and equal the kernel of a freshly built object.

Every distribution-valued parameter is also exercised with *weighted* distributions (Gaussian quadrature weights, user
weights): the member values are recomputed here; the bounds hold per member, i.e. weights must not scale an aperture or an
envelope (an envelope member is exactly 1 at zero angle whatever its weight).
"""
import math

import numpy as np

from vf.props import c21 as A

PROPERTY = "C23"
TECHNIQUE = "runtime monitoring; bound and sandwich (eps-margin) oracles on real kernels against a float64 reference geometry"
RULE = ("energies 20 keV-1 MeV; grids 1-48 points per axis (odd/even/size-1), anisotropic sampling 0.03-0.4 Angstrom; cutoff classes: "
        "inside the grid, sub-pixel, beyond the grid corner, exactly on a pixel, 0, inf, and distributions of 1-4 cutoffs; every "
        "distribution-valued parameter (cutoff, focal spread, angular spread, one aberration coefficient) is uniform, Gaussian-"
        "weighted with 'intensity' or 'amplitude' normalisation (ensemble_mean on/off) or user-weighted with weights in (0, 1]; "
        "soft and hard edges; focal spread 0-200 Angstrom (also negative, also distributions), angular spread 0-5 mrad (also exactly 0 "
        "and distributions); aberration sets of 0-25 polar coefficients scaled to 0.01-60 rad per term, one of them possibly a "
        "distribution; flip_phase on/off; float64 and float32; histories of 2-5 single-parameter changes on one live object "
        "(explicit setters or matching to waves of another energy / grid); non-trivial = aperture edge inside the grid with pixels strictly "
        "inside the 'must be 1' and 'must be 0' regions, or an envelope that drops below 0.99; distinct = distinct case signature")
CLAUSES = ["aperture-in-unit-interval", "hard-binary", "hard-one-up-to-cutoff", "hard-zero-beyond", "hard-boundary-inclusive",
           "soft-one-below-half-pixel", "soft-zero-above-half-pixel", "ensemble-evaluates", "temporal-in-unit-interval",
           "temporal-one-at-zero", "spatial-in-unit-interval", "spatial-one-at-zero", "ctf-le-aperture", "ctf-zero-where-closed",
           "pipeline-le-aperture", "infinite-cutoff-is-open", "history-state", "history-equals-fresh"]
QUICK = dict(n=170, time=40)
THOROUGH = dict(n=96000, time=480, shards=16)
ASSUMPTIONS = ["Wiener-filtered CTFs (wiener_snr != 0) are outside the quantifier of the property and are not generated",
               "user-defined weights are drawn from (0, 1] (the weights of coefficient distributions legitimately scale a CTF)"]


# --------------------------------------------------------------------------- generator
def _dist_or_scalar(rng, draw, p_dist, nonneg=False):
    """Scalar, or a 1-4 member distribution: uniform, Gaussian-weighted ('intensity'/'amplitude') or user-weighted."""
    if rng.random() < p_dist:
        a, b = draw(), draw()
        scale = abs(a - b) / 2 if a != b else max(abs(a) * 0.3, 1.0 if not nonneg else 0.05)
        return A.rand_dist(rng, (a + b) / 2, scale, nonneg=nonneg)
    return draw()


HIST_OPS = {"aperture": ("cutoff", "cutoff"), "temporal": ("focal", "focal"), "spatial": ("angular", "coeff"),
            "ctf": ("cutoff", "focal", "angular", "coeff")}


def _gen_history(rng):
    """ONE live object: evaluate, change exactly one parameter, evaluate again (see c21.rand_history)."""
    kind = str(rng.choice(["aperture", "aperture", "temporal", "spatial", "ctf", "ctf"]))
    hist = A.rand_history(rng, extra_ops=HIST_OPS[kind])
    for st in hist["steps"]:
        if "via" in st:
            st["via"] = "kernel"        # bounds are exact statements: no DFT round trip in between
    lam_h = max(A.wl_ref(e) for e in A.HIST_ENERGIES)
    lam_l = min(A.wl_ref(e) for e in A.HIST_ENERGIES)
    nyq = lam_l / (2 * max(hist["sampling"])) * 1e3            # mrad, inside the grid for every energy of the history
    symbols = [str(x) for x in rng.choice(A.SYMBOLS, size=int(rng.integers(0, 7)), replace=False)]
    coeffs = A._rand_coeffs(rng, symbols, A.history_amax(hist), lam_h)
    for st in hist["steps"]:
        if st["op"] == "cutoff":
            st["value"] = float(rng.uniform(0.1, 1.5) * nyq)
        elif st["op"] == "focal":
            st["value"] = float(rng.choice([0.0, rng.uniform(1, 200), -rng.uniform(1, 100)]))
        elif st["op"] == "angular":
            st["value"] = float(rng.choice([0.0, rng.uniform(0.05, 5)]))
        elif st["op"] == "coeff":
            sym = str(rng.choice(A.SYMBOLS))
            st.update(symbol=sym, value=A._rand_coeffs(rng, [sym], A.history_amax(hist), lam_h)[sym])
    return {"kind": "history", "obj": kind, "hist": hist, "precision": "float64" if rng.random() < 0.5 else "float32",
            "soft": bool(rng.random() < 0.5), "cutoff": float(rng.uniform(0.2, 1.2) * nyq),
            "focal_spread": float(rng.uniform(0, 100)), "angular_spread": float(rng.uniform(0, 3)), "coeffs": coeffs,
            "energy": hist["energy"], "gpts": hist["gpts"], "sampling": hist["sampling"]}


def gen(rng, tier):
    if rng.random() < 0.22:
        return _gen_history(rng)
    en = float(rng.choice([20e3, 60e3, 80e3, 100e3, 200e3, 300e3, 1e6])) if rng.random() < 0.6 else float(
        10 ** rng.uniform(math.log10(2e4), 6))
    lam = A.wl_ref(en)
    r = rng.random()
    if r < 0.1:
        g = [1, int(rng.integers(3, 40))]
        if rng.random() < 0.5:
            g = g[::-1]
    else:
        g = [int(rng.integers(2, 49)), int(rng.integers(2, 49))]
    s = [float(rng.uniform(0.03, 0.4)), float(rng.uniform(0.03, 0.4))]
    if rng.random() < 0.25:
        s[1] = s[0]
    d = [lam / (g[0] * s[0]), lam / (g[1] * s[1])]                       # angular pixel [rad]
    big = [i for i in (0, 1) if g[i] > 1]
    nyq = min(lam / (2 * s[i]) for i in big)                              # smallest Nyquist angle [rad]
    corner = A.grid_amax(g, s, lam)

    def cutoff():
        k = rng.random()
        if k < 0.55:
            return float(rng.uniform(0.05, 1.0) * nyq * 1e3)
        if k < 0.67:
            return float(rng.uniform(0.0, 1.0) * min(d) * 1e3)
        if k < 0.77:
            return float(rng.uniform(1.0, 2.0) * corner * 1e3)
        if k < 0.92:
            i = int(rng.choice(big))
            return float(int(rng.integers(0, g[i] // 2 + 1)) * d[i] * 1e3)
        return 0.0

    if rng.random() < 0.05:
        cut = "inf"
    else:
        cut = _dist_or_scalar(rng, cutoff, 0.3, nonneg=True)

    def focal():
        k = rng.random()
        if k < 0.15:
            return 0.0
        if k < 0.25:
            return float(-rng.uniform(1, 200))
        return float(rng.uniform(0, 200)) if k < 0.8 else float(10 ** rng.uniform(-1, 3.5))

    def angular():
        k = rng.random()
        if k < 0.15:
            return 0.0
        return float(rng.uniform(0, 5)) if k < 0.85 else float(10 ** rng.uniform(-3, 1.5))

    count = int(rng.choice([0, 1, 2, 3, 6, 12, 25]))
    symbols = [str(x) for x in rng.choice(A.SYMBOLS, size=count, replace=False)] if count else []
    coeffs = A._rand_coeffs(rng, symbols, corner, lam)
    if rng.random() < 0.2:
        coeffs.update({"C30": float(rng.uniform(0.3e7, 2.5e7)), "C10": float(-rng.uniform(100, 900))})
    coeff_dist = None
    mags = [x for x in coeffs if x in A.MAGNITUDES]
    if mags and rng.random() < 0.15:
        sym = str(rng.choice(mags))
        coeff_dist = [sym, A.rand_dist(rng, coeffs[sym], abs(coeffs[sym]) * float(rng.uniform(0.05, 1.0)))]
    return {"energy": en, "gpts": g, "sampling": s, "precision": "float64" if rng.random() < 0.5 else "float32",
            "soft": bool(rng.random() < 0.55), "cutoff": cut,
            "focal_spread": _dist_or_scalar(rng, focal, 0.3),
            "angular_spread": _dist_or_scalar(rng, angular, 0.3, nonneg=True),
            "coeffs": coeffs, "coeff_dist": coeff_dist, "flip_phase": bool(rng.random() < 0.1),
            "pipeline": bool(rng.random() < 0.3), "pt_seed": int(rng.integers(0, 2 ** 31))}


def fixed_cases(tier):
    out = []
    base = {"energy": 100e3, "gpts": [24, 17], "sampling": [0.1, 0.23], "focal_spread": 40.0, "angular_spread": 1.5,
            "coeffs": {"C10": -300.0, "C30": 1.0e7, "C12": 25.0, "phi12": 0.6}, "coeff_dist": None, "flip_phase": False,
            "pipeline": True, "pt_seed": 3}
    for prec in ("float64", "float32"):
        for soft in (True, False):
            for cut in (9.0, 0.0, 0.02, 500.0, "inf", {"dist": [3.0, 14.0, 3]}, {"dist": [7.0, 8.0, 1]}):
                c = dict(base)
                c.update(precision=prec, soft=soft, cutoff=cut)
                out.append(c)
    # weighted distributions (quadrature weights must never scale an aperture or an envelope)
    k = 0
    for prec in ("float64", "float32"):
        for norm in ("intensity", "amplitude"):
            for mean in (True, False):
                k += 1
                c = dict(base)
                c.update(precision=prec, soft=bool(k % 2), pt_seed=40 + k,
                         cutoff={"gauss": [1.5, 3, 9.0, 2.0, norm, mean]},
                         focal_spread={"gauss": [20.0, 3, 40.0, 3.0, norm, mean]},
                         angular_spread={"gauss": [0.3, 2, 1.5, 2.0, norm, mean]},
                         coeff_dist=["C10", {"gauss": [60.0, 3, -300.0, 2.0, norm, mean]}] if k % 2 else None)
                out.append(c)
    c = dict(base)
    c.update(precision="float64", soft=True, cutoff={"values": [4.0, 9.0], "weights": [0.2, 0.7]},
             focal_spread={"values": [10.0, 80.0, 150.0], "weights": [0.5, 1.0, 0.25]},
             angular_spread={"values": [0.0, 2.0], "weights": [0.9, 0.1]}, coeff_dist=["C12", {"values": [5.0, 50.0], "weights": [0.6, 0.4]}])
    out.append(c)
    # histories on one object: energy re-set on the same grid / matched to waves of another energy
    w = {"gpts": [24, 17], "sampling": [0.1, 0.23]}
    k = 0
    for obj in ("aperture", "temporal", "spatial", "ctf"):
        for mode in ("explicit", "match"):
            k += 1
            steps = ([{"op": "energy", "value": 300e3}, {"op": "energy", "value": 60e3},
                      {"op": {"aperture": "cutoff", "temporal": "focal", "spatial": "angular", "ctf": "cutoff"}[obj],
                       "value": {"aperture": 5.0, "temporal": 150.0, "spatial": 3.0, "ctf": 5.0}[obj]},
                      {"op": "sampling", "value": [0.12, 0.2]}, {"op": "energy", "value": 200e3}] if mode == "explicit" else
                     [dict(w, op="energy", energy=100e3, via="kernel"), dict(w, op="energy", energy=300e3, via="kernel"),
                      dict(w, op="energy", energy=60e3, via="kernel"),
                      {"op": "gpts", "energy": 60e3, "gpts": [20, 17], "sampling": [0.1, 0.23], "via": "kernel"}])
            out.append({"kind": "history", "obj": obj, "precision": "float64" if k % 2 else "float32", "soft": bool(k % 3),
                        "cutoff": 9.0, "focal_spread": 40.0, "angular_spread": 1.5,
                        "coeffs": {"C10": -300.0, "C30": 1.0e6, "C12": 25.0, "phi12": 0.6},
                        "energy": 100e3, "gpts": w["gpts"], "sampling": w["sampling"],
                        "hist": dict(w, mode=mode, energy=100e3, form=["gpts-sampling", "gpts-extent", "extent-sampling"][k % 3],
                                     steps=steps)})
    return out


# --------------------------------------------------------------------------- helpers
def _val(x):
    """Scalar or abTEM distribution from the JSON form; returns (object, list of member values computed here)."""
    if isinstance(x, dict):
        dist, values, _ = A.dist_from_json(x)
        return dist, [float(v) for v in values]
    if x == "inf":
        return np.inf, [np.inf]
    return float(x), [float(x)]


def _np(a):
    if hasattr(a, "compute"):
        a = a.compute()
    return np.asarray(a)


class Geometry:
    def __init__(self, case):
        self.g, self.s = case["gpts"], case["sampling"]
        self.lam = A.wl_ref(case["energy"])
        self.alpha, self.phi = A.grid_angles(self.g, self.s, self.lam)
        self.d = [self.lam / (self.g[0] * self.s[0]), self.lam / (self.g[1] * self.s[1])]
        self.half = 0.5 * np.sqrt((np.cos(self.phi) * self.d[0]) ** 2 + (np.sin(self.phi) * self.d[1]) ** 2)
        self.amax = float(self.alpha.max())
        self.rel = 1e-12 if case["precision"] == "float64" else 1e-5

    def regions(self, cut_mrad, soft, alpha=None, half=None):
        """(must_be_one, must_be_zero) boolean masks for a cutoff in mrad."""
        alpha = self.alpha if alpha is None else alpha
        half = self.half if half is None else half
        cut = cut_mrad * 1e-3
        if not soft:
            half = 0.0
        eps = self.rel * (cut + self.amax + max(self.d))
        return alpha <= cut - half - eps, alpha >= cut + half + eps


def _aperture_bounds(ctx, arr, geo, cuts, soft, where, alpha=None, half=None):
    """arr: (len(cuts),) + grid or grid; all aperture clauses."""
    arr = np.asarray(arr)
    if arr.ndim == 2:
        arr = arr[None]
    if not ctx.expect(arr.shape[0] == len(cuts) and np.isrealobj(arr), "aperture-in-unit-interval", where=where,
                      shape=list(arr.shape), dtype=str(arr.dtype)):
        return False
    nontrivial = False
    for i, cut in enumerate(cuts):
        a = arr[i].astype(np.float64)
        ctx.expect(np.all((a >= 0.0) & (a <= 1.0)), "aperture-in-unit-interval", where=where, cut=cut, soft=soft,
                   lo=float(np.nanmin(a)), hi=float(np.nanmax(a)), nan=bool(np.isnan(a).any()))
        if np.isinf(cut):
            ctx.expect(np.all(a == 1.0), "infinite-cutoff-is-open", where=where)
            continue
        one, zero = geo.regions(cut, soft, alpha, half)
        pre = "soft" if soft else "hard"
        if not soft:
            ctx.expect(np.all((a == 0.0) | (a == 1.0)), "hard-binary", where=where, cut=cut)
        bad1 = one & (a != 1.0)
        ctx.expect(not bad1.any(), "soft-one-below-half-pixel" if soft else "hard-one-up-to-cutoff", where=where, cut=cut,
                   n_bad=int(bad1.sum()), first=_first(bad1, a, geo, alpha), d_mrad=[x * 1e3 for x in geo.d])
        bad0 = zero & (a != 0.0)
        ctx.expect(not bad0.any(), "soft-zero-above-half-pixel" if soft else "hard-zero-beyond", where=where, cut=cut,
                   n_bad=int(bad0.sum()), first=_first(bad0, a, geo, alpha), d_mrad=[x * 1e3 for x in geo.d])
        ctx.monitor(pre + "-pixels-must-be-one", int(one.sum()))
        ctx.monitor(pre + "-pixels-must-be-zero", int(zero.sum()))
        if one.sum() > 1 and zero.sum() > 0:
            nontrivial = True
    return nontrivial


def _first(bad, a, geo, alpha):
    if not bad.any():
        return None
    alpha = geo.alpha if alpha is None else alpha
    idx = tuple(int(i) for i in np.argwhere(bad)[0])
    return {"index": list(idx), "value": float(a[idx]), "alpha_mrad": float(alpha[idx] * 1e3)}


def _unit_interval(ctx, arr, clause, **detail):
    a = np.asarray(arr)
    ok = np.isrealobj(a) and not np.isnan(a).any() and bool(np.all((a >= 0.0) & (a <= 1.0)))
    ctx.expect(ok, clause, lo=float(np.nanmin(a)) if a.size else None, hi=float(np.nanmax(a)) if a.size else None,
               nan=bool(np.isnan(a).any()), **detail)


def setup(ctx):
    import abtem  # noqa: F401  (outside the per-case watchdog)
    from abtem import transfer  # noqa: F401


# --------------------------------------------------------------------------- workload
def _history(ctx, case):
    """One live Aperture / envelope / CTF through a history of single-parameter changes; after every change the kernel must
    satisfy the bounds for the *current* parameters and equal the kernel of a freshly built object."""
    from abtem import transfer
    hist = case["hist"]
    f32 = case["precision"] == "float32"
    kind, soft = case["obj"], case["soft"]
    par = {"cutoff": float(case["cutoff"]), "focal": float(case["focal_spread"]), "angular": float(case["angular_spread"])}
    coeffs = {k: float(v) for k, v in case["coeffs"].items()}
    energy = hist["energy"]

    def build(**grid):
        if kind == "aperture":
            return transfer.Aperture(par["cutoff"], soft=soft, **grid)
        if kind == "temporal":
            return transfer.TemporalEnvelope(par["focal"], **grid)
        if kind == "spatial":
            return transfer.SpatialEnvelope(par["angular"], aberration_coefficients=dict(coeffs), **grid)
        return transfer.CTF(semiangle_cutoff=par["cutoff"], soft=soft, focal_spread=par["focal"], angular_spread=par["angular"],
                            aberration_coefficients=dict(coeffs), **grid)

    if hist["mode"] == "explicit":
        obj = build(energy=energy, **A.history_grid_kwargs(hist))
        steps = [None] + hist["steps"]
    else:
        obj = build()
        steps = hist["steps"]
    attr = {"cutoff": "semiangle_cutoff", "focal": "focal_spread", "angular": "angular_spread"}
    nontrivial = False
    for i, step in enumerate(steps):
        got = None
        if step is not None:
            op = step["op"]
            if op in attr:
                setattr(obj, attr[op], step["value"])
                par[op] = float(step["value"])
            elif op == "coeff":
                setattr(obj, step["symbol"], step["value"])
                coeffs[step["symbol"]] = float(step["value"])
            if "via" in step:
                energy = step["energy"]
                got = _np(A.history_step(obj, step, f32))
            else:
                if op == "energy":
                    energy = step["value"]
                A.history_step(obj, step, f32)
        if got is None:
            got = _np(obj._evaluate_kernel())
        ctx.expect(obj.energy == energy, "history-state", step=i, got=obj.energy, want=energy)
        if step is not None and "via" in step:
            g, smp = tuple(step["gpts"]), tuple(step["sampling"])
        else:
            g, smp = tuple(int(x) for x in obj.gpts), tuple(float(x) for x in obj.sampling)
        now = {"gpts": list(g), "sampling": list(smp), "energy": energy, "precision": case["precision"]}
        geo = Geometry(now)
        where = "history step %d (%s)" % (i, "start" if step is None else step["op"])
        if not ctx.expect(got.shape == g, "history-equals-fresh", what="shape", step=i, got=list(got.shape), want=list(g)):
            return
        grid = dict(energy=energy, gpts=g, sampling=smp)
        fresh = _np(build(**grid)._evaluate_kernel())
        ctx.close(got, fresh, "history-equals-fresh", rtol=0, atol=1e-12 if not f32 else 2e-6, scale=1.0, where=where, obj=kind)
        if kind == "aperture":
            nontrivial |= bool(_aperture_bounds(ctx, got, geo, [par["cutoff"]], soft, where))
        elif kind in ("temporal", "spatial"):
            _unit_interval(ctx, got, kind + "-in-unit-interval", where=where)
            ctx.expect(got[0, 0] == 1.0, kind + "-one-at-zero", where=where, got=float(got[0, 0]))
            nontrivial |= float(got.min()) < 0.99
        else:
            tol = 1e-12 if not f32 else 2e-6
            mod = np.abs(got.astype(np.complex128))
            apb = _np(transfer.Aperture(par["cutoff"], soft=soft, **grid)._evaluate_kernel()).astype(np.float64)
            ctx.expect(float((mod - apb * (1.0 + tol)).max()) <= tol * 1e-3, "ctf-le-aperture", where=where,
                       excess=float((mod - apb).max()))
            one, zero = geo.regions(par["cutoff"], soft)
            ctx.expect(np.all(mod[zero] == 0.0), "ctf-zero-where-closed", where=where, cut=par["cutoff"])
            # where the reference geometry says the aperture is fully open, the modulus is the product of the envelopes (<= 1)
            # and, at zero angle, exactly 1
            ctx.expect(abs(mod[0, 0] - 1.0) <= tol, "ctf-le-aperture", what="DC", where=where, got=float(mod[0, 0]))
            nontrivial |= bool(one.sum() > 1 and zero.sum() > 0)
        ctx.monitor("history-evaluations")
    ctx.nontrivial(nontrivial)


def check(ctx, case):
    import abtem
    from abtem import transfer
    from vf import gen as G

    if case.get("kind") == "history":
        with G.precision(case["precision"]):
            _history(ctx, case)
        return

    geo = Geometry(case)
    lam = geo.lam
    grid = dict(energy=case["energy"], gpts=tuple(case["gpts"]), sampling=tuple(case["sampling"]))
    soft = case["soft"]
    f32 = case["precision"] == "float32"
    nontrivial = False
    r = np.random.default_rng(case["pt_seed"])

    with G.precision(case["precision"]):
        # ------------------------------------------------------------ A. Aperture objects on the grid
        cut_obj, cuts = _val(case["cutoff"])
        ap_kernel = None
        try:
            ap = transfer.Aperture(cut_obj, soft=soft, **grid)
            ap_kernel = _np(ap._evaluate_kernel())
            ctx.expect(True, "ensemble-evaluates")
        except ValueError as e:
            ctx.expect(False, "ensemble-evaluates", what="Aperture kernel", soft=soft, cutoff=case["cutoff"], error=repr(e)[:200])
        if ap_kernel is not None:
            nontrivial |= bool(_aperture_bounds(ctx, ap_kernel, geo, cuts, soft, "Aperture._evaluate_kernel"))

        # ------------------------------------------------------------ B. module functions on explicit float64 angle arrays
        finite = [c for c in cuts if np.isfinite(c)]
        if finite:
            ang_mrad = (geo.d[0] * 1e3, geo.d[1] * 1e3)
            # alpha/phi handed over are float64; cutoff and sampling are cast to the configured precision by the code
            carr = np.asarray(finite, dtype=np.float64) * 1e-3
            for arg, sel in ((carr[0], finite[:1]), (carr, finite)):
                try:
                    got = transfer.soft_aperture(geo.alpha.copy(), geo.phi.copy(), arg, ang_mrad)
                    _aperture_bounds(ctx, got, geo, sel, True, "soft_aperture()")
                except ValueError as e:
                    ctx.expect(False, "ensemble-evaluates", what="soft_aperture()", error=repr(e)[:200])
                try:
                    got = transfer.hard_aperture(geo.alpha.copy(), arg)
                    _aperture_bounds(ctx, got, geo, sel, False, "hard_aperture()")
                except ValueError as e:
                    ctx.expect(False, "ensemble-evaluates", what="hard_aperture() with %d cutoffs" % np.size(arg),
                               error=repr(e)[:200])
            # inclusive boundary with bit-identical floats: alpha == cutoff -> 1, next float above -> 0
            c0 = float(carr[0])
            probe = np.array([[c0, np.nextafter(c0, np.inf)], [np.nextafter(c0, -np.inf) if c0 > 0 else 0.0, 0.0]])
            got = np.asarray(transfer.hard_aperture(probe.copy(), c0))
            ctx.expect(got.shape == (2, 2) and got[0, 0] == 1.0 and got[0, 1] == 0.0 and got[1, 0] == 1.0 and got[1, 1] == 1.0,
                       "hard-boundary-inclusive", cutoff=c0, got=got.tolist())
            # grid-less Aperture objects fall back to the hard edge on explicit samples
            a1 = np.concatenate([[0.0], r.uniform(0, 2 * float(carr.max()) + 1e-4, 30)])
            if len(finite) == len(cuts):
                try:
                    got = _np(transfer.Aperture(cut_obj, soft=soft, energy=case["energy"])
                              ._evaluate_from_angular_grid(a1.copy(), np.zeros_like(a1)))
                except ValueError as e:
                    got = None
                    ctx.expect(False, "ensemble-evaluates", what="grid-less Aperture on explicit samples", error=repr(e)[:200])
                if got is not None and ctx.expect(got.size == len(cuts) * a1.size, "hard-binary", what="shape",
                                                  shape=list(got.shape)):
                    got = got.astype(float).reshape(len(cuts), a1.size)
                    for i, cut in enumerate(cuts):
                        ci = cut * 1e-3
                        eps = 1e-12 * (ci + 1e-4)
                        a = got[i]
                        ctx.expect(np.all((a == 0) | (a == 1)), "hard-binary", where="grid-less Aperture")
                        ctx.expect(np.all(a[a1 <= ci - eps] == 1.0), "hard-one-up-to-cutoff", where="grid-less Aperture", cut=ci)
                        ctx.expect(np.all(a[a1 >= ci + eps] == 0.0), "hard-zero-beyond", where="grid-less Aperture", cut=ci)

        # ------------------------------------------------------------ D. temporal envelope
        fs_obj, fs_vals = _val(case["focal_spread"])
        te = transfer.TemporalEnvelope(fs_obj, **grid)
        k = _np(te._evaluate_kernel())
        _unit_interval(ctx, k, "temporal-in-unit-interval", where="grid", focal_spread=case["focal_spread"])
        ctx.expect(np.all(k[..., 0, 0] == 1.0), "temporal-one-at-zero", where="grid", got=np.ravel(k[..., 0, 0])[:4].tolist())
        ctx.expect(k.shape == ((len(fs_vals),) if isinstance(case["focal_spread"], dict) else ()) + tuple(case["gpts"]),
                   "temporal-in-unit-interval", what="shape", shape=list(k.shape))
        a1 = np.concatenate([[0.0, 0.0], r.uniform(0, geo.amax * 1.5, 40)])
        p1 = np.concatenate([[0.0, 2.0], r.uniform(-math.pi, math.pi, 40)])
        te0 = transfer.TemporalEnvelope(fs_obj, energy=case["energy"])
        k1 = _np(te0._evaluate_from_angular_grid(a1.copy(), p1.copy()))
        _unit_interval(ctx, k1, "temporal-in-unit-interval", where="explicit")
        ctx.expect(np.all(k1[..., :2] == 1.0), "temporal-one-at-zero", where="explicit")
        if float(np.min(k)) < 0.99:
            nontrivial = True

        # ------------------------------------------------------------ E. spatial envelope
        coeffs = dict(case["coeffs"])
        ab_args = dict(coeffs)
        if case["coeff_dist"]:
            cd = case["coeff_dist"]
            ab_args[cd[0]] = A.dist_from_json(cd[1] if len(cd) == 2 else {"dist": cd[1:]})[0]
        as_obj, as_vals = _val(case["angular_spread"])
        se = transfer.SpatialEnvelope(as_obj, aberration_coefficients=ab_args, **grid)
        k = _np(se._evaluate_kernel())
        _unit_interval(ctx, k, "spatial-in-unit-interval", where="grid", angular_spread=case["angular_spread"])
        ctx.expect(np.all(k[..., 0, 0] == 1.0), "spatial-one-at-zero", where="grid", got=np.ravel(k[..., 0, 0])[:4].tolist())
        se0 = transfer.SpatialEnvelope(as_obj, aberration_coefficients=ab_args, energy=case["energy"])
        k1 = _np(se0._evaluate_from_angular_grid(a1.copy(), p1.copy()))
        _unit_interval(ctx, k1, "spatial-in-unit-interval", where="explicit")
        ctx.expect(np.all(k1[..., :2] == 1.0), "spatial-one-at-zero", where="explicit")
        if float(np.min(k)) < 0.99:
            nontrivial = True

        # ------------------------------------------------------------ F. full CTF
        tol = 1e-12 if not f32 else 2e-6
        ctf_kernel = None
        try:
            ctf = transfer.CTF(semiangle_cutoff=cut_obj, soft=soft, focal_spread=fs_obj, angular_spread=as_obj,
                               aberration_coefficients=ab_args, flip_phase=case["flip_phase"], **grid)
            ctf_kernel = _np(ctf._evaluate_kernel())
            ctx.expect(True, "ensemble-evaluates")
        except ValueError as e:
            ctx.expect(False, "ensemble-evaluates", what="CTF kernel", soft=soft, cutoff=case["cutoff"], error=repr(e)[:200])
        if ctf_kernel is not None:
            mod = np.abs(ctf_kernel.astype(np.complex128))
            ctx.expect(not np.isnan(mod).any() and float(mod.max()) <= 1.0 + tol, "ctf-le-aperture", what="|CTF| <= 1",
                       hi=float(np.nanmax(mod)))
            if ap_kernel is not None:
                apb = ap_kernel.astype(np.float64)
                ok_shape = True
                try:
                    np.broadcast_shapes(mod.shape, apb.shape)
                except ValueError:
                    ok_shape = False
                if ctx.expect(ok_shape and mod.shape[-apb.ndim:] == apb.shape, "ctf-le-aperture", what="shape",
                              ctf=list(mod.shape), aperture=list(apb.shape)):
                    excess = mod - apb * (1.0 + tol)
                    ctx.expect(float(excess.max()) <= tol * 1e-3, "ctf-le-aperture", excess=float(excess.max()),
                               cutoff=case["cutoff"], soft=soft)
                    closed = np.broadcast_to(apb == 0.0, mod.shape)
                    ctx.expect(np.all(mod[closed] == 0.0), "ctf-zero-where-closed", n_closed=int(closed.sum()))
                    ctx.monitor("ctf-pixels-compared", int(mod.size))
            # independent of the Aperture object: the reference geometry
            gp = tuple(case["gpts"])
            if isinstance(case["cutoff"], dict) and mod.ndim >= 3 and mod.shape[-3:] == (len(cuts),) + gp:
                m3 = mod.reshape((-1, len(cuts)) + gp)
                for i, cut in enumerate(cuts):
                    _, zero = geo.regions(cut, soft)
                    ctx.expect(np.all(m3[:, i][:, zero] == 0.0), "ctf-zero-where-closed", where="reference", cut=cut)
            elif not isinstance(case["cutoff"], dict) and np.isfinite(cuts[0]) and mod.shape[-2:] == gp:
                _, zero = geo.regions(cuts[0], soft)
                flat = mod.reshape((-1,) + gp)
                ctx.expect(np.all(flat[:, zero] == 0.0), "ctf-zero-where-closed", where="reference", cut=cuts[0])

            # observation only: the Wiener-filtered CTF is outside the quantifier of C23
            if ap_kernel is not None and not isinstance(case["cutoff"], dict) and case["pt_seed"] % 8 == 0:
                try:
                    wk = np.abs(_np(transfer.CTF(semiangle_cutoff=cut_obj, soft=soft, aberration_coefficients=coeffs,
                                                 wiener_snr=2.0, **grid)._evaluate_kernel()).astype(np.complex128))
                    over = bool(np.nanmax(wk - ap_kernel.astype(np.float64)) > 1e-3) or bool(np.isnan(wk).any())
                    ctx.note("wiener-ctf-exceeds-aperture" if over else "wiener-ctf-within-aperture")
                except Exception:
                    ctx.note("wiener-ctf-raises")

            # -------------------------------------------------------- G. real pipeline
            if case["pipeline"] and ap_kernel is not None:
                cdt = np.complex64 if f32 else np.complex128
                arr = np.zeros(tuple(case["gpts"]), dtype=cdt)
                arr[0, 0] = 1.0
                waves = abtem.Waves(arr, energy=case["energy"], sampling=tuple(case["sampling"]))
                try:
                    out = _np(waves.apply_ctf(transfer.CTF(semiangle_cutoff=cut_obj, soft=soft, focal_spread=fs_obj,
                                                           angular_spread=as_obj, aberration_coefficients=ab_args,
                                                           flip_phase=case["flip_phase"])).array)
                    got = np.abs(np.fft.fft2(out.astype(np.complex128)))
                    ptol = 1e-10 if not f32 else 2e-5
                    apb = ap_kernel.astype(np.float64)
                    if ctx.expect(got.shape[-apb.ndim:] == apb.shape, "pipeline-le-aperture", what="shape", got=list(got.shape)):
                        ctx.expect(float((got - apb).max()) <= ptol, "pipeline-le-aperture", excess=float((got - apb).max()))
                    out2 = _np(waves.apply_transform(transfer.Aperture(cut_obj, soft=soft)).array)
                    got2 = np.fft.fft2(out2.astype(np.complex128))
                    ctx.close(got2, apb.reshape(got2.shape), "pipeline-le-aperture", rtol=0, atol=ptol, scale=1.0, what="aperture alone")
                    ctx.monitor("pipeline-runs")
                except (ValueError, RuntimeError) as e:
                    ctx.expect(False, "ensemble-evaluates", what="apply_ctf / apply_transform pipeline", soft=soft,
                               cutoff=case["cutoff"], error=repr(e)[:200])
    ctx.nontrivial(nontrivial)
