"""C05 Built probes and plane waves are normalized.

Oracle: direct float64 DFT.  Every member psi of the array returned by the real `Probe.build` /
`PlaneWave.build` (eager or computed lazy graph) is transformed with the unnormalised
`numpy.fft.fft2` in complex128 and

  probe-unit-intensity        sum_k |FFT(psi)|^2 == 1          (any aperture, aberrations, tilt, positions)
  planewave-normalized        sum_k |FFT(psi)|^2 == 1          (PlaneWave(normalize=True))
  planewave-unit-modulus      |psi(r)| == 1 at every pixel     (PlaneWave(normalize=False))
  ensemble-shape              the built array has one member per combination of the requested parameter values
                              (nothing is dropped or merged, so "every probe" really is every probe)
  pipeline-incident-wave      the same predicates on the incident waves that abTEM itself builds inside
                              `Probe.multislice` / `Probe.scan` / `PlaneWave.multislice` (hook on
                              `abtem.multislice.multislice_and_detect`, eager and inside dask tasks), with the
                              number of members seen by the hook equal to the requested ensemble size

  joint-compute-normalized / joint-compute-equals-separate
                              2-3 *lazy* builders of one class (same grid, different energy / normalize flag / aperture /
                              aberrations / tilt / positions) evaluated in ONE dask computation - dask.compute(*arrays),
                              abtem.stack([...]).compute(), a lazy intensity difference, or after one more lazy multislice
                              layer - must each keep their own normalisation and equal the eager build of a fresh builder
                              (a dask key shared between builders would hand one builder's waves to the other)

An exception out of `build` for a documented argument combination is a violation (the promised probe was
not delivered).  Degenerate apertures that contain no Fourier pixel at all (0/0) are not judged: the
generator keeps ring apertures at least two reciprocal pixels wide and the check counts the pixels of the
ring with its own k-grid before judging.
"""
import numpy as np

from vf import gen as G
from vf import lib_wave as L

PROPERTY = "C05"
TECHNIQUE = "runtime monitoring; direct float64 DFT oracle on every member of built probe / plane-wave ensembles, plus a hook on the incident waves inside real multislice pipelines"
RULE = ("Probe: grids 1-64 odd/even/rectangular, anisotropic extent 3-30 A, energies 20-1000 keV, aperture = cutoff 2-60 mrad "
        "soft/hard incl. below one reciprocal pixel, exactly on a pixel radius and beyond the grid, distributions of cutoffs "
        "(soft and hard), Vortex, Bullseye, AnnularAperture; aberrations = random subset up to the full polar set C10..C56 "
        "with phases up to +-10 rad at the aperture edge, given by symbol or alias, up to two of them as weighted "
        "distributions (from_values with non-unit weights, uniform, gaussian); tilt none/base/per-axis distributions/Nx2; "
        "positions none/custom 1-20 incl. off-grid, negative and outside the cell/GridScan/LineScan; eager/lazy with "
        "max_batch auto or small; float32/float64; built directly or inside multislice/scan pipelines. PlaneWave: "
        "normalize True/False, same tilts, grids incl. size-1 axes. Joint: 2-3 lazy builders of one class on one grid with "
        "different parameters computed together (dask.compute / stack / lazy difference / after vacuum multislice). non-trivial = probe with non-zero aberrations or tilt or "
        ">=2 positions, plane wave with >=2 pixels; distinct = distinct case signature")
CLAUSES = ["probe-unit-intensity", "planewave-normalized", "planewave-unit-modulus", "ensemble-shape", "pipeline-incident-wave",
           "joint-compute-normalized", "joint-compute-equals-separate"]
QUICK = dict(n=700, time=30)
THOROUGH = dict(n=119400, time=480, shards=16)

TOL = {"float32": 1e-5, "float64": 2e-12}
POLAR = {"C10": 1, "C12": 1, "C21": 2, "C23": 2, "C30": 3, "C32": 3, "C34": 3, "C41": 4, "C43": 4, "C45": 4,
         "C50": 5, "C52": 5, "C54": 5, "C56": 5}
ANGLE_OF = {"C12": "phi12", "C21": "phi21", "C23": "phi23", "C32": "phi32", "C34": "phi34", "C41": "phi41", "C43": "phi43",
            "C45": "phi45", "C52": "phi52", "C54": "phi54", "C56": "phi56"}
ALIAS = {"C10": "defocus", "C30": "Cs", "C50": "C5", "C12": "astigmatism", "phi12": "astigmatism_angle", "C32": "astigmatism3",
         "phi32": "astigmatism3_angle", "C52": "astigmatism5", "phi52": "astigmatism5_angle", "C21": "coma", "phi21": "coma_angle",
         "C41": "coma4", "phi41": "coma4_angle", "C23": "trefoil", "phi23": "trefoil_angle", "C43": "trefoil4",
         "phi43": "trefoil4_angle", "C34": "quadrafoil", "phi34": "quadrafoil_angle", "C54": "quadrafoil5",
         "phi54": "quadrafoil5_angle", "C45": "pentafoil", "phi45": "pentafoil_angle", "C56": "hexafoil", "phi56": "hexafoil_angle"}


# ------------------------------------------------------------------------------------------------ generation
def _tilt_spec(rng):
    r = rng.random()
    t = lambda: float(np.round(rng.uniform(-40, 40), 3))  # noqa: E731
    if r < 0.4:
        return {"kind": "none"}
    if r < 0.6:
        return {"kind": "base", "t": [t(), t()]}
    if r < 0.8:
        nx, ny = int(rng.integers(1, 4)), int(rng.integers(0, 3))
        return {"kind": "axes", "x": [t() for _ in range(nx)], "y": [t() for _ in range(ny)] if ny else t()}
    return {"kind": "pairs", "t": [[t(), t()] for _ in range(int(rng.integers(1, 4)))]}


def _tilt_size(spec):
    if spec["kind"] == "axes":
        return len(spec["x"]) * (len(spec["y"]) if isinstance(spec["y"], list) else 1)
    if spec["kind"] == "pairs":
        return len(spec["t"])
    return 1


def _tilt_shape(spec):
    if spec["kind"] == "axes":
        return (len(spec["x"]),) + ((len(spec["y"]),) if isinstance(spec["y"], list) else ())
    if spec["kind"] == "pairs":
        return (len(spec["t"]),)
    return ()


def _tilt_arg(spec):
    from abtem import distributions as D
    k = spec["kind"]
    if k == "none":
        return (0.0, 0.0)
    if k == "base":
        return tuple(spec["t"])
    if k == "axes":
        return (D.from_values(spec["x"]), D.from_values(spec["y"]) if isinstance(spec["y"], list) else spec["y"])
    return np.array(spec["t"], dtype=float)


def _grid(rng, lo=1):
    def n():
        return int(rng.choice([lo, 2, 3, 8, 15, 16, 31, 32, 48, 64, int(rng.integers(max(lo, 4), 65))]))
    g = [n(), n()]
    if rng.random() < 0.3:
        g[1] = g[0]
    ex = float(rng.uniform(3, 30))
    extent = [ex, ex if rng.random() < 0.4 else float(ex * rng.uniform(0.4, 2.5))]
    return g, extent


def _dist(rng, centre, width):
    r = rng.random()
    n = int(rng.integers(1, 4))
    if r < 0.5:
        vals = (centre + width * rng.uniform(-1, 1, size=n)).tolist()
        return {"type": "values", "values": vals, "weights": rng.uniform(0.1, 3.0, size=n).round(3).tolist()}
    if r < 0.75:
        return {"type": "uniform", "low": float(centre - width), "high": float(centre + width), "n": n,
                "endpoint": bool(rng.random() < 0.5)}
    return {"type": "gaussian", "std": float(abs(width) / 2 + 1e-3), "n": n + 1, "center": float(centre),
            "ensemble_mean": bool(rng.random() < 0.5)}


def _dist_len(d):
    return len(d["values"]) if d["type"] == "values" else d["n"]


def _dist_arg(d):
    from abtem import distributions as D
    if d["type"] == "values":
        return D.from_values(d["values"], weights=np.array(d["weights"]))
    if d["type"] == "uniform":
        return D.uniform(d["low"], d["high"], d["n"], endpoint=d["endpoint"])
    return D.gaussian(d["std"], d["n"], center=d["center"], ensemble_mean=d["ensemble_mean"])


def gen_probe(rng):
    gpts, extent = _grid(rng, lo=1)
    energy = float(np.exp(rng.uniform(np.log(2e4), np.log(1e6))))
    lam = L.wavelength(energy)
    ang = [lam / e * 1e3 for e in extent]                       # angular pixel [mrad]
    amax = min(g // 2 * a for g, a in zip(gpts, ang))           # largest angle on the grid
    r = rng.random()
    if r < 0.55:
        cutoff = float(rng.uniform(2, 60))
    elif r < 0.65:
        cutoff = float(0.3 * min(ang))                           # below one reciprocal pixel
    elif r < 0.8:
        cutoff = float(int(rng.integers(1, 6)) * ang[int(rng.integers(0, 2))])   # exactly on a pixel radius
    elif r < 0.9:
        cutoff = float(max(2.0 * amax, 1.0))                     # beyond the grid
    else:
        cutoff = float(rng.uniform(0.5, 0.95) * max(amax, min(ang)))
    at = rng.random()
    if at < 0.62:
        ap = {"type": "cutoff", "cutoff": cutoff, "soft": bool(rng.random() < 0.6)}
    elif at < 0.8:
        n = int(rng.integers(1, 4))
        ap = {"type": "cutoff-dist", "cutoffs": (cutoff * rng.uniform(0.5, 1.5, size=n)).tolist(), "soft": bool(rng.random() < 0.5)}
    elif at < 0.87:
        ap = {"type": "vortex", "cutoff": cutoff, "m": int(rng.integers(-3, 4)), "soft": bool(rng.random() < 0.5)}
    elif at < 0.94:
        ap = {"type": "bullseye", "cutoff": cutoff, "spokes": int(rng.integers(1, 7)), "spoke_width": float(rng.uniform(2, 30)),
              "rings": int(rng.integers(1, 4)), "ring_width": float(cutoff * rng.uniform(0.02, 0.2))}
    else:
        outer = max(cutoff, 4.0 * max(ang))
        ap = {"type": "annular", "cutoff": float(outer), "inner": float(outer * rng.uniform(0.0, 0.45))}
    # aberrations
    ref = max(min(cutoff, amax if amax > 0 else cutoff), min(ang)) * 1e-3
    nab = int(rng.choice([0, 1, 2, 4, len(POLAR)]))
    names = [str(s) for s in rng.choice(list(POLAR), size=nab, replace=False)]
    coeffs, dists = {}, {}
    for s in names:
        order = POLAR[s]
        size = 10.0 * lam * (order + 1) / (2 * np.pi * ref ** (order + 1))      # 10 rad at the reference angle
        coeffs[s] = float(rng.uniform(-1, 1) * size)
        if s in ANGLE_OF:
            coeffs[ANGLE_OF[s]] = float(rng.uniform(0, 2 * np.pi))
    for s in names[:2]:
        if rng.random() < 0.35:
            target = s if (s not in ANGLE_OF or rng.random() < 0.7) else ANGLE_OF[s]
            dists[target] = _dist(rng, coeffs[target], abs(coeffs[target]) * 0.5 + (0.3 if target.startswith("phi") else 0.0))
    st = rng.random()
    if st < 0.25:
        scan = {"type": "none"}
    elif st < 0.8:
        n = int(rng.choice([1, 1, 2, 3, 7, 20]))
        pos = rng.uniform(-1.5, 2.5, size=(n, 2))
        if rng.random() < 0.3:
            pos[0] = np.round(pos[0] * np.array(gpts)) / np.array(gpts)     # exactly on a grid point
        scan = {"type": "custom", "positions": pos.round(6).tolist()}
    elif st < 0.92:
        ep = bool(rng.random() < 0.5)       # one-point scans with endpoint=True are the degenerate grid of C17: not judged here
        scan = {"type": "grid", "start": rng.uniform(-0.5, 0.5, 2).round(4).tolist(), "end": rng.uniform(0.6, 1.5, 2).round(4).tolist(),
                "gpts": [int(rng.integers(2 if ep else 1, 5)), int(rng.integers(2 if ep else 1, 5))], "endpoint": ep}
    else:
        scan = {"type": "line", "start": rng.uniform(-0.5, 0.5, 2).round(4).tolist(), "end": rng.uniform(0.6, 1.5, 2).round(4).tolist(),
                "gpts": int(rng.integers(2, 8)), "endpoint": bool(rng.random() < 0.5)}
    lazy = bool(rng.random() < 0.45)
    via = str(rng.choice(["build", "build", "build", "multislice", "scan"]))
    if via == "scan" and scan["type"] == "none":
        via = "build"       # Probe.scan without positions = Nyquist grid scan of the whole cell (thousands of probes)
    return {"kind": "probe", "gpts": gpts, "extent": extent, "energy": energy, "aperture": ap, "coeffs": coeffs, "dists": dists,
            "alias": bool(rng.random() < 0.3), "tilt": _tilt_spec(rng), "scan": scan, "lazy": lazy,
            "max_batch": "auto" if rng.random() < 0.5 else int(rng.integers(1, 6)),
            "precision": str(rng.choice(["float32", "float32", "float64"])),
            "via": via}


def gen_plane(rng):
    gpts, extent = _grid(rng, lo=1)
    return {"kind": "plane", "gpts": gpts, "extent": extent, "energy": float(np.exp(rng.uniform(np.log(2e4), np.log(1e6)))),
            "normalize": bool(rng.random() < 0.5), "tilt": _tilt_spec(rng), "lazy": bool(rng.random() < 0.5),
            "precision": str(rng.choice(["float32", "float64"])), "via": str(rng.choice(["build", "build", "multislice"]))}


def gen_joint(rng, cls=None, route=None):
    """2-3 lazy builders of one class on one grid with different parameters, evaluated in ONE dask computation."""
    cls = cls or str(rng.choice(["probe", "plane"]))
    route = route or str(rng.choice(["compute", "compute", "stack", "difference", "multislice"]))
    gpts, extent = _grid(rng, lo=2)
    n = 2 if route == "difference" else int(rng.integers(2, 4))
    npos = int(rng.integers(1, 4))
    same_shape = route != "compute" or rng.random() < 0.6      # stack / arithmetic need equal shapes
    tilt0 = _tilt_spec(rng)
    members = []
    for i in range(n):
        m = gen_plane(rng) if cls == "plane" else gen_probe(rng)
        m.update(gpts=gpts, extent=extent, lazy=True, via="build")
        if cls == "plane":
            m["normalize"] = bool(i % 2 == 0) if rng.random() < 0.8 else bool(rng.random() < 0.5)
        else:
            if m["aperture"]["type"] in ("annular", "bullseye"):
                m["aperture"] = {"type": "cutoff", "cutoff": float(rng.uniform(5, 40)), "soft": bool(rng.random() < 0.5)}
        if same_shape:
            # same ensemble shape (hence the same dask chunk structure) for every member, different values
            t = _tilt_spec(rng)
            while t["kind"] != tilt0["kind"] or _tilt_shape(t) != _tilt_shape(tilt0):
                t = _tilt_spec(rng)
            m["tilt"] = t
            if cls == "probe":
                m["dists"] = {}
                if m["aperture"]["type"] == "cutoff-dist":
                    m["aperture"] = {"type": "cutoff", "cutoff": float(m["aperture"]["cutoffs"][0]), "soft": m["aperture"]["soft"]}
                m["scan"] = {"type": "custom", "positions": rng.uniform(-0.5, 1.5, size=(npos, 2)).round(5).tolist()}
                m["max_batch"] = "auto"
        members.append(m)
    prec = str(rng.choice(["float32", "float32", "float64"]))
    for m in members:
        m["precision"] = prec
    return {"kind": "joint", "cls": cls, "route": route, "members": members, "precision": prec}


def gen(rng, tier):
    r = rng.random()
    if r < 0.12:
        return gen_joint(rng)
    return gen_probe(rng) if r < 0.82 else gen_plane(rng)


def fixed_cases(tier):
    rng = np.random.default_rng(5)
    out = []
    full = {}
    for s, order in POLAR.items():
        full[s] = float(3.0 * 0.037 * (order + 1) / (2 * np.pi * 0.02 ** (order + 1)))
        if s in ANGLE_OF:
            full[ANGLE_OF[s]] = 0.7
    base = {"kind": "probe", "gpts": [33, 40], "extent": [8.0, 9.5], "energy": 100e3, "coeffs": full, "dists": {},
            "alias": False, "tilt": {"kind": "axes", "x": [-5.0, 0.0, 5.0], "y": 2.0}, "lazy": False, "max_batch": "auto",
            "precision": "float32", "via": "build",
            "scan": {"type": "custom", "positions": [[0.013, 0.02], [-0.4, 2.1], [0.5, 0.5]]}}
    out.append(dict(base, aperture={"type": "cutoff", "cutoff": 20.0, "soft": True},
                    dists={"C10": {"type": "values", "values": [10.0, 50.0, 200.0], "weights": [0.2, 3.0, 1.0]}}))
    out.append(dict(base, aperture={"type": "cutoff-dist", "cutoffs": [5.0, 20.0, 70.0], "soft": True}, lazy=True))
    out.append(dict(base, aperture={"type": "cutoff-dist", "cutoffs": [5.0, 20.0, 70.0], "soft": False}))
    out.append(dict(base, aperture={"type": "cutoff", "cutoff": 20.0, "soft": False}, via="multislice", lazy=True, max_batch=2))
    out.append(dict(base, aperture={"type": "cutoff", "cutoff": 15.0, "soft": True}, via="scan", precision="float64",
                    tilt={"kind": "pairs", "t": [[1.0, 2.0], [3.0, -4.0]]}))
    for cls, route in (("plane", "compute"), ("plane", "stack"), ("probe", "compute"), ("probe", "difference"),
                       ("plane", "multislice"), ("probe", "stack")):
        out.append(gen_joint(rng, cls=cls, route=route))
    for norm in (True, False):
        for lazy in (False, True):
            out.append({"kind": "plane", "gpts": [7, 12], "extent": [3.0, 4.0], "energy": 100e3, "normalize": norm,
                        "tilt": {"kind": "axes", "x": [-5.0, 0.0, 5.0], "y": 2.0}, "lazy": lazy, "precision": "float32",
                        "via": "multislice" if lazy else "build"})
    return out


# ------------------------------------------------------------------------------------------------ oracles
def dft_totals(arr):
    """sum_k |FFT(psi)|^2 per member: unnormalised complex128 numpy DFT, member by member."""
    a = np.asarray(arr)
    flat = a.reshape((-1,) + a.shape[-2:])
    out = np.empty(len(flat))
    for i, m in enumerate(flat):
        f = np.fft.fft2(m.astype(np.complex128))
        out[i] = float((f.real ** 2 + f.imag ** 2).sum())
    return out


def modulus_dev(arr):
    a = np.asarray(arr)
    flat = a.reshape((-1,) + a.shape[-2:])
    worst = 0.0
    for m in flat:
        worst = max(worst, float(np.abs(np.abs(m.astype(np.complex128)) - 1.0).max()))
    return worst


def ring_pixels(case):
    """Number of Fourier pixels strictly inside the ring of an annular aperture (own k-grid, 2% margin)."""
    ap = case["aperture"]
    lam = L.wavelength(case["energy"])
    samp = [e / g for e, g in zip(case["extent"], case["gpts"])]
    alpha = L.kradius(case["gpts"], samp) * lam * 1e3
    return int(((alpha > ap["inner"] * 1.02) & (alpha < ap["cutoff"] * 0.98)).sum())


# ------------------------------------------------------------------------------------------------ workload
def _aperture(case):
    from abtem import transfer as T
    from abtem import distributions as D
    ap = case["aperture"]
    t = ap["type"]
    if t == "cutoff":
        return {"semiangle_cutoff": ap["cutoff"], "soft": ap["soft"]}, 1
    if t == "cutoff-dist":
        return {"semiangle_cutoff": D.from_values(ap["cutoffs"]), "soft": ap["soft"]}, len(ap["cutoffs"])
    if t == "vortex":
        return {"aperture": T.Vortex(quantum_number=ap["m"], semiangle_cutoff=ap["cutoff"], soft=ap["soft"])}, 1
    if t == "bullseye":
        return {"aperture": T.Bullseye(num_spokes=ap["spokes"], spoke_width=ap["spoke_width"], num_rings=ap["rings"],
                                       ring_width=ap["ring_width"], semiangle_cutoff=ap["cutoff"])}, 1
    return {"aperture": T.AnnularAperture(inner_cutoff=ap["inner"], semiangle_cutoff=ap["cutoff"])}, 1


def _scan(case):
    import abtem
    sc = case["scan"]
    ext = np.array(case["extent"])
    if sc["type"] == "none":
        return None, 1
    if sc["type"] == "custom":
        pos = np.array(sc["positions"]) * ext
        return abtem.CustomScan(pos), len(pos)
    if sc["type"] == "grid":
        return abtem.GridScan(start=tuple(np.array(sc["start"]) * ext), end=tuple(np.array(sc["end"]) * ext),
                              gpts=tuple(sc["gpts"]), endpoint=sc["endpoint"]), sc["gpts"][0] * sc["gpts"][1]
    return abtem.LineScan(start=tuple(np.array(sc["start"]) * ext), end=tuple(np.array(sc["end"]) * ext), gpts=sc["gpts"],
                          endpoint=sc["endpoint"]), sc["gpts"]


class Seen:
    def __init__(self):
        self.records = []      # (members, max |total-1| or None, max ||psi|-1| or None, precision)


def _hook(seen, mode):
    def make(orig):
        def multislice_and_detect(waves, potential, *args, **kwargs):
            try:
                a = np.asarray(waves._array)
                if waves._reciprocal_space:
                    seen.records.append(("reciprocal-space-input", None, None, None))
                else:
                    n = int(np.prod(a.shape[:-2], dtype=int))
                    tot = float(np.abs(dft_totals(a) - 1).max()) if mode != "modulus" else None
                    mod = modulus_dev(a) if mode == "modulus" else None
                    seen.records.append((n, tot, mod, "float64" if a.dtype == np.complex128 else "float32"))
            except Exception as e:
                seen.records.append((repr(e), None, None, None))
            return orig(waves, potential, *args, **kwargs)
        return multislice_and_detect
    return make


def _vacuum(case):
    import abtem
    dtype = np.float64 if case["precision"] == "float64" else np.float32
    return abtem.PotentialArray(np.zeros((1,) + tuple(case["gpts"]), dtype=dtype), slice_thickness=1.0, extent=tuple(case["extent"]))


def _judge_hook(ctx, seen, expected, case, mode):
    members = 0
    for n, tot, mod, prec in seen.records:
        if not isinstance(n, int):
            ctx.expect(False, "pipeline-incident-wave", error=n)
            continue
        members += n
        ctx.monitor("incident-wave-hook-evaluations")
        if mode == "modulus":
            ctx.close(mod, 0.0, "pipeline-incident-wave", rtol=0, atol=TOL[prec], what="unit modulus")
        else:
            ctx.close(tot, 0.0, "pipeline-incident-wave", rtol=0, atol=TOL[prec], what="unit reciprocal-space intensity")
    ctx.expect(members == expected, "pipeline-incident-wave", what="members seen by the hook", seen=members, expected=expected)


def _probe_builder(case):
    """(Probe, scan, expected number of members, number of positions) for a probe case; call under the case's config."""
    import abtem
    ab = {}
    for k, v in case["coeffs"].items():
        ab[ALIAS[k] if case["alias"] else k] = v
    nab = 1
    for k, d in case["dists"].items():
        ab[ALIAS[k] if case["alias"] else k] = _dist_arg(d)
        nab *= _dist_len(d)
    apkw, nap = _aperture(case)
    scan, npos = _scan(case)
    expected = _tilt_size(case["tilt"]) * nab * nap * npos
    probe = abtem.Probe(energy=case["energy"], gpts=tuple(case["gpts"]), extent=tuple(case["extent"]),
                        tilt=_tilt_arg(case["tilt"]), aberrations=ab, **apkw)
    return probe, scan, expected, npos


def check_probe(ctx, case):
    import abtem
    import abtem.multislice as ms
    gpts = tuple(case["gpts"])
    if case["aperture"]["type"] == "annular" and ring_pixels(case) < 1:
        ctx.note("degenerate-empty-ring-skipped")
        return
    with abtem.config.set({"precision": case["precision"], "diagnostics.progress_bar": False}):
        probe, scan, expected, npos = _probe_builder(case)
        kw = {"lazy": case["lazy"], "max_batch": case["max_batch"]}
        if case["via"] == "build":
            w = probe.build(scan=scan, **kw)
            arr = L.member_arrays(w)
            lead = int(np.prod(arr.shape[:-2], dtype=int))
            ctx.expect(arr.shape[-2:] == gpts and lead == expected and tuple(w.shape) == arr.shape, "ensemble-shape",
                       shape=list(arr.shape), expected_members=expected)
            tot = dft_totals(arr)
            ctx.close(tot, np.ones_like(tot), "probe-unit-intensity", rtol=0, atol=TOL[case["precision"]])
            ctx.monitor("probes-judged", len(tot))
        else:
            seen = Seen()
            with G.Wrapped() as wr:
                wr.patch(ms, "multislice_and_detect", _hook(seen, "total"))
                pot = _vacuum(case)
                if case["via"] == "multislice":
                    out = probe.multislice(pot, scan=scan, **kw)
                else:
                    out = probe.scan(pot, scan=scan, detectors=abtem.detectors.WavesDetector(), **kw)
                if hasattr(out, "compute"):
                    out = out.compute()
            if case["via"] == "scan" and scan is None:
                # Probe.scan without positions scans the potential at the probe's Nyquist sampling: size decided by abTEM
                expected = sum(n for n, *_ in seen.records if isinstance(n, int))
                ctx.note("default-grid-scan")
            _judge_hook(ctx, seen, expected, case, "total")
    nonzero = any(abs(v) > 0 for k, v in case["coeffs"].items() if not k.startswith("phi"))
    ctx.nontrivial(nonzero or case["tilt"]["kind"] != "none" or npos >= 2)


def check_plane(ctx, case):
    import abtem
    import abtem.multislice as ms
    gpts = tuple(case["gpts"])
    prec = case["precision"]
    expected = _tilt_size(case["tilt"])
    with abtem.config.set({"precision": prec, "diagnostics.progress_bar": False}):
        pw = abtem.PlaneWave(energy=case["energy"], gpts=gpts, extent=tuple(case["extent"]), normalize=case["normalize"],
                             tilt=_tilt_arg(case["tilt"]))
        if case["via"] == "build":
            w = pw.build(lazy=case["lazy"])
            arr = L.member_arrays(w)
            ctx.expect(arr.shape[-2:] == gpts and int(np.prod(arr.shape[:-2], dtype=int)) == expected, "ensemble-shape",
                       shape=list(arr.shape), expected_members=expected)
            if case["normalize"]:
                tot = dft_totals(arr)
                ctx.close(tot, np.ones_like(tot), "planewave-normalized", rtol=0, atol=TOL[prec])
            else:
                ctx.close(modulus_dev(arr), 0.0, "planewave-unit-modulus", rtol=0, atol=TOL[prec])
        else:
            seen = Seen()
            mode = "total" if case["normalize"] else "modulus"
            with G.Wrapped() as wr:
                wr.patch(ms, "multislice_and_detect", _hook(seen, mode))
                out = pw.multislice(_vacuum(case), lazy=case["lazy"])
                if hasattr(out, "compute"):
                    out = out.compute()
            _judge_hook(ctx, seen, expected, case, mode)
    ctx.nontrivial(gpts[0] * gpts[1] >= 2)


def check_joint(ctx, case):
    """Several lazy builds of one class in one dask computation: every member keeps its own normalisation and equals the
    eager build of a fresh builder with the same parameters."""
    import abtem
    import dask
    prec = case["precision"]
    ms_ = case["members"]
    with abtem.config.set({"precision": prec, "diagnostics.progress_bar": False}):
        def build(m, lazy):
            if case["cls"] == "plane":
                pw = abtem.PlaneWave(energy=m["energy"], gpts=tuple(m["gpts"]), extent=tuple(m["extent"]),
                                     normalize=m["normalize"], tilt=_tilt_arg(m["tilt"]))
                return pw.build(lazy=lazy)
            probe, scan, _, _ = _probe_builder(m)
            return probe.build(scan=scan, lazy=lazy, max_batch=m["max_batch"])
        lazies = [build(m, True) for m in ms_]
        refs = [np.asarray(build(m, False).array) for m in ms_]
        ctx.expect(all(w.is_lazy for w in lazies), "joint-compute-equals-separate", what="lazy build is lazy")
        route = case["route"]
        got = None
        if route == "compute":
            got = [np.asarray(a) for a in dask.compute(*[w.array for w in lazies])]
        elif route == "stack":
            st = abtem.stack(lazies, tuple("m%d" % i for i in range(len(lazies)))).compute()
            got = [np.asarray(st.array[i]) for i in range(len(lazies))]
        elif route == "multislice":
            # the lazily built waves travel through one more lazy layer (vacuum multislice) before the joint compute
            dtype = np.float64 if prec == "float64" else np.float32
            m0 = ms_[0]
            vac = abtem.PotentialArray(np.zeros((1,) + tuple(m0["gpts"]), dtype=dtype), slice_thickness=1.0, extent=tuple(m0["extent"]))
            outs = dask.compute(*[w.multislice(vac).array for w in lazies])
            for i, (o, m) in enumerate(zip(outs, ms_)):
                want = np.asarray(build(m, False).multislice(vac).array)       # eager build, eager multislice
                o = np.asarray(o)
                if ctx.expect(o.shape == want.shape, "joint-compute-equals-separate", member=i, shape=list(o.shape), want=list(want.shape)):
                    ctx.close(o, want, "joint-compute-equals-separate", rtol=0, atol=TOL[prec] * float(np.abs(refs[i]).max()),
                              member=i, route=route)
        else:
            d = (lazies[0].intensity() - lazies[1].intensity()).compute()
            want = np.abs(refs[0].astype(np.complex128)) ** 2 - np.abs(refs[1].astype(np.complex128)) ** 2
            scale = max(float(np.abs(refs[0]).max()), float(np.abs(refs[1]).max())) ** 2
            ctx.close(np.asarray(d.array), want, "joint-compute-equals-separate", rtol=0, atol=TOL[prec] * scale, route=route)
        if got is not None:
            for i, (g, r, m) in enumerate(zip(got, refs, ms_)):
                if not ctx.expect(g.shape == r.shape, "joint-compute-equals-separate", member=i, shape=list(g.shape), want=list(r.shape)):
                    continue
                ctx.close(g, r, "joint-compute-equals-separate", rtol=0, atol=TOL[prec] * float(np.abs(r).max()), member=i,
                          route=route)
                if case["cls"] == "plane" and not m["normalize"]:
                    ctx.close(modulus_dev(g), 0.0, "joint-compute-normalized", rtol=0, atol=TOL[prec], member=i, what="unit modulus")
                else:
                    tot = dft_totals(g)
                    ctx.close(tot, np.ones_like(tot), "joint-compute-normalized", rtol=0, atol=TOL[prec], member=i)
        else:
            ctx.clauses["joint-compute-normalized"] += 0
    ctx.monitor("joint-" + case["cls"] + "-" + case["route"])
    differ = any(not (a.shape == b.shape and np.array_equal(a, b)) for a, b in zip(refs[:-1], refs[1:]))
    ctx.nontrivial(differ)


def check(ctx, case):
    {"probe": check_probe, "plane": check_plane, "joint": check_joint}[case["kind"]](ctx, case)
