"""C03 Parameter ensembles decompose into individual scalar simulations.

Decomposition oracle.  One to three parameters of a real pipeline are given as distributions
(PlaneWave / Probe tilt per axis, as Nx2 array or as BeamTilt object; any of the 25 polar
aberration symbols or their 25 aliases incl. defocus; aperture semiangle; focal and angular
spread; probe positions) with distinct lengths (an axis swap changes shapes) or equal lengths
(it does not).  The ensemble result of the code under test (eager or lazy) is then taken apart
*through its own axis metadata*: each parameter's axis is located by label (and values), the
metadata values must be the distribution's values in order, and for every index tuple the
member found there must equal the scalar pipeline run with the values *the metadata names for
that index*.  A transposition between data and metadata therefore cannot pass.

Weighted mean.  Axes of `ensemble_mean=True` distributions must be gone from measurements and
the result must equal the float64 mean over those axes of the member measurements, where a
member is the scalar run with the distribution's amplitude weight applied where abTEM documents
it (phase-aberration kernel of CTF/Aberrations multiplies by the weights; all other parameters
are unweighted; a Probe normalises every member).  Waves are never averaged: the axis must stay.
"""
import itertools
import warnings

import numpy as np

from vf import gen as G

PROPERTY = "C03"
TECHNIQUE = "runtime monitoring; decomposition oracle (ensemble member located through the returned axis metadata vs scalar run) + float64 weighted-mean model"
RULE = ("pipelines ctf (Waves.apply_ctf by kwargs / CTF object, Aberrations, Aperture, TemporalEnvelope, SpatialEnvelope .apply), "
        "plane (PlaneWave tilt x / y / x and y / Nx2 array / BeamTilt object -> multislice, optionally followed by apply_ctf with "
        "distributions), probe (Probe tilt, aberrations, semiangle, scan positions as CustomScan / Line- and GridScan with gpts, "
        "without gpts and sampling (matched to the probe) or edited after construction -> build, multislice or scan with detector none/"
        "annular/flexible/pixelated/segmented); 1-3 simultaneous distributions, lengths 2-4 all distinct or all equal, given as "
        "from_values (with weights) / list / ndarray / uniform / gaussian, ensemble_mean per distribution, negative and zero "
        "values, every polar symbol and alias, eager or lazy with max_batch auto/1/2/3/5 (5-7 members on one axis give unequal batches), every ensemble object also partitioned directly with unequal explicit chunkings, float32 or float64; non-trivial = at least "
        "two members compared with scalar runs that differ from each other; distinct = distinct case signature")
CLAUSES = ["member:values", "axis-found", "axis-values", "axis-length", "mean:values", "mean-axis-removed",
           "waves-keep-mean-axis", "ensemble-run-completes", "position-axis", "partition", "joint-compute:values"]
QUICK = dict(n=30, time=34)
THOROUGH = dict(n=10400, time=480, shards=16)

# ---- own copy of the polar aberration table (symbol order = axis order is NOT assumed anywhere)
POLAR = ["C10", "C12", "phi12", "C21", "phi21", "C23", "phi23", "C30", "C32", "phi32", "C34", "phi34", "C41", "phi41",
         "C43", "phi43", "C45", "phi45", "C50", "C52", "phi52", "C54", "phi54", "C56", "phi56"]
ALIAS = {"defocus": "C10", "Cs": "C30", "C5": "C50", "astigmatism": "C12", "astigmatism_angle": "phi12",
         "astigmatism3": "C32", "astigmatism3_angle": "phi32", "astigmatism5": "C52", "astigmatism5_angle": "phi52",
         "coma": "C21", "coma_angle": "phi21", "coma4": "C41", "coma4_angle": "phi41", "trefoil": "C23",
         "trefoil_angle": "phi23", "trefoil4": "C43", "trefoil4_angle": "phi43", "quadrafoil": "C34",
         "quadrafoil_angle": "phi34", "quadrafoil5": "C54", "quadrafoil5_angle": "phi54", "pentafoil": "C45",
         "pentafoil_angle": "phi45", "hexafoil": "C56", "hexafoil_angle": "phi56"}
# magnitude giving a phase of a few radians at ~25 mrad, per radial order
MAG = {1: 120.0, 2: 6e3, 3: 3e5, 4: 1.2e7, 5: 5e8}
ABERRATION_NAMES = POLAR + sorted(ALIAS)


def symbol_of(name):
    return ALIAS.get(name, name)


def sign_of(name):
    return -1.0 if name == "defocus" else 1.0


def is_aberration(name):
    return symbol_of(name) in POLAR


# --------------------------------------------------------------------------- generator
def _values(rng, name, n):
    """n distinct values for parameter `name` (JSON list)."""
    sym = symbol_of(name)
    if sym in POLAR:
        if sym.startswith("phi"):
            v = rng.uniform(-np.pi, np.pi, size=n)
        else:
            m = MAG[int(sym[1])]
            v = rng.uniform(-m, m, size=n)
            if rng.random() < 0.25:
                v[int(rng.integers(0, n))] = 0.0
    elif name == "semiangle_cutoff":
        v = rng.uniform(8.0, 28.0, size=n)
    elif name == "focal_spread":
        v = rng.uniform(5.0, 60.0, size=n)
    elif name == "angular_spread":
        v = rng.uniform(0.2, 3.0, size=n)
    elif name in ("tilt_x", "tilt_y"):
        v = rng.uniform(-25.0, 25.0, size=n)
        if rng.random() < 0.25:
            v[int(rng.integers(0, n))] = 0.0
    elif name == "tilt":
        return rng.uniform(-25.0, 25.0, size=(n, 2)).round(3).tolist()
    elif name == "positions":
        return rng.uniform(0.05, 0.95, size=(n, 2)).round(4).tolist()
    else:
        raise KeyError(name)
    v = np.unique(np.asarray(v, dtype=float).round(4 if abs(v).max() < 1e3 else 0))
    while len(v) < n:           # (never in practice) keep the values distinct
        v = np.unique(np.append(v, v.max() + 1.0 + len(v)))
    v = v[rng.permutation(len(v))][:n]       # not sorted: order must be preserved by the code
    return v.tolist()


def _param(rng, name, n, allow_weights, allow_mean, forms):
    p = {"name": name, "n": n, "values": _values(rng, name, n), "weights": None, "mean": False,
         "form": str(rng.choice(forms))}
    if name in ("tilt", "positions"):
        p["form"] = "from_values" if name == "tilt" else "scan"
    if p["form"] == "gaussian":
        p["gauss"] = {"std": float(abs(p["values"][0]) * 0.2 + 1.0), "center": float(p["values"][0]),
                      "limit": float(rng.choice([1.0, 2.0, 3.0])),
                      "normalize": str(rng.choice(["intensity", "amplitude"]))}
    if p["form"] == "uniform":
        lo, hi = sorted([p["values"][0], p["values"][1]])
        p["uniform"] = {"low": float(lo), "high": float(hi if hi > lo else lo + 1.0), "endpoint": bool(rng.random() < 0.5)}
    if p["form"] == "from_values" and allow_weights and rng.random() < 0.5:
        p["weights"] = rng.uniform(0.2, 1.5, size=n).round(3).tolist()
    if allow_mean and rng.random() < 0.4:
        p["mean"] = True
    return p


def _lengths(rng, k):
    r = rng.random()
    if r < 0.3:
        # one long axis (5-7 members): batches of 2, 3 or 5 members then have unequal sizes, e.g. (2, 2, 1), (3, 3, 1), (5, 2)
        lens = [int(rng.integers(5, 8)) if k <= 2 else 5] + [2] * (k - 1)
        return [int(x) for x in rng.permutation(lens)]
    if r < 0.65:
        return [int(x) for x in rng.permutation([2, 3, 4])[:k]]       # all distinct
    n = int(rng.choice([2, 2, 3]))
    return [n] * k                                                    # all equal


def _fixed_for(rng, names):
    """Scalar companions that make the distributed parameter observable (angle needs a magnitude ...)."""
    fixed = {}
    for name in names:
        sym = symbol_of(name)
        if sym.startswith("phi"):
            mag = "C" + sym[3:]
            if mag not in [symbol_of(x) for x in names]:
                fixed[mag] = float(rng.uniform(0.3, 1.0) * MAG[int(sym[3])] * rng.choice([-1, 1]))
    return fixed


def gen(rng, tier):
    pipeline = str(rng.choice(["ctf", "ctf", "plane", "probe", "probe", "probe"]))
    cell = G.rand_cell_case(rng, max_atoms=4, max_xy=7.0, max_z=5.0, min_xy=4.0, min_z=2.0)
    joint = bool(rng.random() < 0.35)
    case = {"joint": joint, "pipeline": pipeline, "cell": cell, "gpts": G.rand_gpts(rng, 12, 26), "slice_thickness": float(rng.uniform(0.8, 2.0)),
            "energy": float(rng.choice([60e3, 100e3, 200e3, 300e3])), "lazy": bool(rng.random() < 0.5),
            "max_batch": ["auto", "auto", 1, 2, 2, 3, 5][int(rng.integers(0, 7))],
            "precision": str(rng.choice(["float32", "float32", "float64"])), "wave_seed": int(rng.integers(0, 2 ** 31 - 1)),
            "extra_axis": bool(rng.random() < 0.4), "fixed": {}, "params": []}
    k = int(rng.choice([1, 2, 2, 3, 3]))
    simple_forms = ["from_values", "from_values", "list", "ndarray", "uniform", "gaussian"]

    if pipeline == "ctf":
        target = str(rng.choice(["kwargs", "kwargs", "CTF", "CTF", "Aberrations", "Aperture", "TemporalEnvelope",
                                 "SpatialEnvelope"]))
        case["target"] = target
        if target == "Aperture":
            names = ["semiangle_cutoff"]
        elif target == "TemporalEnvelope":
            names = ["focal_spread"]
        elif target == "Aberrations":
            names = list(rng.choice(ABERRATION_NAMES, size=k, replace=False))
        elif target == "SpatialEnvelope":
            names = ["angular_spread"] + list(rng.choice(ABERRATION_NAMES, size=k - 1, replace=False))
        else:
            pool = ["semiangle_cutoff", "focal_spread", "angular_spread"] + list(rng.choice(ABERRATION_NAMES, size=3, replace=False))
            names = list(rng.choice(pool, size=k, replace=False))
        names = _dedupe(names)
        case["fixed"] = _fixed_for(rng, names)
        if "angular_spread" in names or target == "SpatialEnvelope":
            if not any(symbol_of(n) == "C10" for n in names):
                case["fixed"]["C10"] = float(rng.uniform(-150, 150))
            if not any(symbol_of(n) == "C30" for n in names):
                case["fixed"]["C30"] = float(rng.uniform(-2e5, 2e5))
        if target in ("kwargs", "CTF") and "semiangle_cutoff" not in names and rng.random() < 0.5:
            case["fixed"]["semiangle_cutoff"] = float(rng.uniform(12, 30))
        case["measure"] = str(rng.choice(["waves", "intensity", "diffraction"]))
        for name, n in zip(names, _lengths(rng, len(names))):
            # amplitude weights are defined (and applied) for the phase-aberration kernel only
            case["params"].append(_param(rng, str(name), n, allow_weights=is_aberration(name) and target != "SpatialEnvelope",
                                         allow_mean=case["measure"] != "waves" or rng.random() < 0.3,
                                         forms=simple_forms if is_aberration(name) and target != "SpatialEnvelope"
                                         else ["from_values", "list", "ndarray", "uniform"]))
    elif pipeline == "plane":
        tform = str(rng.choice(["x", "y", "xy", "nx2", "BeamTilt", "none"]))
        case["tilt_form"] = tform
        names = {"x": ["tilt_x"], "y": ["tilt_y"], "xy": ["tilt_x", "tilt_y"], "nx2": ["tilt"], "BeamTilt": ["tilt"],
                 "none": []}[tform]
        case["fixed_tilt"] = [float(rng.uniform(-10, 10)), float(rng.uniform(-10, 10))]
        extra = max(k - len(names), 1 if not names else 0)
        ctf_names = []
        if extra and (not names or rng.random() < 0.6):
            pool = ["semiangle_cutoff", "focal_spread"] + list(rng.choice(ABERRATION_NAMES, size=3, replace=False))
            ctf_names = _dedupe(list(rng.choice(pool, size=min(extra, 2), replace=False)))
        case["ctf_names"] = [str(n) for n in ctf_names]
        case["fixed"] = _fixed_for(rng, ctf_names)
        case["detector"] = "none" if ctf_names else str(rng.choice(["none", "pixelated"]))
        case["measure"] = str(rng.choice(["waves", "intensity", "diffraction"])) if ctf_names else "as-detected"
        allnames = names + ctf_names
        measured = case["detector"] != "none" or case["measure"] in ("intensity", "diffraction")
        for name, n in zip(allnames, _lengths(rng, len(allnames))):
            case["params"].append(_param(rng, str(name), n, allow_weights=False,
                                         allow_mean=measured or rng.random() < 0.3,
                                         forms=["from_values", "list", "ndarray", "uniform"] if name != "tilt" else ["from_values"]))
    else:
        method = str(rng.choice(["build", "multislice", "multislice", "scan"]))
        case["method"] = method
        case["ctor"] = str(rng.choice(["kwargs", "kwargs", "objects"]))
        tilt_names = {"x": ["tilt_x"], "y": ["tilt_y"], "xy": ["tilt_x", "tilt_y"], "nx2": ["tilt"], "none": []}
        tform = str(rng.choice(["x", "y", "xy", "nx2", "none", "none"]))
        pool = [["semiangle_cutoff"], ["positions"], [str(rng.choice(ABERRATION_NAMES))], [str(rng.choice(ABERRATION_NAMES))]]
        if tform != "none":
            pool.append(tilt_names[tform])
            if rng.random() < 0.7:              # tilt together with an aberration: axis order of the probe array
                pool = [tilt_names[tform], [str(rng.choice(ABERRATION_NAMES))]] + pool
                groups = pool[:2] + ([pool[2 + int(rng.integers(0, len(pool) - 2))]] if k == 3 else [])
            else:
                groups = [pool[i] for i in rng.choice(len(pool), size=min(k, len(pool)), replace=False)]
        else:
            groups = [pool[i] for i in rng.choice(len(pool), size=min(k, len(pool)), replace=False)]
        names = _dedupe([n for g in groups for n in g])[:3]
        if not any(n.startswith("tilt") for n in names):
            tform = "none"
        elif "tilt" in names:
            tform = str(rng.choice(["nx2", "BeamTilt"]))
        else:
            tform = "".join(c for c in "xy" if "tilt_" + c in names)
        case["tilt_form"] = tform
        case["fixed_tilt"] = [float(rng.uniform(-10, 10)), float(rng.uniform(-10, 10))]
        case["fixed"] = _fixed_for(rng, names)
        if "semiangle_cutoff" not in names:
            case["fixed"]["semiangle_cutoff"] = float(rng.uniform(12, 28))
        if rng.random() < 0.5 and not any(symbol_of(n) == "C10" for n in names):
            case["fixed"]["C10"] = float(rng.uniform(-80, 80))
        case["scan_kind"] = str(rng.choice(["custom", "custom", "line", "grid", "line_auto", "grid_auto", "line_edit",
                                            "grid_edit"])) if "positions" in names else str(rng.choice(["none", "point"]))
        # scans without gpts/sampling are matched to the probe (Nyquist); `steps` = scan extent in units of that sampling,
        # never an integer, so the extent is not a multiple of the sampling
        case["scan_steps"] = [float(rng.uniform(2.3, 5.7)), float(rng.uniform(1.3, 2.9))]
        case["scan_edit"] = str(rng.choice(["sampling", "end", "start", "gpts"]))
        if method == "scan" and case["scan_kind"] == "none":
            case["scan_kind"] = "point"          # Probe.scan without a scan rasters the whole cell
        case["scan_endpoint"] = bool(rng.random() < 0.5)
        case["detector"] = "none" if method == "build" else str(rng.choice(["none", "annular", "flexible", "pixelated",
                                                                            "segmented"]))
        lens = _lengths(rng, len(names))
        for name, n in zip(names, lens):
            if name == "positions" and case["scan_kind"] == "grid":
                n = 4 if n == 4 else n          # grid: n positions as (2,2), (2,3) or (1,n)
            case["params"].append(_param(rng, str(name), n, allow_weights=False,
                                         allow_mean=(case["detector"] != "none" or rng.random() < 0.3) and name != "positions",
                                         forms=(simple_forms if is_aberration(name) else
                                                ["from_values", "list", "ndarray", "uniform"])
                                         if name not in ("tilt", "positions") else ["from_values"]))
        # a gaussian (non-uniform weights) is only judged member-wise for a Probe (see module docstring)
        for p in case["params"]:
            if p["form"] == "gaussian":
                p["mean"] = False
    for p in case["params"]:
        if p["name"] == "tilt" and case.get("tilt_form") == "nx2":
            p["mean"] = False           # a plain Nx2 array cannot carry the ensemble_mean flag
    return case


def _dedupe(names):
    """No two parameters may address the same polar symbol (defocus and C10 ...)."""
    out, seen = [], set()
    for n in names:
        s = symbol_of(str(n))
        if s in seen:
            continue
        seen.add(s)
        out.append(str(n))
    return out


def fixed_cases(tier):
    cell = {"cell": [5.0, 6.0, 4.0], "symbols": ["Si", "C", "Au"], "positions": [[1.0, 1.0, 1.0], [2.0, 3.0, 2.5], [3.5, 1.2, 3.5]]}
    base = {"cell": cell, "gpts": [18, 22], "slice_thickness": 1.0, "energy": 100e3, "lazy": False, "max_batch": "auto",
            "precision": "float32", "wave_seed": 1, "extra_axis": False, "fixed": {"semiangle_cutoff": 20.0}}

    def P(name, values, mean=False, weights=None, form="from_values"):
        return {"name": name, "n": len(values), "values": values, "weights": weights, "mean": mean, "form": form}
    probe = dict(base, pipeline="probe", method="build", ctor="kwargs", tilt_form="x", fixed_tilt=[0.0, 2.0], scan_kind="point",
                 scan_endpoint=False, detector="none")
    out = []
    # defect row 2: tilt + aberration distributions on a Probe; distinct lengths and equal lengths; eager and lazy
    for lazy in (False, True):
        out.append(dict(probe, lazy=lazy, params=[P("tilt_x", [-5.0, 5.0]), P("defocus", [10.0, 50.0, 90.0])]))
        out.append(dict(probe, lazy=lazy, params=[P("tilt_x", [-5.0, 5.0]), P("defocus", [10.0, 90.0])]))
        out.append(dict(probe, lazy=lazy, method="multislice", detector="pixelated", tilt_form="nx2", scan_kind="custom",
                        params=[P("tilt", [[3.0, -4.0], [-8.0, 1.0], [0.0, 6.0]]), P("Cs", [1e5, -2e5, 3e5]),
                                P("positions", [[0.2, 0.3], [0.6, 0.5]])]))
    out.append(dict(probe, method="multislice", detector="annular", tilt_form="none", scan_kind="grid", fixed={},
                    params=[P("semiangle_cutoff", [12.0, 25.0, 18.0]), P("coma_angle", [0.4, -2.0], mean=True),
                            P("positions", [[0.1, 0.2], [0.5, 0.2], [0.1, 0.7], [0.5, 0.7]])]))
    ctf = dict(base, pipeline="ctf", target="kwargs", measure="intensity", fixed={"C30": 1e5, "semiangle_cutoff": 25.0})
    out.append(dict(ctf, params=[P("defocus", [60.0, -30.0, 0.0, 20.0], mean=True, weights=[0.3, 1.0, 0.7, 0.5]),
                                 P("focal_spread", [10.0, 40.0]), P("angular_spread", [0.5, 2.0, 1.0])]))
    out.append(dict(ctf, target="CTF", lazy=True, extra_axis=True, measure="waves",
                    params=[P("astigmatism_angle", [0.3, -1.2]), P("astigmatism", [50.0, -80.0]),
                            P("semiangle_cutoff", [10.0, 22.0])], fixed={}))
    out.append(dict(ctf, target="CTF", measure="diffraction", fixed={"C10": -40.0},
                    params=[P("focal_spread", [30.0, 8.0, 55.0]), P("semiangle_cutoff", [22.0, 9.0])]))
    out.append(dict(ctf, target="kwargs", measure="waves", lazy=True, fixed={"C10": 70.0, "C30": -1e5},
                    params=[P("semiangle_cutoff", [22.0, 9.0]), P("focal_spread", [30.0, 8.0]), P("angular_spread", [2.5, 0.4])]))
    out.append(dict(ctf, target="Aberrations", measure="waves", fixed={},       # waves are never averaged
                    params=[P("C30", [1e5, -2e5, 0.0], mean=True), P("defocus", [25.0, -60.0])]))
    # unequal lazy batches: 5 members in batches of 2 -> (2, 2, 1); 7 in batches of 3 -> (3, 3, 1); 7 in 5 -> (5, 2)
    five = [[0.1, 0.2], [0.8, 0.3], [0.45, 0.9], [0.3, 0.55], [0.7, 0.75]]
    out.append(dict(probe, lazy=True, max_batch=2, tilt_form="none", scan_kind="custom", params=[P("positions", five)]))
    out.append(dict(probe, lazy=True, max_batch=2, method="multislice", detector="pixelated", tilt_form="none", scan_kind="custom",
                    fixed={}, params=[P("defocus", [40.0, -20.0, 90.0, 0.0, 65.0]), P("positions", five[:3]),
                                      P("semiangle_cutoff", [14.0, 24.0])]))
    out.append(dict(probe, lazy=True, max_batch=5, method="multislice", detector="annular", tilt_form="none", scan_kind="grid",
                    params=[P("positions", [[0.1, 0.1], [0.9, 0.8]] + five[:4])]))
    out.append(dict(ctf, target="Aberrations", measure="waves", lazy=True, max_batch=3, fixed={},
                    params=[P("coma", [3e3, -1e3, 0.0, 5e3, -4e3, 2e3, 1e3], weights=[1.0, 0.5, 0.8, 1.2, 0.3, 0.9, 0.6])]))
    # scans whose sampling is matched to the probe / edited after construction; extent not a multiple of the sampling
    seg = [[0.1, 0.15], [0.73, 0.42]]
    out.append(dict(probe, tilt_form="none", scan_kind="line_auto", scan_steps=[4.4, 2.3], scan_endpoint=True,
                    params=[P("positions", seg)]))
    out.append(dict(probe, tilt_form="none", scan_kind="line_edit", scan_edit="sampling", scan_steps=[3.6, 2.3], lazy=True,
                    max_batch=3, scan_endpoint=True, method="multislice", detector="pixelated", params=[P("positions", seg)]))
    out.append(dict(probe, tilt_form="none", scan_kind="grid_auto", scan_steps=[2.6, 1.7], scan_endpoint=False, lazy=True,
                    max_batch=2, params=[P("positions", seg), P("defocus", [30.0, -40.0])]))
    for kind, how, ep in (("grid_edit", "end", False), ("grid_edit", "sampling", True), ("grid_edit", "start", False),
                          ("line_edit", "end", False), ("line_edit", "start", True), ("grid_edit", "gpts", False)):
        out.append(dict(probe, tilt_form="none", scan_kind=kind, scan_edit=how, scan_steps=[3.4, 2.6], scan_endpoint=ep,
                        lazy=(how in ("end", "gpts")), max_batch=2, params=[P("positions", seg)]))
    # two lazy ensembles of the same kind and shapes in one dask graph
    out.append(dict(probe, joint=True, lazy=True, tilt_form="none", scan_kind="custom", method="multislice", detector="annular",
                    params=[P("positions", [[0.2, 0.3], [0.6, 0.5], [0.8, 0.1]]), P("Cs", [1e5, -2e5])]))
    out.append(dict(ctf, joint=True, target="CTF", measure="intensity", fixed={"semiangle_cutoff": 25.0},
                    params=[P("defocus", [60.0, -30.0, 10.0]), P("focal_spread", [10.0, 40.0])]))
    plane = dict(base, pipeline="plane", tilt_form="xy", fixed_tilt=[0.0, 0.0], ctf_names=["defocus"], detector="none",
                 measure="intensity", fixed={})
    out.append(dict(plane, params=[P("tilt_x", [-12.0, 7.0, 0.0]), P("tilt_y", [4.0, -9.0]), P("defocus", [100.0, -50.0], mean=True)]))
    out.append(dict(plane, tilt_form="BeamTilt", ctf_names=[], detector="pixelated", measure="as-detected", lazy=True,
                    params=[P("tilt", [[10.0, 0.0], [0.0, 10.0], [-10.0, 0.0], [0.0, -10.0]], mean=True)]))
    # systematic sweep: every polar symbol and every alias once as a distribution (cheap kernels on a tiny wave / probe)
    rng = np.random.default_rng(20240917)
    for i, name in enumerate(ABERRATION_NAMES):
        n = 2 + i % 3
        p = _param(rng, name, n, allow_weights=(i % 4 == 0), allow_mean=False, forms=["from_values", "list", "ndarray"])
        fixed = _fixed_for(rng, [name])
        small = dict(base, gpts=[12 + i % 5, 14 + i % 3], lazy=bool(i % 2), precision="float64" if i % 3 == 0 else "float32",
                     params=[p])
        if i % 3 == 2:
            out.append(dict(small, pipeline="probe", method="build", ctor="objects" if i % 2 else "kwargs", tilt_form="none",
                            fixed_tilt=[0.0, 0.0], scan_kind="point", scan_endpoint=False, detector="none",
                            fixed=dict(fixed, semiangle_cutoff=24.0)))
        else:
            out.append(dict(small, pipeline="ctf", target=["Aberrations", "kwargs", "CTF"][i % 3 if i % 3 < 2 else 0] if i % 2 else "Aberrations",
                            measure="waves", fixed=fixed))
    out.append(dict(plane, tilt_form="BeamTilt", ctf_names=[], detector="none", measure="as-detected", lazy=True, max_batch=2,
                    params=[P("tilt", [[10.0, 0.0], [0.0, 10.0], [-10.0, 3.0], [4.0, -10.0], [7.0, 7.0]])]))
    return out


# --------------------------------------------------------------------------- case -> abTEM objects
def make_distribution(p):
    """The abTEM-side object for parameter p, together with the values and weights it defines."""
    import abtem
    vals = np.array(p["values"], dtype=float)
    if p["form"] == "gaussian":
        g = p["gauss"]
        d = abtem.distributions.gaussian(standard_deviation=g["std"], num_samples=p["n"], center=g["center"],
                                         sampling_limit=g["limit"], ensemble_mean=p["mean"], normalize=g["normalize"])
        return d, np.array(d.values, dtype=float), np.array(d.weights, dtype=float)
    if p["form"] == "uniform":
        u = p["uniform"]
        d = abtem.distributions.uniform(u["low"], u["high"], p["n"], endpoint=u["endpoint"], ensemble_mean=p["mean"])
        return d, np.array(d.values, dtype=float), np.ones(p["n"])
    if p["form"] in ("list", "ndarray") and not p["mean"]:
        return (vals.tolist() if p["form"] == "list" else vals.copy()), vals, np.ones(len(vals))
    w = None if p["weights"] is None else np.array(p["weights"], dtype=float)
    d = abtem.distributions.from_values(vals.copy(), weights=None if w is None else w.copy(), ensemble_mean=p["mean"])
    return d, vals, (np.ones(len(vals)) if w is None else w)


class Spec:
    """Everything the oracle needs to know about one distributed parameter."""

    def __init__(self, p):
        self.p = p
        self.name = p["name"]
        self.mean = bool(p["mean"])
        if self.name == "positions":
            self.obj, self.values, self.weights = None, np.array(p["values"], dtype=float), np.ones(p["n"])
        else:
            self.obj, self.values, self.weights = make_distribution(p)
        self.n = len(self.values)
        if is_aberration(self.name):
            self.label = symbol_of(self.name)
            self.axis_values = sign_of(self.name) * self.values           # what the axis must list
        elif self.name in ("focal_spread", "angular_spread"):
            self.label = None                                             # abTEM leaves these axes unlabelled
            self.axis_values = self.values
        else:
            self.label = self.name
            self.axis_values = self.values

    def scalar_from_axis(self, v):
        """Scalar constructor argument corresponding to the value the axis metadata names."""
        if is_aberration(self.name):
            return float(sign_of(self.name) * v)
        if self.name == "tilt":
            return (float(v[0]), float(v[1]))
        return float(v)


def _potential(case):
    import abtem
    atoms = G.atoms_from(case["cell"])
    return abtem.Potential(atoms, gpts=tuple(case["gpts"]), slice_thickness=case["slice_thickness"]).build(lazy=False)


def _detector(case, cutoff):
    import abtem
    d = case.get("detector", "none")
    amax = 0.95 * cutoff
    if d == "annular":
        return abtem.AnnularDetector(inner=0.15 * amax, outer=0.9 * amax)
    if d == "flexible":
        return abtem.FlexibleAnnularDetector(step_size=amax / 5.0)
    if d == "pixelated":
        return abtem.PixelatedDetector(max_angle="valid")
    if d == "segmented":
        return abtem.SegmentedDetector(nbins_radial=2, nbins_azimuthal=3, inner=0.1 * amax, outer=0.8 * amax)
    return None


def _tilt_arg(case, given):
    """`given` maps tilt_x / tilt_y / tilt to a distribution object or scalar(s)."""
    import abtem
    tf = case.get("tilt_form", "none")
    fx, fy = case.get("fixed_tilt", [0.0, 0.0])
    if tf in ("nx2", "BeamTilt"):
        t = given["tilt"]
        if isinstance(t, tuple):
            return t
        if tf == "BeamTilt":
            return abtem.tilt.BeamTilt(t)
        return np.array(t.values, dtype=float)            # plain Nx2 ndarray (weights are ones by construction)
    return (given.get("tilt_x", fx), given.get("tilt_y", fy))


def _scan_arg(case, positions, extent, scalar):
    import abtem
    pos = np.array(positions, dtype=float).reshape(-1, 2) * np.array(extent)
    if scalar:
        return (float(pos[0, 0]), float(pos[0, 1]))
    kind = case["scan_kind"]
    if kind == "custom":
        return abtem.CustomScan(pos)
    raise KeyError(kind)


def _wavelength(energy):
    h, c, me, e = 6.626070040e-34, 299792458.0, 9.10938356e-31, 1.6021766208e-19
    return h * c / np.sqrt(energy * e * (energy * e + 2 * me * c * c)) * 1e10


def matched_scan(case, spec, extent, semiangle_max):
    """Line / grid scans whose number of positions is left to abTEM: constructed without gpts and sampling (matched to the
    probe when used) or edited after construction.  Returns (scan, info); no position model - only what the inputs promise:
    first position = start, endpoint -> last position = end, otherwise last + step = end, uniform steps."""
    import abtem
    kind = case["scan_kind"]
    ep = bool(case["scan_endpoint"])
    step = 0.99 * _wavelength(case["energy"]) / (4 * semiangle_max * 1e-3)          # only used to size the input
    sx, sy = case["scan_steps"]
    a = np.array(spec.values[0]) * extent
    d = np.array(spec.values[1]) * extent - a
    if kind.startswith("line"):
        u = d / np.linalg.norm(d)
        b = a + u * sx * step
        if kind == "line_auto":
            scan = abtem.LineScan(start=tuple(a), end=tuple(b), endpoint=ep)
        else:
            how = case["scan_edit"]
            if how == "sampling":
                scan = abtem.LineScan(start=tuple(a), end=tuple(b), gpts=2, endpoint=ep)
                scan.sampling = step
            elif how == "end":
                scan = abtem.LineScan(start=tuple(a), end=tuple(a + 0.37 * (b - a)), gpts=3, endpoint=ep)
                scan.end = tuple(b)
            elif how == "start":
                scan = abtem.LineScan(start=tuple(a + 0.41 * (b - a)), end=tuple(b), sampling=step, endpoint=ep)
                scan.start = tuple(a)
            else:
                scan = abtem.LineScan(start=tuple(a), end=tuple(b), sampling=step, endpoint=ep)
                scan.gpts = int(np.ceil(sx)) + 1
        return scan, {"base": "line", "start": a, "end": b, "endpoint": (ep,), "ndim": 1}
    lo = a
    hi = a + np.array([sx * 0.6, sy]) * step
    if kind == "grid_auto":
        scan = abtem.GridScan(start=tuple(lo), end=tuple(hi), endpoint=ep)
    else:
        how = case["scan_edit"]
        if how == "sampling":
            scan = abtem.GridScan(start=tuple(lo), end=tuple(hi), gpts=2, endpoint=ep)
            scan.sampling = (step, 0.8 * step)
        elif how == "end":
            scan = abtem.GridScan(start=tuple(lo), end=tuple(lo + 0.45 * (hi - lo)), sampling=step, endpoint=ep)
            scan.end = tuple(hi)
        elif how == "start":
            scan = abtem.GridScan(start=tuple(lo + 0.3 * (hi - lo)), end=tuple(hi), sampling=step, endpoint=ep)
            scan.start = tuple(lo)
        else:
            scan = abtem.GridScan(start=tuple(lo), end=tuple(hi), sampling=step, endpoint=ep)
            scan.gpts = (3, 2)
    return scan, {"base": "grid", "start": lo, "end": hi, "endpoint": (ep, ep), "ndim": 2}


def line_or_grid(case, spec, extent):
    """Scan object and the positions (in order, shape (..., 2)) an independent model says it visits."""
    import abtem
    n = spec.n
    ep = case["scan_endpoint"]
    a = np.array(spec.values[0]) * extent
    b = np.array(spec.values[1]) * extent
    if case["scan_kind"] == "line":
        scan = abtem.LineScan(start=tuple(a), end=tuple(b), gpts=n, endpoint=ep)
        t = np.arange(n) / ((n - 1) if ep else n)
        return scan, a[None] + t[:, None] * (b - a)[None], (n,)
    lo, hi = np.minimum(a, b), np.maximum(a, b)
    hi = np.where(hi - lo < 0.3, lo + 0.3, hi)
    shape = (2, 2) if n == 4 else (2, 3) if n == 6 else (1, n)
    ep = ep and 1 not in shape
    scan = abtem.GridScan(start=tuple(lo), end=tuple(hi), gpts=shape, endpoint=ep)
    xs = lo[0] + np.arange(shape[0]) * (hi[0] - lo[0]) / ((shape[0] - 1) if ep else shape[0])
    ys = lo[1] + np.arange(shape[1]) * (hi[1] - lo[1]) / ((shape[1] - 1) if ep else shape[1])
    return scan, np.stack(np.meshgrid(xs, ys, indexing="ij"), axis=-1), shape


class Pipeline:
    """Builds and runs the case's pipeline for a mapping name -> (distribution object | scalar)."""

    def __init__(self, case):
        import abtem
        self.case = case
        self.kind = case["pipeline"]
        if self.kind == "ctf":
            rng = np.random.default_rng(case["wave_seed"])
            shape = ((2,) if case["extra_axis"] else ()) + tuple(case["gpts"])
            arr = rng.normal(size=shape) + 1j * rng.normal(size=shape)
            dtype = np.complex128 if case["precision"] == "float64" else np.complex64
            kw = {}
            if case["extra_axis"]:
                kw["ensemble_axes_metadata"] = [abtem.core.axes.OrdinalAxis(label="k", values=(0, 1))]
            self.waves = abtem.Waves(arr.astype(dtype), energy=case["energy"], sampling=(0.21, 0.17), **kw)
            self.extent = self.waves.extent
        else:
            self.pot = _potential(case)
            self.extent = np.array(self.pot.extent)

    # -- the three pipelines
    def run(self, given, lazy, max_batch="auto", scan=None, compute=True):
        import abtem
        case = self.case
        fixed = dict(case["fixed"])
        with warnings.catch_warnings():
            warnings.simplefilter("ignore")
            if self.kind == "ctf":
                params = {**fixed, **given}
                w = self.waves
                if lazy:
                    w = w.copy().lazy() if hasattr(w, "lazy") else w
                tg = case["target"]
                if tg == "kwargs":
                    out = w.apply_ctf(max_batch=max_batch, **params)
                elif tg == "CTF":
                    out = w.apply_ctf(abtem.CTF(**params), max_batch=max_batch)
                else:
                    cls = getattr(abtem.transfer, tg)
                    out = cls(**params).apply(w, max_batch=max_batch)
                out = self._measure(out)
            elif self.kind == "plane":
                ctf = {k: v for k, v in given.items() if not k.startswith("tilt")}
                pw = abtem.PlaneWave(energy=case["energy"], tilt=_tilt_arg(case, given))
                out = pw.multislice(self.pot, detectors=_detector(case, 30.0) if case["detector"] != "none" else None,
                                    lazy=lazy, max_batch=max_batch)
                if case["ctf_names"]:
                    out = out.apply_ctf(**{**fixed, **ctf})
                    out = self._measure(out)
            else:
                ab = {k: v for k, v in {**fixed, **given}.items() if is_aberration(k)}
                sa = {**fixed, **given}["semiangle_cutoff"]
                tilt = _tilt_arg(case, given)
                if case["ctor"] == "objects":
                    probe = abtem.Probe(energy=case["energy"], tilt=tilt, aperture=abtem.transfer.Aperture(semiangle_cutoff=sa),
                                        aberrations=abtem.transfer.Aberrations(**ab))
                else:
                    probe = abtem.Probe(energy=case["energy"], semiangle_cutoff=sa, tilt=tilt, **ab)
                probe.grid.match(self.pot)
                if case["method"] == "build":
                    out = probe.build(scan=scan, lazy=lazy, max_batch=max_batch)
                else:
                    det = _detector(case, min(probe.cutoff_angles))
                    run = probe.scan if case["method"] == "scan" else probe.multislice
                    out = run(self.pot, scan=scan, detectors=det, lazy=lazy, max_batch=max_batch)
            if compute and hasattr(out, "compute") and getattr(out, "is_lazy", False):
                out = out.compute(scheduler="synchronous" if max_batch == 1 else "threads")
        return out

    def ensembles(self, given, scan):
        """(name, object) for every object of the pipeline that carries ensemble axes."""
        import abtem
        case = self.case
        fixed = dict(case["fixed"])
        out = []
        with warnings.catch_warnings():
            warnings.simplefilter("ignore")
            if self.kind == "ctf":
                params = {**fixed, **given}
                tg = case["target"]
                cls = abtem.CTF if tg in ("kwargs", "CTF") else getattr(abtem.transfer, tg)
                out.append((cls.__name__, cls(energy=case["energy"], **params)))
            elif self.kind == "plane":
                ctf = {k: v for k, v in given.items() if not k.startswith("tilt")}
                pw = abtem.PlaneWave(energy=case["energy"], tilt=_tilt_arg(case, given))
                pw.grid.match(self.pot)
                out += [("PlaneWave", pw), ("tilt", pw.tilt)]
                if case["ctf_names"]:
                    out.append(("CTF", abtem.CTF(energy=case["energy"], **{**fixed, **ctf})))
            else:
                ab = {k: v for k, v in {**fixed, **given}.items() if is_aberration(k)}
                sa = {**fixed, **given}["semiangle_cutoff"]
                probe = abtem.Probe(energy=case["energy"], semiangle_cutoff=sa, tilt=_tilt_arg(case, given), **ab)
                probe.grid.match(self.pot)
                if isinstance(scan, abtem.scan.BaseScan):
                    probe.scan_positions = scan
                    out.append((type(scan).__name__, scan))
                out += [("Probe", probe), ("tilt", probe.tilt), ("Aberrations", probe.aberrations), ("Aperture", probe.aperture)]
        return [(n, o) for n, o in out if tuple(o.ensemble_shape) and 0 not in tuple(o.ensemble_shape)]

    def _measure(self, out):
        m = self.case.get("measure", "waves")
        if m == "intensity":
            return out.intensity().reduce_ensemble()
        if m == "diffraction":
            return out.diffraction_patterns(max_angle=None).reduce_ensemble()
        return out


# --------------------------------------------------------------------------- locating axes through the metadata
def _axis_values(ax):
    v = getattr(ax, "values", None)
    return None if v is None else np.array(v, dtype=float)


def locate(ctx, spec, axes, taken):
    """Index of the axis describing `spec` among the leading axes, found by label then by values."""
    cands = []
    for i, ax in enumerate(axes):
        if i in taken:
            continue
        lab = getattr(ax, "label", "")
        if spec.label is not None and lab == spec.label:
            cands.append(i)
        elif spec.label is None and lab in ("", spec.name) and type(ax).__name__ == "ParameterAxis":
            cands.append(i)
    want = np.asarray(spec.axis_values, dtype=float)
    for i in cands:
        v = _axis_values(axes[i])
        if v is not None and v.shape == want.shape and np.allclose(v, want, rtol=1e-6, atol=1e-9):
            return i
    return cands[0] if cands else None


# --------------------------------------------------------------------------- direct partition check
def ensemble_points(obj):
    """Per ensemble axis: the points the object says it covers along that axis (None when its metadata cannot tell)."""
    shape = tuple(obj.ensemble_shape)
    if hasattr(obj, "get_positions"):
        pos = np.asarray(obj.get_positions(), dtype=float)
        if len(shape) == 1:
            return [pos.reshape(shape[0], 2)]
        p = pos.reshape(shape + (2,))
        return [p[:, 0, 0], p[0, :, 1]]
    out = []
    for ax, n in zip(obj.ensemble_axes_metadata, shape):
        v = getattr(ax, "values", None)
        if v is not None:
            out.append(np.array(v, dtype=float))
        elif type(ax).__name__ == "ScanAxis" and getattr(ax, "label", "") in ("x", "y"):
            out.append(float(ax.offset) + float(ax.sampling) * np.arange(n))
        else:
            out.append(None)
    return out


def chunk_styles(shape):
    """Explicit chunkings (tuple of tuples), most of them with unequal block sizes."""
    def one(n, s):
        if n == 1:
            return (1,)
        if s == 0:
            return (1,) * n
        if s == 1:
            return (2,) * (n // 2) + ((1,) if n % 2 else ())
        if s == 2:
            return (n - 1, 1)
        if s == 3:
            return (1, n - 1)
        return (3,) * (n // 3) + ((n % 3,) if n % 3 else ()) if n > 3 else (n,)
    seen, out = set(), []
    for s in range(5):
        c = tuple(one(n, (s + a) % 5 if s else 0) for a, n in enumerate(shape))
        if c not in seen:
            seen.add(c)
            out.append(c)
    return out


def check_partitions(ctx, what, obj):
    """Blocks of an ensemble object, eager and lazy, must tile its members in order for every chunking."""
    shape = tuple(obj.ensemble_shape)
    full = ensemble_points(obj)
    if len(full) != len(shape):
        return

    def judge(block, idx, ranges, chunks, mode):
        block = block.item() if isinstance(block, np.ndarray) else block
        bshape = tuple(block.ensemble_shape)
        want_shape = tuple(hi - lo for lo, hi in (ranges[a][idx[a]] for a in range(len(shape))))
        if not ctx.expect(bshape == want_shape, "partition", what=what, mode=mode, chunks=chunks, block=list(idx),
                          got=list(bshape), want=list(want_shape)):
            return
        pts = ensemble_points(block)
        for a in range(len(shape)):
            lo, hi = ranges[a][idx[a]]
            if full[a] is None or a >= len(pts) or pts[a] is None:
                continue
            w = full[a][lo:hi]
            g = np.asarray(pts[a], dtype=float)
            ctx.expect(g.shape == w.shape and np.allclose(g, w, rtol=1e-6, atol=1e-6), "partition", what=what, mode=mode,
                       chunks=chunks, block=list(idx), axis=a, got=g.tolist(), want=w.tolist())

    for chunks in chunk_styles(shape):
        ranges = [list(zip(np.cumsum((0,) + c[:-1]).tolist(), np.cumsum(c).tolist())) for c in chunks]
        nblocks = tuple(len(c) for c in chunks)
        if any(len(set(c)) > 1 for c in chunks):
            ctx.monitor("unequal-chunkings-checked")
        seen = []
        for idx, slices, block in obj.generate_blocks(chunks):
            idx = tuple(int(i) for i in idx)
            seen.append(idx)
            want = tuple(slice(*ranges[a][idx[a]]) for a in range(len(shape)))
            ctx.expect(tuple(slices) == want, "partition", what=what, mode="generate_blocks:slices", chunks=chunks,
                       got=repr(slices), want=repr(want))
            judge(block, idx, ranges, chunks, "generate_blocks")
        ctx.expect(seen == [tuple(int(i) for i in ix) for ix in np.ndindex(nblocks)], "partition", what=what,
                   mode="generate_blocks:order", chunks=chunks, got=seen)
        lazy = obj.ensemble_blocks(chunks).compute(scheduler="synchronous")
        lazy = np.asarray(lazy, dtype=object)
        if ctx.expect(lazy.shape == nblocks, "partition", what=what, mode="ensemble_blocks:shape", chunks=chunks,
                      got=list(lazy.shape), want=list(nblocks)):
            for ix in np.ndindex(nblocks):
                judge(lazy[ix], ix, ranges, chunks, "ensemble_blocks")


# --------------------------------------------------------------------------- check
def check(ctx, case):
    import abtem
    from abtem import transfer as transfer_mod
    with G.precision(case["precision"]):
        _check(ctx, case, abtem, transfer_mod)


def _check(ctx, case, abtem, transfer_mod):
    pipe = Pipeline(case)
    specs = [Spec(p) for p in case["params"]]
    for s in specs:
        ctx.note("param:" + s.name)
    ctx.note("pipeline:%s:%s" % (case["pipeline"], "lazy" if case["lazy"] else "eager"))
    ctx.note("lengths:" + ("equal" if len({s.n for s in specs}) == 1 and len(specs) > 1 else
                           "distinct" if len(specs) > 1 else "single"))
    pos_spec = next((s for s in specs if s.name == "positions"), None)
    par_specs = [s for s in specs if s.name != "positions"]
    f32 = case["precision"] == "float32"
    rtol, atol_rel = (2e-5, 4e-6) if f32 else (1e-9, 1e-10)

    # ---- scan of the ensemble run and the positions an independent model expects
    scan, pos_model, pos_shape, sinfo = None, None, (), None

    def new_scan():
        """(scan, model positions or None, shape or None, info) - a fresh object on every call."""
        kind = case["scan_kind"]
        if kind == "custom":
            pm = pos_spec.values * pipe.extent
            return _scan_arg(case, pos_spec.values, pipe.extent, scalar=False), pm, (pos_spec.n,), \
                {"base": "custom", "start": pm[0], "ndim": 1}
        if kind in ("line", "grid"):
            sc, pm, shp = line_or_grid(case, pos_spec, pipe.extent)
            first = pm.reshape(-1, 2)[0]
            return sc, pm, shp, {"base": kind, "start": first, "ndim": len(shp),
                                 "direction": None if kind == "grid" else (pm[-1] - pm[0]) / np.linalg.norm(pm[-1] - pm[0])}
        sa = max([float(np.max(s_.values)) for s_ in par_specs if s_.name == "semiangle_cutoff"] +
                 [float(case["fixed"].get("semiangle_cutoff", 0.0))])
        sc, info = matched_scan(case, pos_spec, pipe.extent, sa)
        if info["base"] == "line":
            info["direction"] = (info["end"] - info["start"]) / np.linalg.norm(info["end"] - info["start"])
        return sc, None, None, info

    if case["pipeline"] == "probe":
        if pos_spec is not None:
            scan, pos_model, pos_shape, sinfo = new_scan()
            ctx.note("scan:" + case["scan_kind"])
        elif case["scan_kind"] == "point":
            scan = (0.31 * pipe.extent[0], 0.47 * pipe.extent[1])
    pos_ndim = sinfo["ndim"] if sinfo else 0

    given = {s.name: s.obj for s in par_specs}
    # ---- every ensemble object of the pipeline, cut into (unequal) blocks directly
    part_scan = scan
    if sinfo is not None and pos_model is None:
        part_scan = None            # partitioned below, once the probe has been matched to it
    for what, obj in pipe.ensembles(given, part_scan):
        check_partitions(ctx, what, obj)

    # ---- run the ensemble through the code under test, counting kernel evaluations inside it
    calls = {"n": 0}
    got, err = None, None
    with G.Wrapped() as w:
        def make(orig):
            def _unpack(*a, **k):
                calls["n"] += 1
                return orig(*a, **k)
            return _unpack
        w.patch(transfer_mod, "_unpack_distributions", make)
        try:
            got = pipe.run(given, case["lazy"], case["max_batch"], scan=scan)
        except Exception as e:                                      # the promised result was not delivered
            err = repr(e)[:300]
    ctx.monitor("unpack-distributions-calls", calls["n"])
    if not ctx.expect(err is None, "ensemble-run-completes", error=err):
        return

    # ---- scalar runs (memoised per value tuple)
    memo = {}

    def scalar(values_by_name, pos):
        key = (tuple((k, np.round(np.asarray(v, dtype=float), 9).tobytes()) for k, v in sorted(values_by_name.items())),
               None if pos is None else tuple(np.round(pos, 9)))
        if key not in memo:
            s = (float(pos[0]), float(pos[1])) if pos is not None else (scan if pos_spec is None else None)
            memo[key] = pipe.run(values_by_name, False, scan=s)
            ctx.monitor("scalar-runs")
        return memo[key]

    first = {s.name: s.scalar_from_axis(s.axis_values[0]) for s in par_specs}
    ref0 = scalar(first, None if pos_spec is None else sinfo["start"])
    is_waves = isinstance(got, abtem.Waves)
    if not ctx.expect(type(got) is type(ref0) or (pos_spec is not None and not is_waves), "member:values", what="type",
                      got=type(got).__name__, want=type(ref0).__name__):
        return
    garr = G.to_numpy(got)
    r0 = G.to_numpy(ref0)
    lead = garr.ndim - r0.ndim
    axes = list(got.axes_metadata)[:max(lead, 0)]
    mean_specs = [s for s in par_specs if s.mean and not is_waves]
    keep_specs = [s for s in par_specs if not (s.mean and not is_waves)]
    want_lead = len(keep_specs) + pos_ndim
    if not ctx.expect(lead == want_lead and garr.shape[lead:] == r0.shape, "axis-length", what="number of ensemble axes",
                      shape=list(garr.shape), member_shape=list(r0.shape), expected_axes=want_lead,
                      axes=[(type(a).__name__, getattr(a, "label", None)) for a in got.axes_metadata]):
        return

    # averaged axes are gone from measurements / stay on waves
    for s in par_specs:
        if s.mean:
            present = any(getattr(a, "label", "") == s.label for a in got.axes_metadata) if s.label else None
            if is_waves:
                i = locate(ctx, s, axes, set())
                ctx.expect(i is not None and bool(getattr(axes[i], "_ensemble_mean", False)), "waves-keep-mean-axis",
                           param=s.name)
            elif present is not None:
                ctx.expect(not present, "mean-axis-removed", param=s.name)
            else:
                ctx.expect(True, "mean-axis-removed")

    # ---- locate every kept parameter axis through the metadata
    taken, where = set(), {}
    for s in keep_specs:
        i = locate(ctx, s, axes, taken)
        if not ctx.expect(i is not None, "axis-found", param=s.name, label=s.label,
                          axes=[(type(a).__name__, getattr(a, "label", None)) for a in axes]):
            return
        taken.add(i)
        where[s.name] = i
        v = _axis_values(axes[i])
        ok = ctx.expect(v is not None and len(v) == garr.shape[i], "axis-length", param=s.name,
                        metadata_values=None if v is None else len(v), data=garr.shape[i], shape=list(garr.shape))
        want = np.asarray(s.axis_values, dtype=float)
        ctx.expect(v is not None and v.shape == want.shape and np.allclose(v, want, rtol=1e-6, atol=1e-9), "axis-values",
                   param=s.name, got=None if v is None else v.tolist(), want=want.tolist())
        if not ok:
            return
    pos_axes = [i for i in range(lead) if i not in taken]
    pos_meta = None
    if pos_spec is not None:
        got_shape = tuple(garr.shape[i] for i in pos_axes)
        ok = ctx.expect((pos_shape is None or got_shape == tuple(pos_shape)) and
                        pos_axes == list(range(pos_axes[0], pos_axes[0] + len(pos_axes))),
                        "position-axis", shape=list(garr.shape), pos_axes=pos_axes, want=None if pos_shape is None else list(pos_shape))
        if not ok:
            return
        pos_shape = got_shape
        # the positions the returned metadata names (members are placed by these)
        pos_meta = positions_from_metadata(ctx, sinfo, [axes[i] for i in pos_axes], pos_shape)
        if pos_meta is None:
            return
        if pos_model is not None:
            ctx.close(pos_meta, np.asarray(pos_model, dtype=float).reshape(pos_meta.shape), "position-axis", rtol=0, atol=2e-5,
                      what="positions named by the metadata vs position model")
        else:
            check_matched_positions(ctx, case, sinfo, scan, pos_meta, pos_shape)
            if getattr(scan, "sampling", None) is not None:
                check_partitions(ctx, type(scan).__name__ + ":matched", scan)

    # ---- compare every member with the scalar run the metadata names for it
    amp_weighted = case["pipeline"] == "ctf" or (case["pipeline"] == "plane" and case.get("ctf_names"))
    scale = max(float(np.abs(garr).max()), 1e-30)
    distinct = []
    ranges = [range(garr.shape[where[s.name]]) for s in keep_specs] + [range(n) for n in pos_shape]
    mean_ranges = [range(s.n) for s in mean_specs]
    cplx = np.iscomplexobj(garr)
    for idx in itertools.product(*ranges):
        vals, amp = {}, 1.0
        full = [slice(None)] * garr.ndim
        for s, j in zip(keep_specs, idx[:len(keep_specs)]):
            a = where[s.name]
            meta_v = _axis_values(axes[a])[j]
            vals[s.name] = s.scalar_from_axis(meta_v)
            full[a] = j
            if amp_weighted and is_aberration(s.name):
                amp *= float(s.weights[j])
        pos = None
        if pos_spec is not None:
            pj = idx[len(keep_specs):]
            for a, j in zip(pos_axes, pj):
                full[a] = j
            pos = pos_meta[pj]
        if mean_specs:
            acc = np.zeros(r0.shape, dtype=np.float64)
            for midx in itertools.product(*mean_ranges):
                mv, mamp = dict(vals), amp
                for s, j in zip(mean_specs, midx):
                    mv[s.name] = s.scalar_from_axis(s.axis_values[j])
                    if amp_weighted and is_aberration(s.name):
                        mamp *= float(s.weights[j])
                acc += (mamp ** 2) * G.to_numpy(scalar(mv, pos)).astype(np.float64)
            want = acc / np.prod([s.n for s in mean_specs])
            clause = "mean:values"
        else:
            r = G.to_numpy(scalar(vals, pos))
            want = (amp * r.astype(np.complex128)) if cplx else (amp ** 2) * r.astype(np.float64)
            clause = "member:values"
        member = garr[tuple(full)]
        ctx.close(member, want, clause, rtol=rtol, atol=atol_rel * scale, index=list(idx),
                  values={k: (list(v) if isinstance(v, tuple) else v) for k, v in vals.items()})
        ctx.monitor("members-compared")
        distinct.append(want)
    if amp_weighted and any(is_aberration(s.name) and not np.allclose(s.weights, 1.0) for s in par_specs):
        ctx.note("model:amplitude-weights-in-aberration-kernel")
    # non-trivial: the scalar runs really differ from each other (otherwise placement is not tested)
    nt = False
    if len(distinct) >= 2:
        d0 = distinct[0]
        nt = any(np.abs(d - d0).max() > 50 * (rtol * scale + atol_rel * scale) for d in distinct[1:])
    ctx.nontrivial(nt)
    if not nt:
        ctx.note("members-indistinguishable")

    # ---- two lazy ensembles of the same kind and shapes evaluated in ONE dask.compute call
    if case.get("joint"):
        import dask
        given2 = {s.name: twin_distribution(s) for s in par_specs}
        scan2 = scan
        reversible = True
        if pos_spec is not None:
            if case["scan_kind"] == "custom":
                scan2 = _scan_arg(case, pos_spec.values[::-1], pipe.extent, scalar=False)
            else:
                scan2, reversible = new_scan()[0], False
        a = pipe.run(given, True, case["max_batch"], scan=new_scan()[0] if pos_spec is not None else scan, compute=False)
        b = pipe.run(given2, True, case["max_batch"], scan=scan2, compute=False)
        if ctx.expect(hasattr(a.array, "dask") and hasattr(b.array, "dask"), "joint-compute:values", what="lazy outputs"):
            with warnings.catch_warnings():
                warnings.simplefilter("ignore")
                ja, jb, jd = dask.compute(a.array, b.array, b.array - a.array,
                                          scheduler="synchronous" if case["max_batch"] == 1 else "threads")
                # abTEM's compute() works in place: the separate evaluations come after the joint one
                sa_, sb_ = G.to_numpy(a.compute(scheduler="synchronous")), G.to_numpy(b.compute(scheduler="synchronous"))
            tol = dict(rtol=rtol, atol=atol_rel * scale)
            ctx.close(ja, sa_, "joint-compute:values", which="primary", **tol)
            ctx.close(jb, sb_, "joint-compute:values", which="twin", **tol)
            ctx.close(jd, sb_ - sa_, "joint-compute:values", which="lazy difference", rtol=rtol, atol=2 * atol_rel * scale)
            # anchors: the primary is the result already taken apart above; the twin holds the same members in reverse order
            ctx.close(ja, garr, "joint-compute:values", which="primary vs decomposed result", **tol)
            if reversible:
                flip = tuple(where[s.name] for s in keep_specs) + tuple(pos_axes if pos_spec is not None else ())
                ctx.close(np.flip(jb, axis=flip) if flip else jb, garr, "joint-compute:values", which="twin (reversed values)", **tol)
            ctx.monitor("joint-computes")


def twin_distribution(spec):
    """Same kind, length and class of distribution with the values (and weights) in reverse order."""
    import abtem
    p = spec.p
    vals = np.array(spec.values, dtype=float)[::-1].copy()
    w = np.array(spec.weights, dtype=float)[::-1].copy()
    if spec.name == "tilt" or p["form"] in ("from_values", "uniform", "gaussian") or p["mean"]:
        return abtem.distributions.from_values(vals, weights=None if np.allclose(w, 1.0) and p["form"] != "gaussian" else w,
                                               ensemble_mean=spec.mean)
    return vals.tolist() if p["form"] == "list" else vals


def _linear_coords(ax, n):
    if not hasattr(ax, "sampling"):
        return None
    return float(getattr(ax, "offset", 0.0)) + float(ax.sampling) * np.arange(n)


def positions_from_metadata(ctx, info, pax, shape):
    """Positions (shape + (2,)) that the returned scan axes name.  Axes that became image axes (detectors integrating the
    pattern) and the distance axis of a line scan are relative to the start point given by the caller."""
    base = info["base"]
    if base == "custom":
        v = getattr(pax[0], "values", None)
        if not ctx.expect(v is not None and np.asarray(v, dtype=float).shape == (shape[0], 2), "position-axis",
                          what="PositionsAxis values", got=None if v is None else np.asarray(v).tolist()):
            return None
        return np.asarray(v, dtype=float)
    coords = [_linear_coords(ax, n) for ax, n in zip(pax, shape)]
    if not ctx.expect(all(c is not None for c in coords), "position-axis", what="scan axes are not linear axes",
                      axes=[type(a).__name__ for a in pax]):
        return None
    if base == "line":
        r = coords[0]
        if type(pax[0]).__name__ == "ScanAxis":
            ctx.expect(abs(r[0]) < 1e-6, "position-axis", what="line scan axis does not start at 0", got=float(r[0]))
        return info["start"][None] + (r - r[0])[:, None] * info["direction"][None]
    xy = []
    for k, (ax, c) in enumerate(zip(pax, coords)):
        if type(ax).__name__ == "ScanAxis":
            xy.append(c)                                            # absolute coordinates
        else:
            ctx.note("scan-axes-became-image-axes")
            xy.append(info["start"][k] + (c - c[0]))
    return np.stack(np.meshgrid(xy[0], xy[1], indexing="ij"), axis=-1)


def check_matched_positions(ctx, case, info, scan, pos_meta, shape):
    """Scans whose number of positions abTEM chose: what the inputs promise about the positions the metadata names."""
    flat = pos_meta.reshape(-1, 2)
    ctx.close(flat[0], info["start"], "position-axis", rtol=0, atol=2e-5, what="first position is the start point")
    if info["base"] == "line":
        n = shape[0]
        last = flat[-1]
        if n > 1:
            step = flat[1] - flat[0]
            want_last = info["end"] if info["endpoint"][0] else info["end"] - step
            ctx.close(last, want_last, "position-axis", rtol=0, atol=5e-5, what="last position vs end point", n=n,
                      endpoint=info["endpoint"][0])
    else:
        for k in range(2):
            c = pos_meta[:, 0, 0] if k == 0 else pos_meta[0, :, 1]
            if len(c) > 1:
                want_last = info["end"][k] if info["endpoint"][k] else info["end"][k] - (c[1] - c[0])
                ctx.close(c[-1], want_last, "position-axis", rtol=0, atol=5e-5, what="last coordinate vs end", axis=k, n=len(c))
    # the scan object the caller passed in has been matched in place: its own positions are the ones named
    try:
        own = np.asarray(scan.get_positions(), dtype=float).reshape(pos_meta.shape)
    except Exception:
        own = None
        ctx.note("scan-object-not-matched-in-place")
    if own is not None:
        ctx.close(pos_meta, own, "position-axis", rtol=0, atol=5e-5, what="metadata positions vs scan.get_positions()")
    ctx.monitor("matched-scans")
