"""C37 Real-space multislice is a faithful discretization.

Oracles
* stencil-eigenvalue: the callable returned by `_laplace_operator_stencil(accuracy, prefactor)` (the numba kernel the
  real-space multislice uses, periodic `wrap` boundary) is applied to discrete periodic plane waves
  exp(2 pi i (m x/H + n y/W)); the result must be lambda * wave with the analytic eigenvalue
  lambda = prefactor * sum_k c_k (cos(k theta_x) + cos(k theta_y)), where the c_k are *not* read from abTEM but
  computed exactly (rational arithmetic) from the closed form of the central second-derivative weights.
  All frequencies of small grids are enumerated; large grids draw frequencies incl. 0 and Nyquist.  A random field is
  also pushed through the stencil and compared with an independent numpy roll-and-add reference (linearity, batching).
  `LaplaceOperator(accuracy).apply(waves)` is checked the same way for isotropic sampling (prefactor 1/d^2).
* coefficient order conditions: `finite_difference_coefficients(2, p)` for every even p in 2..18 satisfies
  sum c = 0, sum c k^2 = 2, sum c k^(2j) = 0 (2 <= j <= p/2), all odd moments 0, symmetry, and equals the exact
  rational weights to 1e-15; odd / non-positive accuracies are refused.
* vacuum-intensity: band-limited random waves are propagated by the real pipeline
  `Waves.multislice(zero PotentialArray, algorithm=RealSpaceMultislice(order, expansion_scope, derivative_accuracy))`;
  sum |psi|^2 must be preserved for every wave of the batch (the series is exp(i dz A) with A Hermitian).  For
  isotropic sampling the propagated wave is additionally compared with the analytic model
  psi_k * exp(i T mu_k), mu_k the Taylor-in-order series of the stencil eigenvalue (composition of clause 1 with
  the exponential series).
* lazy-equals-eager: the same real-space multislice (vacuum and real atomic potentials, Probe / PlaneWave / Waves
  builders, orders 1-3, scope propagator / full, several accuracies) is run eagerly and lazily and compared; an
  allowed refusal (DivergedError / NotConvergedError) must be raised in both modes.

* batch-equals-one-by-one: batches mix members that converge at very different series lengths (band-limited random
  wave, single plane wave, constant wave whose Laplacian is exactly 0, wave of amplitude 1e-6), on one or two ensemble
  axes; every member of the batched eager result must equal the eager run of that member alone (and, via lazy chunks of
  one member, the lazy run); intensity and the analytic phase model are judged per member, relative to that member.
* repeated-use / inputs-unchanged: one potential object (on-the-fly Potential, pre-built PotentialArray, CrystalPotential
  over a pre-built unit) is traversed several times by the real-space algorithm - eager, eager again with max_batch=1
  (several wave batches), then lazy - and every result must equal the run through a *fresh* copy of the potential
  used exactly once; afterwards the stored potential array and the input wave array must be bitwise unchanged.

accuracy > 18 needs sympy (not installed in /venv) and is outside the checked domain.
"""
import math
import warnings
from fractions import Fraction

import numpy as np

from vf import gen as G

PROPERTY = "C37"
TECHNIQUE = "runtime monitoring; analytic eigenvalue / exact rational stencil weights as formula oracle, differential lazy-vs-eager runs"
RULE = ("stencil cases: accuracy 2-18 (even), dtype complex64/complex128, prefactor from a menu (1, 285.7, -0.0123), grids "
        "1-48 per axis (square, rectangular, size-1 and smaller-than-stencil axes), batch shapes (), (3,), (2,2); all "
        "H*W discrete frequencies when H*W <= 160 else 14 drawn incl. 0 and Nyquist; vacuum cases: grids 12-36, isotropic "
        "(70 %) or anisotropic sampling, 60-300 keV, accuracy 2-18, order 1-3, scope propagator/full, 1-4 slices with "
        "dz chosen so that the band-limit series argument is 0.2-1.0, batch of 1-4 members drawn from random/plane/constant/"
        "tiny waves on one or two ensemble axes, lazy chunks of 1 or 2 members, one-by-one runs (25 %); potential cases: "
        "1-3 light atoms, Probe/PlaneWave/scan of 2 probes/explicit mixed Waves batch, potential on-the-fly / pre-built "
        "array / CrystalPotential over a built unit, each object traversed eager, eager(max_batch=1), lazy; non-trivial = non-zero frequency plane wave / propagation that changes the wave; "
        "distinct = distinct case signature")
CLAUSES = ["stencil-eigenvalue", "stencil-eigenvalue-exhaustive", "stencil-linear-reference", "coefficient-order-conditions",
           "coefficient-exact", "bad-accuracy-refused", "laplace-operator-eigenvalue", "vacuum-intensity",
           "vacuum-phase-model", "lazy-equals-eager:values", "batch-equals-one-by-one", "repeated-use:values",
           "inputs-unchanged"]
QUICK = dict(n=30, time=35)
THOROUGH = dict(n=1340, time=480, shards=16)

ACCURACIES = [2, 4, 6, 8, 10, 12, 14, 16, 18]
PREFACTORS = [1.0, 285.7142857142857, -0.0123]


# --------------------------------------------------------------------------- independent model
def exact_weights(p):
    """Exact central finite-difference weights of the second derivative with accuracy p (offsets -p/2..p/2)."""
    n = p // 2
    c = {0: -2 * sum(Fraction(1, k * k) for k in range(1, n + 1))}
    for k in range(1, n + 1):
        c[k] = Fraction(2 * (-1) ** (k + 1) * math.factorial(n) ** 2, k * k * math.factorial(n - k) * math.factorial(n + k))
    return [c[abs(k)] for k in range(-n, n + 1)]


def weights64(p):
    return np.array([float(x) for x in exact_weights(p)], dtype=np.float64)


def eigen_1d(p, N):
    """Stencil eigenvalue (unit spacing) for every discrete frequency of an N-periodic axis (fft order)."""
    c = weights64(p)
    k = np.arange(-(p // 2), p // 2 + 1)
    theta = 2 * np.pi * np.fft.fftfreq(N, 1.0 / N) / N
    return (c[None] * np.cos(theta[:, None] * k[None])).sum(1)


def plane_wave(H, W, m, n, dtype):
    x = np.arange(H)[:, None]
    y = np.arange(W)[None]
    return np.exp(2j * np.pi * ((m * x) % H / H + (n * y) % W / W)).astype(dtype)


def roll_reference(a, p, pref):
    """Independent periodic application of the stencil (float64/complex128 numpy)."""
    c = weights64(p)
    a = a.astype(np.complex128)
    out = np.zeros_like(a)
    for j, k in enumerate(range(-(p // 2), p // 2 + 1)):
        out += c[j] * (np.roll(a, -k, axis=-2) + np.roll(a, -k, axis=-1))
    return pref * out


_STENCILS = {}


def stencil(acc, pref, dtype):
    """Real abTEM stencil callables are numba closures compiled per construction: build each once per process."""
    from abtem.finite_difference import _laplace_operator_stencil
    key = (acc, pref, np.dtype(dtype).name)
    if key not in _STENCILS:
        _STENCILS[key] = _laplace_operator_stencil(acc, pref, mode="wrap", dtype=np.dtype(dtype).type)
    return _STENCILS[key]


# --------------------------------------------------------------------------- generation
def _wavelength(energy):
    h, c, me, e = 6.626070040e-34, 299792458.0, 9.10938356e-31, 1.6021766208e-19
    return h * c / np.sqrt(energy * e * (energy * e + 2 * me * c * c)) * 1e10


def _rand_size(rng):
    r = rng.random()
    if r < 0.12:
        return int(rng.integers(1, 4))
    if r < 0.45:
        return int(rng.integers(4, 13))
    return int(rng.integers(13, 49))


def gen(rng, tier):
    r = rng.random()
    if r < 0.6:
        acc = int(rng.choice(ACCURACIES))
        H, W = _rand_size(rng), _rand_size(rng)
        if rng.random() < 0.2:
            W = H
        return {"kind": "stencil", "accuracy": acc, "dtype": str(rng.choice(["complex64", "complex128", "complex128"])),
                "prefactor": PREFACTORS[(acc // 2 + int(rng.integers(0, 2))) % 3] if tier == "thorough" else
                PREFACTORS[(acc // 2) % 3],
                "shape": [H, W], "batch": [[], [3], [2, 2]][int(rng.integers(0, 3))],
                "seed": int(rng.integers(0, 2 ** 31)), "operator": bool(rng.random() < 0.2),
                "sampling": float(rng.uniform(0.03, 0.4))}
    energy = float(rng.choice([60e3, 80e3, 100e3, 200e3, 300e3]))
    acc = int(rng.choice(ACCURACIES))
    order = int(rng.integers(1, 4))
    scope = str(rng.choice(["propagator", "full"]))
    if r < 0.85:
        H, W = int(rng.integers(12, 37)), int(rng.integers(12, 37))
        d = float(rng.uniform(0.08, 0.3))
        iso = bool(rng.random() < 0.7)
        dy = d if iso else float(d * rng.uniform(0.6, 1.0))
        n = int(rng.integers(1, 5))
        members = [str(rng.choice(["random", "random", "plane", "constant", "tiny"])) for _ in range(n)]
        shape = [2, 2] if (n == 4 and rng.random() < 0.6) else [n]
        return {"kind": "vacuum", "accuracy": acc, "order": order, "scope": scope, "energy": energy, "gpts": [H, W],
                "sampling": [d, dy], "nslices": int(rng.integers(1, 5)), "x": float(rng.uniform(0.2, 1.0)),
                "members": members, "batch_shape": shape, "fraction": float(rng.uniform(0.3, 0.9)),
                "seed": int(rng.integers(0, 2 ** 31)), "lazy_chunks": int(rng.integers(1, 3)),
                "one_by_one": bool(n >= 2 and n <= 3 and rng.random() < 0.4)}
    cell = G.rand_cell_case(rng, max_atoms=3, max_xy=6.0, min_xy=4.0, max_z=3.0, min_z=1.5,
                            elements=["C", "N", "O", "Si", "Al"])
    return {"kind": "potential", "accuracy": int(rng.choice([2, 4, 6, 8, 12])), "order": order, "scope": scope,
            "energy": float(rng.choice([100e3, 200e3, 300e3])), "cell": cell, "gpts": G.rand_gpts(rng, 24, 40),
            "slice_thickness": float(rng.uniform(0.3, 0.6)),
            "builder": str(rng.choice(["probe", "plane", "probe-scan", "probe-scan", "waves"])),
            "detector": str(rng.choice(["none", "none", "annular", "pixelated"])),
            "exit_planes": bool(rng.random() < 0.3), "pos": rng.random((2, 2)).round(4).tolist(),
            "potential": str(rng.choice(["fly", "built", "built", "crystal"])),
            "repeat": bool(rng.random() < 0.6), "seed": int(rng.integers(0, 2 ** 31))}


def fixed_cases(tier):
    out = [{"kind": "coefficients"}]
    # every accuracy once on a small rectangular grid (exhaustive frequencies) in float64
    for acc in ACCURACIES:
        out.append({"kind": "stencil", "accuracy": acc, "dtype": "complex128", "prefactor": PREFACTORS[(acc // 2) % 3],
                    "shape": [7, 10], "batch": [], "seed": acc, "operator": acc == 6, "sampling": 0.1})
    # one deterministic witness of each pipeline clause, so that a time-capped run still evaluates every clause
    out.append({"kind": "stencil", "accuracy": 6, "dtype": "complex64", "prefactor": 1.0, "shape": [31, 24], "batch": [3],
                "seed": 5, "operator": False, "sampling": 0.1})
    # mixed batch on two ensemble axes: a constant wave (Laplacian exactly 0) next to waves that need many terms
    out.append({"kind": "vacuum", "accuracy": 6, "order": 2, "scope": "propagator", "energy": 100e3, "gpts": [24, 30],
                "sampling": [0.2, 0.2], "nslices": 3, "x": 0.9, "members": ["random", "constant", "plane", "tiny"],
                "batch_shape": [2, 2], "fraction": 0.85, "seed": 11, "lazy_chunks": 2, "one_by_one": False})
    out.append({"kind": "vacuum", "accuracy": 4, "order": 1, "scope": "full", "energy": 200e3, "gpts": [20, 20],
                "sampling": [0.15, 0.15], "nslices": 2, "x": 1.0, "members": ["constant", "random"],
                "batch_shape": [2], "fraction": 0.9, "seed": 12, "lazy_chunks": 1, "one_by_one": True})
    # one pre-built potential object traversed four times (eager, eager in two batches, lazy)
    cell = {"cell": [4.0, 5.0, 2.0], "symbols": ["C", "Si"], "positions": [[1.0, 1.0, 0.5], [2.5, 3.0, 1.5]]}
    out.append({"kind": "potential", "accuracy": 6, "order": 1, "scope": "full", "energy": 200e3, "cell": cell,
                "gpts": [28, 34], "slice_thickness": 0.5, "builder": "probe-scan", "detector": "none", "exit_planes": False,
                "pos": [[0.2, 0.3], [0.7, 0.6]], "potential": "built", "repeat": True, "seed": 1})
    if tier == "thorough":
        out.append({"kind": "potential", "accuracy": 4, "order": 2, "scope": "propagator", "energy": 100e3, "cell": cell,
                    "gpts": [26, 30], "slice_thickness": 0.5, "builder": "plane", "detector": "none", "exit_planes": False,
                    "pos": [[0.2, 0.3], [0.7, 0.6]], "potential": "crystal", "repeat": True, "seed": 2})
        out.append({"kind": "potential", "accuracy": 8, "order": 1, "scope": "propagator", "energy": 300e3, "cell": cell,
                    "gpts": [24, 24], "slice_thickness": 0.4, "builder": "waves", "detector": "none", "exit_planes": False,
                    "pos": [[0.2, 0.3], [0.7, 0.6]], "potential": "fly", "repeat": True, "seed": 3})
    return out


# --------------------------------------------------------------------------- checks
def check(ctx, case):
    import abtem
    with warnings.catch_warnings():
        warnings.simplefilter("ignore")
        with abtem.config.set({"diagnostics.progress_bar": False}):
            kind = case["kind"]
            if kind == "coefficients":
                _check_coefficients(ctx)
            elif kind == "stencil":
                _check_stencil(ctx, case)
            elif kind == "vacuum":
                _check_vacuum(ctx, case)
            else:
                _check_potential(ctx, case)


def _check_coefficients(ctx):
    from abtem.finite_difference import finite_difference_coefficients
    for p in ACCURACIES:
        c = np.asarray(finite_difference_coefficients(2, p), dtype=np.float64)
        n = p // 2
        if not ctx.expect(c.shape == (2 * n + 1,), "coefficient-order-conditions", accuracy=p, shape=list(c.shape)):
            continue
        k = np.arange(-n, n + 1).astype(np.float64)
        scale = float(np.abs(c).sum())
        ctx.close(c, c[::-1], "coefficient-order-conditions", rtol=0, atol=1e-15 * scale, what="symmetry", accuracy=p)
        for j in range(0, 2 * n + 1):
            # moments are evaluated exactly on the float table with rationals, so that only the table's own rounding
            # (<= 1 ulp per entry) enters
            mom = sum(Fraction(float(ci)) * Fraction(int(ki)) ** j for ci, ki in zip(c, k))
            want = 2 if j == 2 else 0
            bound = sum(abs(Fraction(float(ci))) * abs(Fraction(int(ki))) ** j for ci, ki in zip(c, k)) * Fraction(2) ** -52
            ctx.expect(abs(mom - want) <= 4 * bound, "coefficient-order-conditions", accuracy=p, moment=j,
                       got=float(mom), want=want, bound=float(bound))
        w = weights64(p)
        ctx.close(c / w, np.ones_like(w), "coefficient-exact", rtol=0, atol=4e-16, accuracy=p)
    for bad in (1, 3, 7, 0, -2):
        try:
            v = finite_difference_coefficients(2, bad)
        except ValueError:
            ctx.expect(True, "bad-accuracy-refused")
        except Exception as e:
            ctx.note("refused-with-" + type(e).__name__)
            ctx.expect(True, "bad-accuracy-refused")
        else:
            ctx.expect(False, "bad-accuracy-refused", accuracy=bad, returned=np.asarray(v).tolist())
    ctx.nontrivial()


def _frequencies(case, H, W, rng):
    if H * W <= 160:
        return [(m, n) for m in range(H) for n in range(W)], True
    f = {(0, 0), (H // 2, W // 2), (H // 2, 0), (0, W // 2), (1, 0), (0, W - 1), (H - 1, W - 1)}
    while len(f) < 14:
        f.add((int(rng.integers(0, H)), int(rng.integers(0, W))))
    return sorted(f), False


def _check_stencil(ctx, case):
    import abtem
    acc, pref = case["accuracy"], case["prefactor"]
    dtype = np.dtype(case["dtype"])
    H, W = case["shape"]
    rng = np.random.default_rng(case["seed"])
    freqs, exhaustive = _frequencies(case, H, W, rng)
    tol = 5e-6 if dtype == np.complex64 else 1e-13
    ex, ey = eigen_1d(acc, H), eigen_1d(acc, W)
    # rounding of the kernel is relative to sum|c_k| |a|, not to the eigenvalue (which vanishes on size-1 axes)
    lam_scale = abs(pref) * 2.0 * float(np.abs(weights64(acc)).sum())
    st = stencil(acc, pref, dtype)

    waves = np.stack([plane_wave(H, W, m, n, dtype) for m, n in freqs])
    lam = np.array([pref * (ex[m] + ey[n]) for m, n in freqs])
    out = st(np.ascontiguousarray(waves))
    ctx.monitor("stencil-applications")
    ctx.expect(out.dtype == dtype and out.shape == waves.shape, "stencil-eigenvalue", what="dtype/shape",
               got=str(out.dtype), shape=list(out.shape))
    clause = "stencil-eigenvalue-exhaustive" if exhaustive else "stencil-eigenvalue"
    ok = ctx.close(out, lam[:, None, None] * waves.astype(np.complex128), clause, rtol=tol, scale=lam_scale,
                   accuracy=acc, shape=[H, W], dtype=str(dtype))
    if exhaustive:
        ctx.expect(ok, "stencil-eigenvalue", accuracy=acc, shape=[H, W], dtype=str(dtype), exhaustive=True)
    ctx.monitor("plane-waves", len(freqs))
    ctx.nontrivial(any(m or n for m, n in freqs))

    # linear map on a random field with batch dimensions, against the numpy roll reference
    b = tuple(case["batch"])
    a = (rng.normal(size=b + (H, W)) + 1j * rng.normal(size=b + (H, W))).astype(dtype)
    got = st(a.copy())
    ctx.expect(got.shape == a.shape, "stencil-linear-reference", what="shape", got=list(got.shape))
    ctx.close(got, roll_reference(a, acc, pref), "stencil-linear-reference", rtol=tol, scale=lam_scale * float(np.abs(a).max()),
              accuracy=acc, shape=[H, W], batch=list(b))

    if case["operator"] and H >= 2 and W >= 2:
        # LaplaceOperator as used by multislice_step, isotropic sampling: prefactor 1/d^2, complex64 kernel
        from abtem.finite_difference import LaplaceOperator
        d = case["sampling"]
        m, n = freqs[len(freqs) // 2]
        w = abtem.Waves(plane_wave(H, W, m, n, np.complex64), energy=100e3, sampling=(d, d))
        op = LaplaceOperator(acc)
        res = op.apply(w)
        lam1 = (ex[m] + ey[n]) / d ** 2
        ctx.close(G.to_numpy(res), lam1 * plane_wave(H, W, m, n, np.complex128), "laplace-operator-eigenvalue",
                  rtol=5e-6, scale=lam_scale / abs(pref) / d ** 2, accuracy=acc, freq=[m, n])
        ctx.monitor("laplace-operator-applications")
        # the same operator object re-used for waves with another sampling (its stencil cache is keyed by sampling)
        d2 = 1.7 * d
        w2 = abtem.Waves(plane_wave(H, W, m, n, np.complex64), energy=100e3, sampling=(d2, d2))
        res2 = op.apply(w2)
        ctx.close(G.to_numpy(res2), (ex[m] + ey[n]) / d2 ** 2 * plane_wave(H, W, m, n, np.complex128),
                  "laplace-operator-eigenvalue", rtol=5e-6, scale=lam_scale / abs(pref) / d2 ** 2,
                  accuracy=acc, freq=[m, n], reused=True)


def _band_mask(gpts, d, fraction):
    H, W = gpts
    kx = np.fft.fftfreq(H, d[0])
    ky = np.fft.fftfreq(W, d[1])
    r = np.sqrt(kx[:, None] ** 2 + ky[None] ** 2)
    cut = (2.0 / 3.0) / (2 * max(d)) - 0.01 / max(d)      # fully transmitted zone of abTEM's anti-aliasing aperture
    mask = r <= fraction * cut
    mask[0, 0] = True
    return mask


def _members(kinds, gpts, d, fraction, rng):
    """Band-limited waves (n, H, W), each scaled to max |psi| = 1 (1e-6 for a `tiny` member)."""
    H, W = gpts
    mask = _band_mask(gpts, d, fraction)
    idx = np.argwhere(mask)
    out = []
    for kind in kinds:
        if kind == "constant":
            a = np.ones((H, W), dtype=np.complex128) * np.exp(1j * rng.uniform(0, 2 * np.pi))
        elif kind == "plane":
            m, n = idx[int(rng.integers(0, len(idx)))]
            a = plane_wave(H, W, int(m), int(n), np.complex128)
        else:
            a = np.fft.ifft2((rng.normal(size=(H, W)) + 1j * rng.normal(size=(H, W))) * mask)
        a = a / np.abs(a).max()
        if kind == "tiny":
            a = a * 1e-6
        out.append(a)
    return np.stack(out).astype(np.complex64), mask


def _mu(case, lam_e):
    """Per-frequency exponent of one unit of thickness for the propagator series of the given order."""
    H, W = case["gpts"]
    d = case["sampling"]
    pref = 1.0 / (d[0] * d[1])
    e = (eigen_1d(case["accuracy"], H)[:, None] + eigen_1d(case["accuracy"], W)[None]) * pref
    K0 = 1.0 / lam_e
    mu1 = e / (4 * np.pi * K0)
    mu, t = mu1.copy(), mu1.copy()
    for i in range(2, case["order"] + 1):
        t = t * mu1
        mu = mu + t * (lam_e / (-2.0 * np.pi)) ** (i - 1) * 0.5
    return mu, mu1


def _refusal(e):
    from abtem.finite_difference import DivergedError, NotConvergedError
    return isinstance(e, (DivergedError, NotConvergedError))


def _run_both(ctx, make, clause_detail):
    """Run `make(lazy)` eagerly and lazily; classify allowed refusals."""
    res = {}
    for lazy in (False, True):
        try:
            out = make(lazy)
            if isinstance(out, (list, tuple)):
                out = [o.compute() if o.is_lazy else o for o in out]
            elif out.is_lazy:
                out = out.compute()
            res[lazy] = ("ok", out)
        except Exception as e:
            if not _refusal(e):
                raise
            res[lazy] = ("refused", type(e).__name__)
    if res[False][0] != res[True][0]:
        ctx.expect(False, "lazy-equals-eager:values", eager=res[False][0], lazy=res[True][0], **clause_detail)
        return None
    if res[False][0] == "refused":
        ctx.note("series-refused-in-both-modes")
        return None
    return res[False][1], res[True][1]


def _ensemble_axes(shape):
    from abtem.core.axes import OrdinalAxis
    return [OrdinalAxis(label="e%d" % i, values=tuple(range(n))) for i, n in enumerate(shape)]


def _check_vacuum(ctx, case):
    import abtem
    from abtem.multislice import RealSpaceMultislice
    rng = np.random.default_rng(case["seed"])
    H, W = case["gpts"]
    d = tuple(case["sampling"])
    flat, mask = _members(case["members"], (H, W), d, case["fraction"], rng)
    bshape = tuple(case["batch_shape"])
    a = flat.reshape(bshape + (H, W))
    lam_e = _wavelength(case["energy"])
    mu, mu1 = _mu(case, lam_e)
    # slice thickness from the wanted series argument at the band limit
    dz = case["x"] / float(np.abs(mu1[mask]).max() + 1e-30) if mask.sum() > 1 else 1.0
    dz = float(min(dz, 8.0))
    nz = case["nslices"]
    alg = RealSpaceMultislice(order=case["order"], expansion_scope=case["scope"], derivative_accuracy=case["accuracy"])
    pot = abtem.PotentialArray(np.zeros((nz, H, W), dtype=np.float32), slice_thickness=dz, sampling=d)
    inputs = {}

    def make(lazy):
        w = abtem.Waves(a.copy(), energy=case["energy"], sampling=d, ensemble_axes_metadata=_ensemble_axes(bshape))
        if lazy:
            w = w.ensure_lazy(chunks=(case["lazy_chunks"],) * len(bshape) + (-1, -1))
        else:
            inputs["waves"] = w
        return w.multislice(pot, algorithm=alg)

    both = _run_both(ctx, make, dict(kind="vacuum"))
    if both is None:
        return
    eager, lazy = both
    G.compare_objects(ctx, lazy, eager, "lazy-equals-eager", rtol=2e-5, atol_rel=2e-6)
    ctx.expect(np.array_equal(np.asarray(inputs["waves"].array), a) and not np.asarray(pot.array).any(),
               "inputs-unchanged", what="vacuum waves / potential")
    o = G.to_numpy(eager)
    if not ctx.expect(o.shape == a.shape, "vacuum-intensity", what="shape", got=list(o.shape)):
        return
    of = o.reshape(flat.shape)
    mscale = np.abs(flat).max((-2, -1))
    i0 = (np.abs(flat.astype(np.complex128)) ** 2).sum((-2, -1))
    i1 = (np.abs(of.astype(np.complex128)) ** 2).sum((-2, -1))
    ctx.close(i1 / i0, np.ones_like(i0), "vacuum-intensity", rtol=2e-5, accuracy=case["accuracy"], order=case["order"],
              scope=case["scope"], nslices=nz, dz=dz, members=case["members"])
    ctx.monitor("vacuum-propagations")
    moved = float(np.abs(of / mscale[:, None, None] - flat / mscale[:, None, None]).max())
    ctx.nontrivial(moved > 1e-3)
    if d[0] == d[1]:
        want = np.fft.ifft2(np.fft.fft2(flat.astype(np.complex128)) * np.exp(1j * nz * dz * mu))
        # judged per member, relative to that member's own amplitude
        ctx.close(of / mscale[:, None, None], want / mscale[:, None, None], "vacuum-phase-model", rtol=2e-5, scale=1.0,
                  accuracy=case["accuracy"], order=case["order"], scope=case["scope"], nslices=nz, dz=dz,
                  members=case["members"])
    else:
        ctx.note("anisotropic-sampling: LaplaceOperator uses 1/(dx*dy) for both directions (outside the statement)")
    if case["one_by_one"]:
        for j in range(flat.shape[0]):
            w1 = abtem.Waves(flat[j].copy(), energy=case["energy"], sampling=d)
            try:
                single = G.to_numpy(w1.multislice(pot, algorithm=alg))
            except Exception as e:
                if not _refusal(e):
                    raise
                # the series' convergence test is relative to the whole batch, so an extreme member (amplitude 1e-6) can
                # be refused on its own (DivergedError / NotConvergedError) while the batch converges: a refusal is not
                # a wrong result, and batch-independence of *refusals* is not part of the statement -> noted, not judged
                ctx.note("one-by-one-run-refused-" + type(e).__name__)
                continue
            ctx.close(of[j] / mscale[j], single / mscale[j], "batch-equals-one-by-one", rtol=2e-5, scale=1.0,
                      member=case["members"][j], members=case["members"])
        ctx.monitor("one-by-one-runs", flat.shape[0])


def _attempt(fn):
    try:
        out = fn()
        if isinstance(out, (list, tuple)):
            out = [o.compute() if o.is_lazy else o for o in out]
        elif out.is_lazy:
            out = out.compute()
        return "ok", out
    except Exception as e:
        if not _refusal(e):
            raise
        return "refused", type(e).__name__


def _check_potential(ctx, case):
    import abtem
    from abtem.multislice import RealSpaceMultislice
    atoms = G.atoms_from(case["cell"])
    gpts = tuple(case["gpts"])
    alg = RealSpaceMultislice(order=case["order"], expansion_scope=case["scope"], derivative_accuracy=case["accuracy"])
    ep = 2 if case["exit_planes"] else None
    kind = case["potential"]

    def fly(exit_planes=ep):
        return abtem.Potential(atoms, gpts=gpts, slice_thickness=case["slice_thickness"], projection="finite",
                               exit_planes=exit_planes)

    saved = stored = None
    if kind == "built":
        shared = fly().build(lazy=False)
        stored = shared
        saved = np.array(shared.array, copy=True)

        def fresh():
            return abtem.PotentialArray(saved.copy(), slice_thickness=tuple(shared.slice_thickness),
                                        sampling=shared.sampling, exit_planes=tuple(shared.exit_planes))
    elif kind == "crystal":
        unit = fly(exit_planes=None).build(lazy=False)
        stored = unit
        saved = np.array(unit.array, copy=True)
        shared = abtem.CrystalPotential(unit, repetitions=(1, 1, 2), exit_planes=ep)

        def fresh():
            # every slice object is used exactly once: the stack is tiled into a new array
            return abtem.PotentialArray(np.tile(saved, (2, 1, 1)), slice_thickness=tuple(unit.slice_thickness) * 2,
                                        sampling=unit.sampling, exit_planes=tuple(shared.exit_planes))
    else:
        shared = fly()
        fresh = fly
    ext = shared.extent

    def detector():
        if case["detector"] == "annular":
            # limits inside the simulated range of this grid/energy (a fixed 40 mrad can exceed it on coarse grids)
            probe = abtem.PlaneWave(energy=case["energy"], gpts=gpts, extent=ext)
            amax = 0.95 * min(probe.cutoff_angles)
            return abtem.AnnularDetector(inner=0.25 * amax, outer=amax)
        if case["detector"] == "pixelated":
            return abtem.PixelatedDetector(max_angle="valid")
        return None

    wave_in = {}
    if case["builder"] == "waves":
        d = (ext[0] / gpts[0], ext[1] / gpts[1])
        batch, _ = _members(["random", "constant", "plane"], gpts, d, 0.5, np.random.default_rng(case["seed"]))

    def run(pot, lazy, max_batch="auto"):
        if case["builder"] == "waves":
            # explicit mixed batch: the constant member needs far fewer series terms than the others in vacuum regions
            w = abtem.Waves(batch.copy(), energy=case["energy"], extent=ext, ensemble_axes_metadata=_ensemble_axes((3,)))
            if lazy:
                w = w.ensure_lazy(chunks=(1, -1, -1))
            else:
                wave_in["w"] = w
            return w.multislice(pot, detectors=detector(), algorithm=alg)
        if case["builder"] == "plane":
            b = abtem.PlaneWave(energy=case["energy"], gpts=gpts, extent=ext)
            return b.multislice(pot, detectors=None, lazy=lazy, max_batch=max_batch, algorithm=alg)
        probe = abtem.Probe(energy=case["energy"], semiangle_cutoff=15.0, gpts=gpts, extent=ext, defocus=20.0)
        pts = np.asarray(case["pos"]) * np.asarray(ext)
        if case["builder"] == "probe":
            pts = pts[:1]
        return probe.multislice(pot, scan=abtem.CustomScan(pts), detectors=detector(), lazy=lazy, max_batch=max_batch,
                                algorithm=alg)

    # order matters: the reference uses a fresh potential once; then the shared object is traversed again and again
    runs = [("reference", _attempt(lambda: run(fresh(), False))), ("eager", _attempt(lambda: run(shared, False)))]
    if case["repeat"]:
        runs.append(("eager-batches", _attempt(lambda: run(shared, False, max_batch=1))))
    runs.append(("lazy", _attempt(lambda: run(shared, True))))
    status = {r[1][0] for r in runs}
    if len(status) > 1:
        ctx.expect(False, "repeated-use:values", statuses={n: r[0] for n, r in runs}, potential=kind)
        return
    if status == {"refused"}:
        ctx.note("series-refused-in-all-runs")
        return
    res = {n: r[1] for n, r in runs}
    G.compare_objects(ctx, res["lazy"], res["eager"], "lazy-equals-eager", rtol=5e-5, atol_rel=5e-6)
    for name in res:
        if name != "reference":
            G.compare_objects(ctx, res[name], res["reference"], "repeated-use", rtol=5e-5, atol_rel=5e-6, run=name,
                              potential=kind, builder=case["builder"])
    if stored is not None:
        ctx.expect(np.array_equal(np.asarray(stored.array), saved), "inputs-unchanged", what="potential array",
                   potential=kind, maxdiff=float(np.abs(np.asarray(stored.array) - saved).max()))
    if "w" in wave_in:
        ctx.expect(np.array_equal(np.asarray(wave_in["w"].array), batch), "inputs-unchanged", what="input waves")
    ctx.monitor("potential-multislice-runs", len(runs))
    eager = res["eager"]
    arr = G.to_numpy(eager[0] if isinstance(eager, list) else eager)
    ctx.nontrivial(bool(np.isfinite(arr).all()) and float(np.abs(arr).max()) > 0)
