"""C21 The contrast transfer function implements the polar aberration expansion.

Oracle: a float64 model of Kirkland Eq. 2.22 that knows nothing about abTEM's tables:

    chi(alpha, phi) = sum_nm  C_nm * alpha**(n+1) * cos(m * (phi - phi_nm)) / (n + 1)
    kernel          = exp(-2 pi i chi / lambda)

with (n, m) parsed from the symbol name, the 25 symbols and the 25 aliases hard-coded here (so that an edited entry of
`polar_aliases` is seen) and the wavelength from hard-coded CODATA-2014 constants (validated by C24).  The real code is
observed on

  * grids: `Aberrations`/`CTF` objects with energy/gpts/sampling -> `_evaluate_kernel()`; the reference (alpha, phi) of
    every pixel is rebuilt from `numpy.fft.fftfreq` in float64,
  * explicit (alpha, phi) sample arrays (incl. alpha = 0 and phi = +-pi) -> `_evaluate_from_angular_grid`,
  * a real pipeline: `Waves(delta).apply_ctf(ctf)`; the DFT of the result is the kernel,
  * the complete CTF (aperture, temporal and spatial envelope switched on): wherever it transmits (> 0.05) its phase
    must still be the aberration phase,
  * ensembles: one or two coefficients given as distributions (uniform, Gaussian with 'intensity' / 'amplitude'
    normalisation, user-weighted); every member must be w * exp(-2 pi i chi / lambda) with w the product of the
    quadrature weights of the *coefficient* distributions, recomputed here from the Gaussian formula; weights of
    focal-spread / angular-spread / cutoff distributions of a CTF must not enter (zero angle is transmitted with 1).

Histories: ONE live Aberrations/CTF object is evaluated, exactly one of energy / gpts / sampling / extent / a coefficient is
changed (public attributes, `set_aberrations`, or implicit matching to waves of another energy or grid through
`_evaluate_kernel(waves)` / `waves.apply_transform`) and it is evaluated again; every evaluation is judged by the chi oracle
for the current state and must equal the kernel of a fresh object with the same parameters (no state may survive a change).

Metamorphic clause (independent of the chi model): kernel[all phi_nm + delta](alpha, phi) == kernel(alpha, phi - delta).

Coefficients are set through every public route (kwargs, dict, attribute, `set_aberrations`, mixed dict+kwargs, 'scherzer')
under symbol names and alias names; `defocus` must be `-C10` for reading and writing.
"""
import math

import numpy as np

PROPERTY = "C21"
TECHNIQUE = "runtime monitoring; float64 formula oracle (Kirkland Eq. 2.22) on grids and explicit samples + rotation metamorphic relation"
RULE = ("fixed: each of the 25 polar symbols alone, each of the 12 (C_nm, phi_nm) pairs, each of the 25 aliases alone, in float64 "
        "and float32; random: subsets of 1-25 symbols whose per-term phase at the largest sampled angle is log-uniform in "
        "[0.01, 60] rad with random sign (so that every term matters), angles in [-7, 7] rad, energies 20 keV-1 MeV, "
        "anisotropic odd/even/size-1 grids, names drawn from symbols and aliases, setting route drawn from "
        "kwargs/dict/attribute/set_aberrations/mixed, class Aberrations or CTF, precision float64/float32; scherzer cases; "
        "histories of 2-5 single-parameter changes on one live object (explicit setters or matching to waves); "
        "ensemble cases with 1-2 uniform / Gaussian-weighted (intensity, amplitude) / user-weighted coefficient distributions and "
        "complete CTFs whose focal spread / angular spread / cutoff are such distributions; non-trivial = at least one magnitude coefficient is non-zero and the maximal phase exceeds 0.05 rad; "
        "distinct = distinct case signature")
CLAUSES = ["symbol-set", "stored-coefficient", "alias-get", "defocus-is-minus-C10", "unset-are-zero", "grid-kernel",
           "explicit-kernel", "alpha-zero-is-one", "phi-pm-pi", "rotation-metamorphic", "rotation-oracle", "apply-kernel",
           "scherzer", "ensemble-member-kernel", "grid-kernel-f32", "explicit-kernel-f32", "rotation-metamorphic-f32",
           "rotation-oracle-f32", "full-ctf-phase", "full-ctf-phase-f32", "full-ctf-dc-is-one",
           "weighted-ensemble-member-kernel", "history-state", "history-kernel", "history-kernel-f32", "history-equals-fresh"]
QUICK = dict(n=420, time=40)
THOROUGH = dict(n=192000, time=480, shards=16)
ASSUMPTIONS = ["wavelength taken from CODATA-2014 closed form (checked against abTEM by C24)",
               "float32 runs are compared with a tolerance proportional to the maximal phase (float32 rounding of alpha/phi)"]

# CODATA 2014 (ase.units default), as in C24
_H, _C, _ME, _E = 6.626070040e-34, 299792458.0, 9.10938356e-31, 1.6021766208e-19

MAGNITUDES = ["C10", "C12", "C21", "C23", "C30", "C32", "C34", "C41", "C43", "C45", "C50", "C52", "C54", "C56"]
ANGLES = ["phi12", "phi21", "phi23", "phi32", "phi34", "phi41", "phi43", "phi45", "phi52", "phi54", "phi56"]
SYMBOLS = MAGNITUDES + ANGLES
# the names documented by abTEM (walkthrough "contrast transfer function") for Kirkland's coefficients
ALIASES = {
    "defocus": "C10", "Cs": "C30", "C5": "C50",
    "astigmatism": "C12", "astigmatism_angle": "phi12",
    "astigmatism3": "C32", "astigmatism3_angle": "phi32",
    "astigmatism5": "C52", "astigmatism5_angle": "phi52",
    "coma": "C21", "coma_angle": "phi21",
    "coma4": "C41", "coma4_angle": "phi41",
    "trefoil": "C23", "trefoil_angle": "phi23",
    "trefoil4": "C43", "trefoil4_angle": "phi43",
    "quadrafoil": "C34", "quadrafoil_angle": "phi34",
    "quadrafoil5": "C54", "quadrafoil5_angle": "phi54",
    "pentafoil": "C45", "pentafoil_angle": "phi45",
    "hexafoil": "C56", "hexafoil_angle": "phi56",
}
ALIAS_OF = {v: k for k, v in ALIASES.items()}
HOWS = ["kwargs", "dict", "attr", "set_aberrations", "mixed"]


# --------------------------------------------------------------------------- reference model
def wl_ref(en):
    return _H * _C / math.sqrt(en * _E * (en * _E + 2 * _ME * _C * _C)) * 1e10


def nm(symbol):
    return int(symbol[-2]), int(symbol[-1])


def chi_ref(coeffs, alpha, phi):
    """Kirkland Eq. 2.22 in float64; coeffs maps polar symbols to floats (missing = 0)."""
    alpha = np.asarray(alpha, dtype=np.float64)
    phi = np.asarray(phi, dtype=np.float64)
    chi = np.zeros(np.broadcast(alpha, phi).shape, dtype=np.float64)
    for s in MAGNITUDES:
        c = float(coeffs.get(s, 0.0))
        if c == 0.0:
            continue
        n, m = nm(s)
        ang = float(coeffs.get("phi%d%d" % (n, m), 0.0)) if m else 0.0
        chi = chi + c * alpha ** (n + 1) * np.cos(m * (phi - ang)) / (n + 1)
    return chi


def phase_scale(coeffs, amax, lam):
    """Upper bound of |2 pi chi / lambda| for alpha <= amax."""
    return 2 * math.pi / lam * sum(abs(float(coeffs.get(s, 0.0))) * amax ** (nm(s)[0] + 1) / (nm(s)[0] + 1)
                                   for s in MAGNITUDES)


def kernel_ref(coeffs, alpha, phi, lam):
    return np.exp(-2j * np.pi * chi_ref(coeffs, alpha, phi) / lam)


def grid_angles(gpts, sampling, lam):
    kx = np.fft.fftfreq(gpts[0], sampling[0])
    ky = np.fft.fftfreq(gpts[1], sampling[1])
    alpha = lam * np.sqrt(kx[:, None] ** 2 + ky[None, :] ** 2)
    phi = np.arctan2(ky[None, :], kx[:, None]) + 0.0 * kx[:, None]
    return alpha, phi


def grid_amax(gpts, sampling, lam):
    a, _ = grid_angles(gpts, sampling, lam)
    return float(a.max())


# --------------------------------------------------------------------------- distributions (JSON <-> abTEM, reference weights)
def rand_dist(rng, center, scale, nonneg=False, p_weighted=0.7):
    """JSON description of a 1-4 member distribution spanning about center +- scale (scale > 0).

    {"dist": [lo, hi, n]}                                      uniform, unit weights
    {"gauss": [std, n, center, limit, normalize, ens_mean]}    abtem.distributions.gaussian (weighted)
    {"values": [...], "weights": [...]}                        abtem.distributions.from_values with weights in (0, 1]
    """
    n = int(rng.integers(1, 5))
    scale = float(abs(scale)) or 1.0
    center = float(center)
    if nonneg and center - 1.001 * scale < 0:
        center = 1.001 * scale          # every member stays >= 0 also after rounding
    k = rng.random()
    if k >= p_weighted:
        return {"dist": [center - scale, center + scale, n]}
    if k < 0.75 * p_weighted:
        limit = float(rng.choice([1.0, 2.0, 3.0]))
        return {"gauss": [scale / limit, n, center, limit, str(rng.choice(["intensity", "amplitude"])),
                          bool(rng.random() < 0.5)]}
    vals = sorted(float(center + scale * u) for u in rng.uniform(-1, 1, n))
    return {"values": vals, "weights": [float(w) for w in rng.uniform(0.05, 1.0, n)]}


def dist_from_json(x):
    """(abTEM distribution, member values, reference weights) -- values and weights are computed here, not read back."""
    import abtem
    if "dist" in x:
        lo, hi, n = x["dist"]
        return abtem.distributions.uniform(lo, hi, int(n)), np.linspace(lo, hi, int(n)), np.ones(int(n))
    if "gauss" in x:
        std, n, center, limit, normalize, mean = x["gauss"]
        obj = abtem.distributions.gaussian(standard_deviation=std, num_samples=int(n), center=center, sampling_limit=limit,
                                           normalize=normalize, ensemble_mean=bool(mean))
        v = np.linspace(center - limit * std, center + limit * std, int(n)) if int(n) > 1 else np.array([float(center)])
        w = np.exp(-0.5 * ((v - center) / std) ** 2)
        w = w / math.sqrt(float((w ** 2).sum())) if normalize == "intensity" else w / float(w.sum())
        return obj, v, w
    v = np.asarray(x["values"], dtype=float)
    w = np.asarray(x["weights"], dtype=float)
    return abtem.distributions.from_values(v.copy(), weights=w.copy()), v, w


def is_dist(x):
    return isinstance(x, dict)


# --------------------------------------------------------------------------- histories on ONE object (shared with C23)
HIST_ENERGIES = [40e3, 60e3, 80e3, 100e3, 200e3, 300e3]


def rand_history(rng, extra_ops=()):
    """Start state + 2-5 steps, each changing exactly one thing of one live object.

    mode 'explicit': object built with energy and a grid (given as gpts+sampling, gpts+extent or extent+sampling); steps set
                     energy / gpts / sampling / extent through the public attributes (or one of `extra_ops`).
    mode 'match'   : object built without energy and grid; every step evaluates it for waves (delta wave functions) that
                     differ from the previous waves in exactly one of energy / gpts / sampling; the object is matched to them
                     implicitly (`_evaluate_kernel(waves)` or `waves.apply_transform(obj)`).
    """
    g = [int(rng.integers(4, 22)), int(rng.integers(4, 22))]
    s = [float(rng.uniform(0.06, 0.3)), float(rng.uniform(0.06, 0.3))]
    energy = float(rng.choice(HIST_ENERGIES))
    mode = "explicit" if rng.random() < 0.6 else "match"
    hist = {"mode": mode, "energy": energy, "gpts": list(g), "sampling": list(s),
            "form": str(rng.choice(["gpts-sampling", "gpts-extent", "extent-sampling"])), "steps": []}
    ops = ["energy", "energy", "gpts", "sampling"] + (["extent"] if mode == "explicit" else []) + list(extra_ops)
    for i in range(int(rng.integers(2, 6))):
        op = "energy" if (i == 0 and rng.random() < 0.6) else str(rng.choice(ops))
        step = {"op": op}
        if op == "energy":
            energy = float(rng.choice([e for e in HIST_ENERGIES if e != energy]))
            step["value"] = energy
        elif op == "gpts":
            g = [max(2, g[0] + int(rng.integers(-3, 4))), max(2, g[1] + int(rng.integers(-3, 4)))]
            step["value"] = list(g)
        elif op == "sampling":
            s = [s[0] * float(rng.uniform(0.8, 1.25)), s[1] * float(rng.uniform(0.8, 1.25))]
            step["value"] = list(s)
        elif op == "extent":
            f = [float(rng.uniform(0.8, 1.25)), float(rng.uniform(0.8, 1.25))]
            step["value"] = [g[0] * s[0] * f[0], g[1] * s[1] * f[1]]
            s = [s[0] * f[0], s[1] * f[1]]
        if mode == "match":
            step.update(energy=energy, gpts=list(g), sampling=list(s), via=str(rng.choice(["kernel", "transform"])))
        hist["steps"].append(step)
    return hist


def history_amax(hist):
    """Generous bound of the largest scattering angle any state of the history can reach."""
    lam = max(wl_ref(e) for e in HIST_ENERGIES)
    smin = [min([hist["sampling"][i]] + [st["sampling"][i] for st in hist["steps"] if "sampling" in st]
                + [st["value"][i] for st in hist["steps"] if st["op"] == "sampling"]) for i in (0, 1)]
    return 1.6 * lam * math.hypot(0.5 / smin[0], 0.5 / smin[1])


def history_grid_kwargs(hist):
    g, s = hist["gpts"], hist["sampling"]
    ext = (g[0] * s[0], g[1] * s[1])
    if hist["form"] == "gpts-sampling":
        return dict(gpts=tuple(g), sampling=tuple(s))
    if hist["form"] == "gpts-extent":
        return dict(gpts=tuple(g), extent=ext)
    return dict(extent=ext, sampling=tuple(s))


def delta_waves(energy, gpts, sampling, f32):
    import abtem
    arr = np.zeros(tuple(gpts), dtype=np.complex64 if f32 else np.complex128)
    arr[0, 0] = 1.0
    return abtem.Waves(arr, energy=energy, sampling=tuple(sampling))


def history_step(obj, step, f32):
    """Apply a grid/energy/match step to the live object; returns the kernel (DFT of the output for 'transform')."""
    op = step["op"]
    if "via" in step:                                    # match mode: every step evaluates for its waves
        waves = delta_waves(step["energy"], step["gpts"], step["sampling"], f32)
        if step["via"] == "kernel":
            return np.asarray(obj._evaluate_kernel(waves))
        out = waves.apply_transform(obj).array
        out = out.compute() if hasattr(out, "compute") else out
        return np.fft.fft2(np.asarray(out).astype(np.complex128))
    if op == "energy":
        obj.energy = step["value"]
    elif op in ("gpts", "sampling", "extent"):
        setattr(obj, op, tuple(step["value"]))
    return None


# --------------------------------------------------------------------------- generator
def _rand_grid(rng):
    k = rng.random()
    if k < 0.08:
        g = [1, int(rng.integers(2, 24))]
        if rng.random() < 0.5:
            g = g[::-1]
    else:
        g = [int(rng.integers(2, 28)), int(rng.integers(2, 28))]
    s = [float(rng.uniform(0.04, 0.5)), float(rng.uniform(0.04, 0.5))]
    if rng.random() < 0.3:
        s[1] = s[0]
    return g, s


def _rand_coeffs(rng, symbols, amax, lam):
    """Values such that every magnitude term contributes a phase of 0.01-60 rad at alpha = amax."""
    out = {}
    for s in symbols:
        if s in MAGNITUDES:
            n = nm(s)[0]
            p = float(10 ** rng.uniform(-2, 1.78)) * (1 if rng.random() < 0.5 else -1)
            out[s] = p * lam * (n + 1) / (2 * math.pi * amax ** (n + 1))
        else:
            r = rng.random()
            if r < 0.1:
                out[s] = float(rng.choice([math.pi, -math.pi, math.pi / 2, 2 * math.pi, -math.pi / 4]))
            else:
                out[s] = float(rng.uniform(-7, 7))
    return out


def _names(rng, coeffs, p_alias):
    names = {}
    for s in coeffs:
        names[s] = ALIAS_OF[s] if rng.random() < p_alias else s
    return names


def _base(rng):
    en = float(rng.choice([20e3, 60e3, 80e3, 100e3, 200e3, 300e3, 1e6])) if rng.random() < 0.6 else float(
        10 ** rng.uniform(math.log10(2e4), 6))
    g, s = _rand_grid(rng)
    lam = wl_ref(en)
    return {"energy": en, "gpts": g, "sampling": s,
            "precision": "float64" if rng.random() < 0.6 else "float32",
            "cls": str(rng.choice(["Aberrations", "CTF"])),
            "how": str(rng.choice(HOWS)),
            "pt_seed": int(rng.integers(0, 2 ** 31)),
            "delta": float(rng.uniform(-7, 7)),
            "apply": bool(rng.random() < 0.25)}, lam


def gen(rng, tier):
    case, lam = _base(rng)
    amax = grid_amax(case["gpts"], case["sampling"], lam)
    k = rng.random()
    if k < 0.10:
        # Scherzer: C30 given first, defocus = 'scherzer' afterwards
        cs = float(10 ** rng.uniform(4, 8)) * (1 if rng.random() < 0.75 else -1)
        extra = [s for s in SYMBOLS if s not in ("C10", "C30") and rng.random() < 0.15]
        coeffs = _rand_coeffs(rng, extra, amax, lam)
        case.update(kind="scherzer", cs=cs, cs_name=str(rng.choice(["Cs", "C30"])),
                    word=str(rng.choice(["scherzer", "Scherzer", "SCHERZER"])), coeffs=coeffs,
                    names=_names(rng, coeffs, 0.3), how=str(rng.choice(["kwargs", "dict", "set_aberrations"])))
        return case
    if k < 0.22:
        # history on ONE object: evaluate, change exactly one thing, evaluate again
        hist = rand_history(rng, extra_ops=("coeff", "coeff"))
        lam_h = max(wl_ref(e) for e in HIST_ENERGIES)
        symbols = [str(x) for x in rng.choice(SYMBOLS, size=int(rng.integers(2, 9)), replace=False)]
        for x in list(symbols):
            if x in ANGLES and ("C" + x[3:]) not in symbols:
                symbols.append("C" + x[3:])
        coeffs = _rand_coeffs(rng, symbols, history_amax(hist), lam_h)
        for st in hist["steps"]:
            if st["op"] == "coeff":
                sym = str(rng.choice(SYMBOLS))
                st.update(symbol=sym, value=_rand_coeffs(rng, [sym], history_amax(hist), lam_h)[sym],
                          name=ALIAS_OF[sym] if rng.random() < 0.4 else sym,
                          how=str(rng.choice(["attr", "set_aberrations"])))
        case.update(kind="history", hist=hist, coeffs=coeffs, names={})
        return case
    if k < 0.36:
        # one or two coefficients (magnitudes or angles) are distributions: uniform, Gaussian-weighted or user-weighted
        syms = [str(x) for x in rng.choice(SYMBOLS, size=int(rng.choice([1, 1, 2])), replace=False)]
        others = [x for x in SYMBOLS if x not in syms and rng.random() < 0.2]
        for sym in syms:
            n, m = nm(sym)
            partner = ("phi%d%d" % (n, m)) if sym in MAGNITUDES else ("C%d%d" % (n, m))
            if m and partner not in others and partner not in syms:
                others.append(partner)
        coeffs = _rand_coeffs(rng, others, amax, lam)
        dists = []
        for sym in syms:
            c = _rand_coeffs(rng, [sym], amax, lam)[sym]
            scale = abs(c) * float(rng.uniform(0.05, 1.5)) if sym in MAGNITUDES else float(rng.uniform(0.05, 2.0))
            name = ALIAS_OF[sym] if rng.random() < 0.3 else sym
            dists.append({"symbol": sym, "name": name, "dist": rand_dist(rng, c, scale)})
        case.update(kind="ensemble", dists=dists, coeffs=coeffs, names=_names(rng, coeffs, 0.3))
        return case
    # random subsets
    r = rng.random()
    if r < 0.25:
        count = 25
    elif r < 0.5:
        count = int(rng.integers(1, 4))
    else:
        count = int(rng.integers(2, 25))
    symbols = [str(s) for s in rng.choice(SYMBOLS, size=count, replace=False)]
    # an angle without its magnitude is legal but inert: add the magnitude most of the time
    for s in list(symbols):
        if s in ANGLES and rng.random() < 0.8:
            mag = "C" + s[3:]
            if mag not in symbols:
                symbols.append(mag)
    coeffs = _rand_coeffs(rng, symbols, amax, lam)
    if rng.random() < 0.1:
        coeffs[str(rng.choice(list(coeffs)))] = 0.0
    if rng.random() < 0.15:
        # realistic uncorrected-microscope values
        coeffs.update({"C30": float(rng.uniform(0.3e7, 2.5e7)), "C10": float(-rng.uniform(100, 900))})
    case.update(kind="subset", coeffs=coeffs, names=_names(rng, coeffs, float(rng.choice([0.0, 0.5, 1.0]))))
    if case["cls"] == "CTF" and rng.random() < 0.5:
        # the complete CTF (aperture and envelopes are real and non-negative: they must not change the phase)
        case["full"] = {"cutoff": float(rng.uniform(0.3, 1.3) * amax * 1e3), "soft": bool(rng.random() < 0.5),
                        "focal": float(rng.choice([0.0, rng.uniform(0, 40)])),
                        "angular": float(rng.choice([0.0, rng.uniform(0, 1.0)]))}
        # any of the three may be a (weighted) distribution: their weights must not enter the kernel
        if rng.random() < 0.4:
            case["full"]["focal"] = rand_dist(rng, float(rng.uniform(5, 40)), float(rng.uniform(1, 30)))
        if rng.random() < 0.25:
            case["full"]["angular"] = rand_dist(rng, float(rng.uniform(0.1, 1.0)), float(rng.uniform(0.05, 0.5)), nonneg=True)
        if rng.random() < 0.25:
            c0 = case["full"]["cutoff"]
            case["full"]["cutoff"] = rand_dist(rng, c0, c0 * float(rng.uniform(0.05, 0.6)), nonneg=True)
    return case


def fixed_cases(tier):
    out = []
    en, g, s = 100e3, [9, 12], [0.13, 0.2]
    lam = wl_ref(en)
    amax = grid_amax(g, s, lam)
    k = 0

    def mk(coeffs, names, prec, how, cls, **kw):
        nonlocal k
        k += 1
        c = {"energy": en, "gpts": g, "sampling": s, "precision": prec, "cls": cls, "how": how, "pt_seed": 1000 + k,
             "delta": 0.37 + 0.61 * (k % 7) - 2.0, "apply": k % 5 == 0, "kind": "subset", "coeffs": coeffs, "names": names}
        c.update(kw)
        return c

    def val(sym, j):
        if sym in MAGNITUDES:
            n = nm(sym)[0]
            p = [7.3, -2.1, 19.0][j % 3]
            return p * lam * (n + 1) / (2 * math.pi * amax ** (n + 1))
        return [0.7, -2.9, 4.1][j % 3]

    j = 0
    for prec in ("float64", "float32"):
        # each of the 25 symbols alone (an angle alone leaves chi == 0), under its symbol name
        for sym in SYMBOLS:
            j += 1
            out.append(mk({sym: val(sym, j)}, {sym: sym}, prec, HOWS[j % 5], ["Aberrations", "CTF"][j % 2]))
        # each (C_nm, phi_nm) pair
        for a in ANGLES:
            j += 1
            mag = "C" + a[3:]
            out.append(mk({mag: val(mag, j), a: val(a, j)}, {mag: mag, a: a}, prec, HOWS[j % 5],
                          ["Aberrations", "CTF"][j % 2]))
        # each alias alone (angles together with their magnitude, set by symbol name)
        for alias, sym in ALIASES.items():
            j += 1
            coeffs, names = {sym: val(sym, j)}, {sym: alias}
            if sym in ANGLES:
                mag = "C" + sym[3:]
                coeffs[mag] = val(mag, j)
                names[mag] = mag
            out.append(mk(coeffs, names, prec, HOWS[j % 5], ["Aberrations", "CTF"][j % 2]))
    # all 25 at once, all aliases, every route
    full = {sym: val(sym, i) for i, sym in enumerate(SYMBOLS)}
    for how in HOWS:
        for cls in ("Aberrations", "CTF"):
            out.append(mk(dict(full), {sym: ALIAS_OF[sym] for sym in full}, "float64", how, cls,
                          **({"full": {"cutoff": 0.6 * amax * 1e3, "soft": how != "dict", "focal": 8.0, "angular": 0.2}}
                             if cls == "CTF" else {})))
    # weighted (Gaussian / user-weighted) distributions of coefficients, and of the envelope/aperture parameters of a CTF
    c10 = val("C10", 1)
    for i, (cls, prec, norm) in enumerate((("Aberrations", "float64", "intensity"), ("CTF", "float64", "amplitude"),
                                           ("CTF", "float32", "intensity"))):
        out.append({"energy": en, "gpts": g, "sampling": s, "precision": prec, "cls": cls, "how": HOWS[i], "pt_seed": 77 + i,
                    "delta": 0.3, "apply": False, "kind": "ensemble", "coeffs": {"C12": val("C12", 2), "C30": val("C30", 3)},
                    "names": {"C12": "astigmatism", "C30": "C30"},
                    "dists": [{"symbol": "C10", "name": ["C10", "defocus", "C10"][i],
                               "dist": {"gauss": [abs(c10) / 4, 3, c10, 2.0, norm, i == 1]}},
                              {"symbol": "phi12", "name": "phi12",
                               "dist": [{"values": [0.2, 0.9], "weights": [0.3, 1.0]}, {"dist": [0.1, 1.1, 2]},
                                        {"gauss": [0.3, 2, 0.5, 1.0, "amplitude", False]}][i]}]})
    for i, prec in enumerate(("float64", "float32")):
        out.append(mk({"C10": c10, "C30": val("C30", 3)}, {"C10": "C10", "C30": "Cs"}, prec, "kwargs", "CTF",
                      full={"cutoff": {"gauss": [0.05 * amax * 1e3, 3, 0.6 * amax * 1e3, 2.0, "intensity", True]}, "soft": i == 0,
                            "focal": {"gauss": [6.0, 3, 25.0, 3.0, ["intensity", "amplitude"][i], True]},
                            "angular": {"gauss": [0.1, 2, 0.5, 2.0, "amplitude", False]}}))
    # histories on one object: energy re-set on the same grid, and an energy-less object matched to waves of two energies
    hco = {"C10": -120.0, "C12": 30.0, "phi12": 0.3, "C30": 2.0e5, "C23": 400.0, "phi23": -0.4}
    for cls in ("CTF", "Aberrations"):
        for prec in ("float64", "float32"):
            out.append({"energy": 60e3, "gpts": [12, 15], "sampling": [0.2, 0.25], "precision": prec, "cls": cls, "how": "kwargs",
                        "pt_seed": 1, "delta": 0.0, "apply": False, "kind": "history", "coeffs": hco, "names": {},
                        "hist": {"mode": "explicit", "energy": 60e3, "gpts": [12, 15], "sampling": [0.2, 0.25],
                                 "form": "gpts-extent" if cls == "CTF" else "gpts-sampling",
                                 "steps": [{"op": "energy", "value": 100e3}, {"op": "energy", "value": 300e3},
                                           {"op": "coeff", "symbol": "C10", "name": "defocus", "value": 80.0, "how": "attr"},
                                           {"op": "gpts", "value": [14, 13]}, {"op": "energy", "value": 60e3}]}})
            w = {"gpts": [12, 15], "sampling": [0.2, 0.25]}
            out.append({"energy": 200e3, "gpts": [12, 15], "sampling": [0.2, 0.25], "precision": prec, "cls": cls, "how": "kwargs",
                        "pt_seed": 2, "delta": 0.0, "apply": False, "kind": "history", "coeffs": hco, "names": {},
                        "hist": {"mode": "match", "energy": 200e3, "gpts": [12, 15], "sampling": [0.2, 0.25], "form": "gpts-sampling",
                                 "steps": [dict(w, op="energy", energy=200e3, via="kernel"),
                                           dict(w, op="energy", energy=80e3, via="kernel"),
                                           dict(w, op="energy", energy=300e3, via="transform"),
                                           {"op": "gpts", "energy": 300e3, "gpts": [10, 15], "sampling": [0.2, 0.25],
                                            "via": "transform"}]}})
    out.append({"energy": 80e3, "gpts": [8, 8], "sampling": [0.1, 0.1], "precision": "float64", "cls": "CTF", "how": "kwargs",
                "pt_seed": 5, "delta": 0.4, "apply": True, "kind": "scherzer", "cs": 1.3e7, "cs_name": "Cs",
                "word": "scherzer", "coeffs": {}, "names": {}})
    return out


# --------------------------------------------------------------------------- workload
def _value_for(name, sym, v):
    """Value handed to abTEM under `name` such that polar symbol `sym` becomes v."""
    return -v if name == "defocus" else v


def _build(case, items, lam):
    """Build the object through the route `case['how']`; items = ordered [(name, value)]."""
    import abtem
    from abtem import transfer
    cls = getattr(transfer, case["cls"])
    grid = dict(energy=case["energy"], gpts=tuple(case["gpts"]), sampling=tuple(case["sampling"]))
    how = case["how"]
    d = dict(items)
    if how == "kwargs":
        return cls(**grid, **d)
    if how == "dict":
        return cls(aberration_coefficients=d, **grid)
    if how == "attr":
        obj = cls(**grid)
        for k, v in items:
            setattr(obj, k, v)
        return obj
    if how == "set_aberrations":
        obj = cls(**grid)
        half = len(items) // 2
        obj.set_aberrations(dict(items[:half]))
        obj.set_aberrations(dict(items[half:]))
        return obj
    # mixed: some through the dict, the rest (and overriding decoys) through kwargs
    half = len(items) // 2
    first = dict(items[:half])
    second = dict(items[half:])
    if second:
        k0 = next(iter(second))
        first[k0] = 12345.678  # must be overridden by the keyword argument of the same name
    return cls(aberration_coefficients=first, **grid, **second)


def _tol(case, pscale):
    """(rtol-like factor) absolute tolerance on the complex kernel."""
    if case["precision"] == "float64":
        return 2e-13 * (1.0 + pscale)
    return 5e-5 * (1.0 + pscale)


def _points(case, amax):
    r = np.random.default_rng(case["pt_seed"])
    n = 40
    alpha = np.concatenate([[0.0, 0.0, amax, amax, amax * 0.5, amax * 0.5], r.uniform(0, amax, n)])
    phi = np.concatenate([[0.0, 1.3, math.pi, -math.pi, math.pi, -math.pi], r.uniform(-math.pi, math.pi, n)])
    return alpha, phi


def _check_stored(ctx, obj, coeffs, case):
    """Reading back: symbols, aliases, defocus, the coefficient dictionary."""
    stored = obj.aberration_coefficients
    for s in SYMBOLS:
        want = float(coeffs.get(s, 0.0))
        clause = "stored-coefficient" if s in coeffs else "unset-are-zero"
        ctx.expect(float(stored[s]) == want, clause, symbol=s, got=float(stored[s]), want=want)
        ctx.expect(float(getattr(obj, s)) == want, clause, symbol=s, via="getattr")
        alias = ALIAS_OF[s]
        got = float(getattr(obj, alias))
        ctx.expect(got == (-want if alias == "defocus" else want), "alias-get", alias=alias, symbol=s, got=got, want=want)
    ctx.expect(float(obj.defocus) == -float(getattr(obj, "C10")) and float(obj.defocus) == -float(coeffs.get("C10", 0.0)),
               "defocus-is-minus-C10", defocus=float(obj.defocus), C10=float(getattr(obj, "C10")))


def _observe(ctx, obj, coeffs, case, lam, weights=None):
    """Compare the kernels of a real object with the oracle; scalar coefficients only."""
    g, s = case["gpts"], case["sampling"]
    alpha_g, phi_g = grid_angles(g, s, lam)
    amax = float(alpha_g.max())
    ps = phase_scale(coeffs, amax, lam)
    tol = _tol(case, ps)
    f32 = case["precision"] == "float32"

    got = np.asarray(obj._evaluate_kernel())
    want = kernel_ref(coeffs, alpha_g, phi_g, lam)
    sfx = "-f32" if f32 else ""
    ctx.close(got, want, "grid-kernel" + sfx, rtol=0, atol=tol, scale=1.0)
    ctx.monitor("grid-pixels", got.size)

    # explicit samples (1-D arrays, float64 input in both precisions)
    a, p = _points(case, amax)
    got_e = np.asarray(obj._evaluate_from_angular_grid(a.copy(), p.copy()))
    want_e = kernel_ref(coeffs, a, p, lam)
    ctx.close(got_e, want_e, "explicit-kernel" + sfx, rtol=0, atol=tol, scale=1.0)
    ctx.close(got_e[:2], np.ones(2), "alpha-zero-is-one", rtol=0, atol=1e-15 if not f32 else 1e-7)
    ctx.close(got_e[2], got_e[3], "phi-pm-pi", rtol=0, atol=tol, scale=1.0)
    ctx.close(got_e[4], got_e[5], "phi-pm-pi", rtol=0, atol=tol, scale=1.0)
    # 2-D explicit samples
    a2, p2 = a[:36].reshape(6, 6), p[:36].reshape(6, 6)
    got_2 = np.asarray(obj._evaluate_from_angular_grid(a2.copy(), p2.copy()))
    ctx.close(got_2, want_e[:36].reshape(6, 6), "explicit-kernel" + sfx, rtol=0, atol=tol, scale=1.0, ndim=2)
    ctx.monitor("explicit-samples", a.size + a2.size)
    return got_e, (a, p), tol, ps


def _rotation(ctx, case, coeffs, lam, got_e, pts, tol):
    from abtem import transfer
    cls = getattr(transfer, case["cls"])
    delta = case["delta"]
    rot = {s: (v + delta if s in ANGLES else v) for s, v in coeffs.items()}
    for s in ANGLES:  # every azimuthal coefficient is rotated, also those that were left at zero
        rot.setdefault(s, delta)
    obj_r = cls(aberration_coefficients=rot, energy=case["energy"])
    obj_0 = cls(aberration_coefficients=coeffs, energy=case["energy"])
    a, p = pts
    k_rot = np.asarray(obj_r._evaluate_from_angular_grid(a.copy(), p.copy()))
    k_shift = np.asarray(obj_0._evaluate_from_angular_grid(a.copy(), p - delta))
    # two float32 roundings of phi (before and after the shift) enter here
    sfx = "-f32" if case["precision"] == "float32" else ""
    ctx.close(k_rot, k_shift, "rotation-metamorphic" + sfx, rtol=0, atol=2 * tol, scale=1.0, delta=delta)
    ctx.close(k_rot, kernel_ref(coeffs, a, p - delta, lam), "rotation-oracle" + sfx, rtol=0, atol=2 * tol, scale=1.0, delta=delta)
    # the unrotated object without a grid sees the same samples as the one with a grid
    ctx.close(np.asarray(obj_0._evaluate_from_angular_grid(a.copy(), p.copy())), got_e, "explicit-kernel" + sfx, rtol=0,
              atol=tol, scale=1.0, what="grid-less object")


def _full_ctf(ctx, case, coeffs, lam, tol):
    """CTF with aperture and envelopes (scalars or weighted distributions): wherever a member transmits, its phase is
    still exp(-2 pi i chi / lambda); the weights of focal-spread / angular-spread / cutoff distributions do not enter."""
    from abtem import transfer
    full = case["full"]
    g, s = tuple(case["gpts"]), tuple(case["sampling"])
    args, shape = {}, ()
    for key in ("angular", "focal", "cutoff"):      # ensemble axes of a CTF come in this order
        if is_dist(full[key]):
            args[key], v, _ = dist_from_json(full[key])
            shape += (len(v),)
        else:
            args[key] = full[key]
    ctf = transfer.CTF(semiangle_cutoff=args["cutoff"], soft=full["soft"], focal_spread=args["focal"],
                       angular_spread=args["angular"], aberration_coefficients=coeffs, energy=case["energy"], gpts=g, sampling=s)
    got = np.asarray(ctf._evaluate_kernel()).astype(np.complex128)
    if not ctx.expect(got.shape == shape + g, "full-ctf-phase", what="shape", got=list(got.shape), want=list(shape + g)):
        return
    alpha_g, phi_g = grid_angles(g, s, lam)
    want = np.broadcast_to(kernel_ref(coeffs, alpha_g, phi_g, lam), got.shape)
    mod = np.abs(got)
    mask = mod > 0.05
    ctx.monitor("full-ctf-transmitting-pixels", int(mask.sum()))
    if shape:
        ctx.monitor("full-ctf-ensemble-members", int(np.prod(shape)))
    if mask.any():
        sfx = "-f32" if case["precision"] == "float32" else ""
        ctx.close(got[mask] / mod[mask], want[mask], "full-ctf-phase" + sfx, rtol=0, atol=3 * tol, scale=1.0, full=full)
    # zero angle: aperture open, both envelopes 1, chi = 0  ->  every member transmits DC with exactly unit weight
    ctx.close(got[..., 0, 0], np.ones(shape), "full-ctf-dc-is-one", rtol=0, atol=1e-6, full=full)


def _apply(ctx, case, obj, coeffs, lam, tol):
    """Real pipeline: a delta wave passed through apply_ctf; its DFT is the kernel."""
    import abtem
    g, s = tuple(case["gpts"]), tuple(case["sampling"])
    cdt = np.complex128 if case["precision"] == "float64" else np.complex64
    arr = np.zeros(g, dtype=cdt)
    arr[0, 0] = 1.0
    waves = abtem.Waves(arr, energy=case["energy"], sampling=s)
    if case["cls"] == "CTF":
        out = waves.apply_ctf(obj)
    else:
        out = waves.apply_transform(obj)
    res = out.array
    if hasattr(res, "compute"):
        res = res.compute()
    got = np.fft.fft2(np.asarray(res).astype(np.complex128))
    alpha_g, phi_g = grid_angles(g, s, lam)
    want = kernel_ref(coeffs, alpha_g, phi_g, lam)
    extra = 0.0 if case["precision"] == "float64" else 3e-5
    ctx.close(got, want, "apply-kernel" + ("-f32" if extra else ""), rtol=0, atol=tol * 2 + extra + 1e-11, scale=1.0)
    ctx.monitor("apply-runs")


def _history(ctx, case):
    """One live object through a history; every evaluation is judged by the chi oracle for the *current* state and must
    equal the kernel of a freshly built object with the same final parameters."""
    from abtem import transfer
    cls = getattr(transfer, case["cls"])
    hist = case["hist"]
    f32 = case["precision"] == "float32"
    sfx = "-f32" if f32 else ""
    coeffs = {k: float(v) for k, v in case["coeffs"].items()}
    energy = hist["energy"]
    if hist["mode"] == "explicit":
        obj = cls(aberration_coefficients=dict(coeffs), energy=energy, **history_grid_kwargs(hist))
        steps = [None] + hist["steps"]
    else:
        obj = cls(aberration_coefficients=dict(coeffs))
        steps = hist["steps"]
    nontrivial = False
    for i, step in enumerate(steps):
        got, extra = None, 0.0
        if step is not None:
            if step["op"] == "coeff":
                name, v = step["name"], step["value"]
                if step["how"] == "attr":
                    setattr(obj, name, _value_for(name, step["symbol"], v))
                else:
                    obj.set_aberrations({name: _value_for(name, step["symbol"], v)})
                coeffs[step["symbol"]] = float(v)
            if "via" in step:
                energy = step["energy"]
                got = history_step(obj, step, f32)
                if step["via"] == "transform":
                    extra = 1e-11 if not f32 else 3e-5
            else:
                if step["op"] == "energy":
                    energy = step["value"]
                history_step(obj, step, f32)
        if got is None:
            got = np.asarray(obj._evaluate_kernel())
        # state: energy is modelled, the grid is read back (its adjustment rules are C17's business) -- except when the
        # object was matched to waves, whose grid is known
        ctx.expect(obj.energy == energy, "history-state", step=i, got=obj.energy, want=energy)
        if step is not None and "via" in step:
            g, smp = tuple(step["gpts"]), tuple(step["sampling"])
            ctx.expect(tuple(obj.gpts) == g and np.allclose(obj.sampling, smp, rtol=1e-6), "history-state", step=i,
                       gpts=list(obj.gpts), sampling=list(obj.sampling))
        else:
            g, smp = tuple(int(x) for x in obj.gpts), tuple(float(x) for x in obj.sampling)
        stored = obj.aberration_coefficients
        ctx.expect(all(float(stored[k]) == float(coeffs.get(k, 0.0)) for k in SYMBOLS), "history-state", step=i,
                   what="coefficients")
        lam = wl_ref(energy)
        alpha_g, phi_g = grid_angles(g, smp, lam)
        ps = phase_scale(coeffs, float(alpha_g.max()), lam)
        tol = _tol(case, ps)
        if not ctx.expect(got.shape == g, "history-kernel", what="shape", step=i, got=list(got.shape), want=list(g)):
            return
        ctx.close(got, kernel_ref(coeffs, alpha_g, phi_g, lam), "history-kernel" + sfx, rtol=0, atol=2 * tol + extra, scale=1.0,
                  step=i, op=None if step is None else step["op"], energy=energy, gpts=list(g))
        fresh = np.asarray(cls(aberration_coefficients=dict(coeffs), energy=energy, gpts=g, sampling=smp)._evaluate_kernel())
        ctx.close(got, fresh, "history-equals-fresh", rtol=0, atol=2 * tol + extra, scale=1.0, step=i,
                  op=None if step is None else step["op"])
        ctx.monitor("history-evaluations")
        if i > 0 and ps > 0.05:
            nontrivial = True
    ctx.nontrivial(nontrivial)


def setup(ctx):
    # import outside the per-case watchdog: an interrupted import would poison every later case
    import abtem  # noqa: F401
    from abtem import transfer  # noqa: F401


def check(ctx, case):
    import abtem
    from abtem import transfer
    from vf import gen as G

    ctx.expect(set(transfer.polar_symbols) == set(SYMBOLS) and len(transfer.polar_symbols) == 25, "symbol-set",
               got=sorted(transfer.polar_symbols))
    lam = wl_ref(case["energy"])
    coeffs = {k: float(v) for k, v in case["coeffs"].items()}
    names = case["names"]

    with G.precision(case["precision"]):
        if case["kind"] == "scherzer":
            cs = float(case["cs"])
            items = [(case["cs_name"], cs)]
            items += [(names[s], _value_for(names[s], s, v)) for s, v in coeffs.items()]
            items.append(("defocus", case["word"]))
            obj = _build(case, items, lam)
            want_df = math.copysign(math.sqrt(1.5 * abs(cs) * lam), cs)
            ctx.close(float(obj.defocus), want_df, "scherzer", rtol=1e-12)
            ctx.close(float(obj.C10), -want_df, "scherzer", rtol=1e-12)
            if case["cls"] == "CTF":
                ctx.close(float(obj.scherzer_defocus), want_df, "scherzer", rtol=1e-12)
            # observation only (the property does not cover it): 'scherzer' is resolved when it is *set*
            late = getattr(transfer, case["cls"])(aberration_coefficients={"defocus": case["word"], "C30": cs}, energy=case["energy"])
            ctx.note("scherzer-set-before-Cs-gives-zero-defocus" if float(late.defocus) == 0.0 else "scherzer-set-before-Cs-resolved")
            coeffs = dict(coeffs)
            coeffs["C30"] = cs
            coeffs["C10"] = float(obj.C10)   # value compared above; the kernel must use exactly the stored one
            _check_stored(ctx, obj, coeffs, case)
            got_e, pts, tol, ps = _observe(ctx, obj, coeffs, case, lam)
            ctx.nontrivial(ps > 0.05)
            return

        if case["kind"] == "history":
            _history(ctx, case)
            return

        if case["kind"] == "ensemble":
            items = [(names[s], _value_for(names[s], s, v)) for s, v in coeffs.items()]
            ref = {}
            for j, d in enumerate(case["dists"]):
                dobj, v, w = dist_from_json(d["dist"])
                ref[d["symbol"]] = (v, w)
                items.insert((len(items) * (j + 1)) // 3, (d["name"], -dobj if d["name"] == "defocus" else dobj))
            obj = _build(case, items, lam)
            got = np.asarray(obj._evaluate_kernel())
            g, s = case["gpts"], case["sampling"]
            alpha_g, phi_g = grid_angles(g, s, lam)
            labels = [a.label for a in obj.ensemble_axes_metadata]
            if not ctx.expect(sorted(labels) == sorted(ref) and got.shape == tuple(len(ref[l][0]) for l in labels) + tuple(g),
                              "ensemble-member-kernel", what="axes", labels=labels, shape=list(got.shape)):
                return
            weighted = any("dist" not in d["dist"] for d in case["dists"])
            for idx in np.ndindex(*got.shape[:-2]):
                c = dict(coeffs)
                w = 1.0
                for l, i in zip(labels, idx):
                    c[l] = float(ref[l][0][i])
                    w *= float(ref[l][1][i])
                ps = phase_scale(c, float(alpha_g.max()), lam)
                # quadrature weights of coefficient distributions scale the member (and nothing else does)
                ctx.close(got[idx], w * kernel_ref(c, alpha_g, phi_g, lam),
                          "weighted-ensemble-member-kernel" if weighted else "ensemble-member-kernel", rtol=0,
                          atol=_tol(case, ps) * w, scale=1.0, member=list(idx), weight=w)
                ctx.nontrivial(ps > 0.05)
            ctx.monitor("ensemble-members", int(np.prod(got.shape[:-2])))
            return

        # ---- subset
        items = [(names[s], _value_for(names[s], s, v)) for s, v in coeffs.items()]
        obj = _build(case, items, lam)
        _check_stored(ctx, obj, coeffs, case)
        got_e, pts, tol, ps = _observe(ctx, obj, coeffs, case, lam)
        _rotation(ctx, case, coeffs, lam, got_e, pts, tol)
        if case.get("apply"):
            _apply(ctx, case, obj, coeffs, lam, tol)
        if case.get("full"):
            _full_ctf(ctx, case, coeffs, lam, tol)
        # writing through `defocus` and reading through C10 (and back) on a live object
        obj.defocus = 123.25
        ctx.expect(float(obj.C10) == -123.25 and float(obj.aberration_coefficients["C10"]) == -123.25,
                   "defocus-is-minus-C10", after="defocus=123.25", C10=float(obj.C10))
        obj.C10 = 77.5
        ctx.expect(float(obj.defocus) == -77.5, "defocus-is-minus-C10", after="C10=77.5", defocus=float(obj.defocus))
        ctx.nontrivial(ps > 0.05 and any(coeffs.get(s, 0.0) != 0.0 for s in MAGNITUDES))
