"""C26 Bloch-wave dynamical diffraction conserves intensity.

Every case builds a crystal (cubic P/I/F, orthorhombic, hexagonal - primitive and orthorhombic setting - with ideal
or random, origin-shifted, non-centrosymmetric bases), a StructureFactor / StructureFactorArray / bare Atoms input and
a `BlochWaves` object (zone axis, small tilt, arbitrary orientation; `orientation_matrix=` or `.rotate`), runs the real
`calculate_diffraction_patterns` eagerly and lazily and monitors

  * intensity-sum        sum_g I_g(z) == 1 for every thickness;
  * zero-thickness       I(z=0) == delta_{g,0}  (hkl == 000 is the only excited beam);
  * lazy-eager           lazy result (type, shape, miller indices, thickness axis, values) == eager result;
  * expm-equals-eig      |S(z) e_0|^2 with S from `BlochWaves.calculate_scattering_matrix` / the module function
                         (scipy expm path) == intensities of the eigen-decomposition path;
  * joint-compute        three lazy diffraction results (this crystal, other thicknesses, the crystal with its two elements
                         exchanged) and two lazy structure matrices evaluated in ONE dask.compute == separate eager runs;
  * ensemble-member      (rotation ensembles) every member of a lazy/eager `BlochwaveEnsemble` == the single
                         `BlochWaves` run with that rotation, scattered into the ensemble's beam list;
  * auxiliary            structure matrix Hermitian; structure matrix == independent float64 assembly
                         U_gh = sigma/(pi lambda kappa) F(g-h) M_g M_h, U_gg = 2 k0 s_g M_g from the structure factors
                         abTEM built (checks `retrieve_structure_factor_values` indexing, prefactor, excitation errors,
                         with CODATA constants hard-coded here); M^-1 S M unitary (flux conservation of the S matrix).

Every stage (ensemble, eager, lazy, structure matrix, scattering matrix) runs under its own guard: an exception inside
the property's domain is recorded as a violation of `no-exception:<stage>` and the remaining stages still run, so that
independent defects (read-only pandas array, laziness of a pre-built StructureFactorArray, scipy Euler-angle shapes,
index range of non-orthogonal cells) are reported separately.

Tolerance model (documented, calibrated on the tree with the read-only fix applied): abTEM applies the non-zero Laue
zone factor M_g = (1+g_z/k0)^-1/2 differently in the two paths (eigen path: only on the diagonal of the eigenvector
matrix; S-matrix path: M S M^-1), so for beams with g_z != 0 the plain sum and the two paths agree only to first order
in g_z/k0.  The oracle therefore allows  |sum I - 1| <= 1e-9 + 8 W + d^2  and, per beam,
|I_expm - I_eig| <= 1e-8 + 5 B + d^2  with d_g = |g_z|/k0, d = max_g d_g, W = max_z sum_g I_g(z) d_g and
B = max_g d_g (2 I_g + sqrt(I_g)) (the first-order difference between M_g^2 |phi_g|^2 and |phi_g + (1/M_g - 1) c_g|^2;
calibration: residual <= 0.68 W resp. 0.44 B over ~2000 cases), all computed here from hkl, cell and energy.  They are
*zero* - i.e. float64 round-off
tolerances - for zone-axis cases without higher-order Laue zone beams; such cases are counted separately
(`:no-holz` clauses) and are required.
"""
import math

import numpy as np

from vf import gen as G

PROPERTY = "C26"
TECHNIQUE = "runtime monitoring; conservation/unitarity invariants + differential oracles (lazy vs eager, expm vs eigen-decomposition, ensemble member vs single run) + independent float64 structure-matrix assembly"
RULE = ("crystal drawn from sc/bcc/fcc/diamond/rocksalt/zincblende/CsCl/hcp (primitive and orthorhombic setting)/random "
        "orthorhombic cells with random non-centrosymmetric bases, random origin shift; input kind atoms/StructureFactor/"
        "StructureFactorArray (eager or lazy); energy 30-300 keV; sg_max 0.01-0.2; g_max chosen for 8-140 beams; orientation "
        "zone axis / tilt <= 0.1 rad / arbitrary / rotation ensemble; thickness scalar, [0], lists with 0, unsorted, up to "
        "2000 A; use_wave_eq; float64 (80%) or float32; non-trivial = >= 5 beams, a thickness > 0 and > 1e-4 of the intensity "
        "outside the direct beam; distinct = distinct case signature")
CLAUSES = ["intensity-sum", "intensity-sum:no-holz", "zero-thickness", "lazy-eager:values", "lazy-eager:meta",
           "expm-equals-eig", "expm-equals-eig:no-holz", "structure-matrix-hermitian", "structure-matrix-model",
           "s-matrix-flux-unitary", "ensemble-member", "joint-compute"]
QUICK = dict(n=28, time=45)
THOROUGH = dict(n=7690, time=480, shards=16)
ASSUMPTIONS = ["beams with g_z != 0 are judged to first order in g_z/k0 (tolerance 8 W for the sum, 5 B per beam for the path comparison); cases "
               "without such beams are judged at float64 round-off",
               "CPU backend; at most ~150 beams per calculation"]

# CODATA 2014 (ase.units default)
H = 6.626070040e-34
C = 299792458.0
ME = 9.10938356e-31
E = 1.6021766208e-19
INV_KAPPA = H ** 2 / (2 * np.pi * ME * E) * 1e20     # V A^2
NMAX = 150


def wl_ref(en):
    return H * C / math.sqrt(en * E * (en * E + 2 * ME * C * C)) * 1e10


def sigma_ref(en):
    m = ME * (1 + E * en / (ME * C * C))
    return 2 * math.pi * m * E * (wl_ref(en) * 1e-10) / H ** 2 * 1e-10


# ------------------------------------------------------------------------------------------ crystals
LATTICES = {
    # name: (cell kind, basis (symbol index, scaled position))
    "sc": ("cubic", [(0, (0, 0, 0))]),
    "cscl": ("cubic", [(0, (0, 0, 0)), (1, (.5, .5, .5))]),
    "bcc": ("cubic", [(0, (0, 0, 0)), (0, (.5, .5, .5))]),
    "fcc": ("cubic", [(0, (0, 0, 0)), (0, (0, .5, .5)), (0, (.5, 0, .5)), (0, (.5, .5, 0))]),
    "diamond": ("cubic", [(0, p) for p in ((0, 0, 0), (0, .5, .5), (.5, 0, .5), (.5, .5, 0), (.25, .25, .25), (.25, .75, .75),
                                            (.75, .25, .75), (.75, .75, .25))]),
    "rocksalt": ("cubic", [(0, p) for p in ((0, 0, 0), (0, .5, .5), (.5, 0, .5), (.5, .5, 0))] +
                 [(1, p) for p in ((.5, .5, .5), (.5, 0, 0), (0, .5, 0), (0, 0, .5))]),
    "zincblende": ("cubic", [(0, p) for p in ((0, 0, 0), (0, .5, .5), (.5, 0, .5), (.5, .5, 0))] +
                   [(1, p) for p in ((.25, .25, .25), (.25, .75, .75), (.75, .25, .75), (.75, .75, .25))]),
    "hcp": ("hex", [(0, (0, 0, 0)), (0, (1 / 3, 2 / 3, .5))]),
    "hcp-ortho": ("hexortho", [(0, (0, 0, 0)), (0, (.5, .5, 0)), (0, (.5, 5 / 6, .5)), (0, (0, 1 / 3, .5))]),
    "random": ("ortho", None),
}
ELEMENTS = ["C", "Si", "O", "Au", "Ti", "Sr", "N", "Cu", "Al", "Mo", "S", "Ga", "As", "Fe", "Mg"]


def gen(rng, tier):
    # random (non-centrosymmetric) bases are the only crystals for which I_g(z) != I_g(-z) and C^T != C^H matter
    lat = str(rng.choice(list(LATTICES) + ["random", "random"]))
    kind = LATTICES[lat][0]
    a = float(rng.uniform(2.8, 6.0))
    if kind == "cubic":
        cell = [[a, 0, 0], [0, a, 0], [0, 0, a]]
    elif kind == "hex":
        c = a * float(rng.uniform(1.5, 1.7))
        cell = [[a, 0, 0], [-a / 2, a * math.sqrt(3) / 2, 0], [0, 0, c]]
    elif kind == "hexortho":
        cell = [[a, 0, 0], [0, a * math.sqrt(3), 0], [0, 0, a * float(rng.uniform(1.5, 1.7))]]
    else:
        cell = [[a, 0, 0], [0, float(rng.uniform(2.8, 7.0)), 0], [0, 0, float(rng.uniform(2.8, 8.0))]]
    els = [str(e) for e in rng.choice(ELEMENTS, size=2, replace=False)]
    if LATTICES[lat][1] is None:
        n = int(rng.integers(2, 6))
        basis = [[int(rng.integers(0, 2)), rng.random(3).round(4).tolist()] for _ in range(n)]
    else:
        basis = [[i, [float(x) for x in p]] for i, p in LATTICES[lat][1]]
    shift = rng.random(3).round(4).tolist() if rng.random() < 0.6 else [0.0, 0.0, 0.0]
    # number of zero-order-Laue-zone beams ~ pi g_max^2 * area of the cell face / lattice points per cell
    area = float(np.linalg.norm(np.cross(cell[0], cell[1])))
    mult = {"bcc": 2, "fcc": 4, "diamond": 4, "rocksalt": 4, "zincblende": 4, "hcp-ortho": 2}.get(lat, 1)
    target = float(rng.uniform(8, 140 if tier == "thorough" else 90))
    g_max = float(np.clip(math.sqrt(target * mult / (math.pi * area)), 0.5, 4.0))
    orient = str(rng.choice(["zone", "zone", "tilt", "tilt", "arbitrary", "ensemble"]))
    if orient == "zone":
        angles = []
    elif orient == "tilt":
        angles = [["x", float(rng.uniform(-0.1, 0.1))], ["y", float(rng.uniform(-0.1, 0.1))]][: int(rng.integers(1, 3))]
    elif orient == "arbitrary":
        angles = [["zxz", rng.uniform(-math.pi, math.pi, size=3).round(5).tolist()]]
    else:
        m = int(rng.integers(2, 4))
        if rng.random() < 0.5:
            angles = [["x", rng.uniform(-0.08, 0.08, size=m).round(5).tolist()]]
        else:
            angles = [["x", rng.uniform(-0.08, 0.08, size=m).round(5).tolist()],
                      ["y", rng.uniform(-0.08, 0.08, size=int(rng.integers(1, 3))).round(5).tolist()]]
    tk = rng.random()
    if tk < 0.12:
        thick = float(rng.uniform(1.0, 500.0))
    elif tk < 0.2:
        thick = [0.0]
    else:
        m = int(rng.integers(1, 5))
        thick = [0.0] + (10 ** rng.uniform(0.0, 3.3, size=m)).round(3).tolist()
        if rng.random() < 0.3:
            thick = thick[::-1]
        if rng.random() < 0.2:
            thick = thick[1:] + thick[:1]
    return {
        "lattice": lat, "cell": cell, "elements": els, "basis": basis, "shift": shift,
        "input": str(rng.choice(["atoms", "factor", "factor", "array", "lazy-array"])),
        "sigma": float(rng.choice([0.0, 0.0, float(rng.uniform(0.03, 0.15))])),
        "parametrization": str(rng.choice(["lobato", "lobato", "kirkland", "peng"])),
        "sf_pad": float(rng.choice([1.0, float(rng.uniform(1.0, 1.3))])),
        "centering": str(rng.choice(["auto", "auto", "auto", "P"])),
        "energy": float(rng.choice([30e3, 60e3, 80e3, 100e3, 200e3, 300e3, float(rng.uniform(30e3, 300e3))])),
        "sg_max": float(10 ** rng.uniform(-2, math.log10(0.2))), "g_max": g_max,
        "orientation": orient, "angles": angles, "via": str(rng.choice(["rotate", "matrix"])),
        "use_wave_eq": bool(rng.random() < 0.3), "thicknesses": thick,
        "precision": "float32" if rng.random() < 0.2 else "float64",
    }


def fixed_cases(tier):
    base = {"shift": [0.0, 0.0, 0.0], "sigma": 0.0, "parametrization": "lobato", "sf_pad": 1.0, "centering": "auto",
            "sg_max": 0.05, "via": "rotate", "use_wave_eq": False, "precision": "float64"}

    def lat(name, a, els):
        kind = LATTICES[name][0]
        cell = [[a, 0, 0], [0, a, 0], [0, 0, a]] if kind == "cubic" else \
            [[a, 0, 0], [-a / 2, a * math.sqrt(3) / 2, 0], [0, 0, 1.624 * a]]
        return {"lattice": name, "cell": cell, "elements": els,
                "basis": [[i, [float(x) for x in p]] for i, p in LATTICES[name][1]]}

    out = [
        # the tutorial-style calculation: Si [001], 200 kV, thickness series (every call raised on the pinned tree)
        dict(base, **lat("diamond", 5.431, ["Si", "Si"]), input="atoms", energy=200e3, g_max=1.6, orientation="zone",
             angles=[], thicknesses=[0.0, 50.0, 100.0, 400.0]),
        # fcc gold at 300 kV (zone axis, no HOLZ beams): all clauses at round-off tolerance
        dict(base, **lat("fcc", 4.08, ["Au", "Au"]), input="factor", energy=300e3, g_max=2.2, orientation="zone",
             angles=[], thicknesses=[0.0, 30.0, 200.0]),
        # GaAs (non-centrosymmetric) with shifted origin -> complex Hermitian structure matrix, zone axis
        dict(base, **lat("zincblende", 5.653, ["Ga", "As"]), shift=[0.13, 0.29, 0.41], input="array", energy=100e3, g_max=1.5,
             orientation="zone", angles=[], thicknesses=[0.0, 80.0, 300.0], sigma=0.08),
        # bcc iron, tilted, low energy: HOLZ factor M != 1
        dict(base, **lat("bcc", 2.866, ["Fe", "Fe"]), input="factor", energy=30e3, g_max=2.5, sg_max=0.1, orientation="tilt",
             angles=[["x", 0.05]], via="matrix", thicknesses=[0.0, 13.0, 250.0, 1000.0]),
        # non-centrosymmetric projection (4 atoms in general positions), zone axis, no HOLZ beams: complex Hermitian structure
        # matrix that is not unitarily equivalent to a real one -> sensitive to conjugation and to the sign of z
        dict(base, lattice="random", cell=[[4.1, 0, 0], [0, 5.2, 0], [0, 0, 3.7]], elements=["Si", "O"],
             basis=[[0, [0.11, 0.23, 0.07]], [1, [0.47, 0.61, 0.35]], [1, [0.83, 0.19, 0.52]], [0, [0.29, 0.78, 0.91]]],
             input="factor", energy=200e3, g_max=1.1, sg_max=0.03, orientation="zone", angles=[],
             thicknesses=[0.0, 40.0, 170.0]),
        # hexagonal primitive cell whose Miller index range along b exceeds the Cartesian bounding box of the cell
        # (|k| <= g_max |b| = 12.4 > g_max * b_y = 10.8): found by the thorough tier, `ravel_hkl` raised ValueError
        dict(base, lattice="hcp", cell=[[5.072743271214982, 0, 0], [-2.536371635607491, 4.393124539748749, 0],
                                        [0, 0, 8.582317206741074]], elements=["Al", "Au"],
             basis=[[0, [0.0, 0.0, 0.0]], [0, [1 / 3, 2 / 3, 0.5]]], input="atoms", parametrization="peng", energy=300e3,
             sg_max=0.08787359033872325, g_max=1.225171868003603, orientation="zone", angles=[], use_wave_eq=True,
             thicknesses=[46.995, 3.537, 0.0]),
        # hexagonal primitive cell (non-orthogonal), rotation ensemble
        dict(base, **lat("hcp", 3.21, ["Mg", "Mg"]), input="factor", energy=80e3, g_max=1.4, orientation="ensemble",
             angles=[["x", [0.0, 0.02, -0.05]], ["y", [0.01, 0.03]]], thicknesses=[0.0, 150.0]),
    ]
    return out


def build_atoms(case):
    from ase import Atoms
    cell = np.array(case["cell"], dtype=float)
    sym = [case["elements"][i] for i, _ in case["basis"]]
    scaled = (np.array([p for _, p in case["basis"]], dtype=float) + np.array(case["shift"])) % 1.0
    return Atoms(sym, scaled_positions=scaled, cell=cell, pbc=True)


def rotation_matrix(angles):
    from scipy.spatial.transform import Rotation
    R = np.eye(3)
    for axes, val in angles:
        R = Rotation.from_euler(axes, val).as_matrix() @ R
    return R


def arr(x):
    a = x.array
    if hasattr(a, "compute"):
        a = a.compute(scheduler="synchronous")
    return np.asarray(a)


# ------------------------------------------------------------------------------------------ model
def model_quantities(hkl, cell, energy):
    """g vectors [1/A], k0, |g_z|/k0, M_g from first principles (float64)."""
    rec = np.linalg.inv(np.asarray(cell, dtype=np.float64)).T
    g = np.asarray(hkl, dtype=np.float64) @ rec
    k0 = 1.0 / wl_ref(energy)
    M = 1.0 / np.sqrt(1.0 + g[:, 2] / k0)
    return g, k0, np.abs(g[:, 2]) / k0, M


def model_structure_matrix(sf_hkl, sf_values, hkl, cell, energy, use_wave_eq):
    g, k0, _, M = model_quantities(hkl, cell, energy)
    lam = wl_ref(energy)
    table = {tuple(int(v) for v in h): complex(f) for h, f in zip(sf_hkl, sf_values)}
    n = len(hkl)
    A = np.zeros((n, n), dtype=np.complex128)
    pref = sigma_ref(energy) * INV_KAPPA / (lam * np.pi)
    hk = [tuple(int(v) for v in h) for h in hkl]
    for i in range(n):
        for j in range(n):
            d = (hk[j][0] - hk[i][0], hk[j][1] - hk[i][1], hk[j][2] - hk[i][2])
            A[i, j] = pref * table[d] * M[i] * M[j]
    if use_wave_eq:
        sg = (-2 * g[:, 2] - lam * (g[:, 0] ** 2 + g[:, 1] ** 2)) / 2.0
    else:
        sg = (-2 * g[:, 2] - lam * (g ** 2).sum(1)) / 2.0
    A[np.arange(n), np.arange(n)] = 2 * k0 * sg * M
    return A


# ------------------------------------------------------------------------------------------ check
def make_bloch(case, atoms, lazy_sf=False):
    import abtem
    from abtem.bloch import BlochWaves, StructureFactor
    g_max = case["g_max"]
    kw = dict(energy=case["energy"], sg_max=case["sg_max"], g_max=g_max, use_wave_eq=case["use_wave_eq"])
    if case["input"] == "atoms":
        sf = atoms
    else:
        sf = StructureFactor(atoms, g_max=2 * g_max * case["sf_pad"], thermal_sigma=case["sigma"],
                             parametrization=case["parametrization"], centering=case["centering"])
        if case["input"] == "array":
            sf = sf.build(lazy=False)
        elif case["input"] == "lazy-array":
            sf = sf.build(lazy=True)
    single = [a for a in case["angles"] if case["orientation"] != "ensemble"]
    if single and case["via"] == "matrix":
        bw = BlochWaves(sf, orientation_matrix=rotation_matrix(single), **kw)
    else:
        bw = BlochWaves(sf, **kw)
        if single:
            args = []
            for axes, val in single:
                args += [axes, np.array(val) if isinstance(val, list) else val]
            bw = bw.rotate(*args)
    return bw


def check(ctx, case):
    import warnings
    with warnings.catch_warnings():
        warnings.simplefilter("ignore")
        with G.precision(case["precision"]):
            _check(ctx, case)


def attempt(ctx, name, fn):
    """Run one stage of the workload; an exception inside the property's domain is a violation of that stage."""
    from vf.harness import CaseTimeout, Refuted
    import traceback
    try:
        return True, fn()
    except (CaseTimeout, Refuted):
        raise
    except Exception as e:
        ctx.expect(False, "no-exception:" + name, error=repr(e)[:300], tb=traceback.format_exc()[-900:])
        return False, None


def _check(ctx, case):
    from abtem.bloch import dynamical as D
    from abtem.measurements import IndexedDiffractionPatterns
    f32 = case["precision"] == "float32"
    atoms = build_atoms(case)
    bw = make_bloch(case, atoms)
    n = len(bw)
    if n > NMAX:                      # keep the cost bounded: deterministic function of the case
        case = dict(case, g_max=case["g_max"] * math.sqrt(NMAX / n) * 0.95)
        ctx.note("g_max-reduced")
        bw = make_bloch(case, atoms)
        n = len(bw)
    energy = case["energy"]
    th = case["thicknesses"]
    th_list = [th] if isinstance(th, float) else list(th)
    hkl = np.asarray(bw.hkl)
    i0 = np.nonzero((hkl == 0).all(axis=1))[0]
    if not ctx.expect(len(i0) == 1, "zero-thickness", what="direct beam not (uniquely) among the Bloch waves", n=n):
        return
    i0 = int(i0[0])
    g, k0, dz, M = model_quantities(hkl, bw.cell, energy)
    no_holz = bool(dz.max() < 1e-12)
    eps = 2e-4 if f32 else 1e-9
    e0 = np.zeros(n)
    e0[i0] = 1.0

    def judge_intensities(I2, tag):
        ctx.expect(np.isfinite(I2).all() and (I2 >= 0).all(), "intensity-sum", what="negative or non-finite intensity", run=tag)
        W = float((I2 * dz[None]).sum(-1).max())
        ctx.close(I2.sum(-1), np.ones(len(th_list)), "intensity-sum", rtol=0, atol=eps + 8 * W + float(dz.max()) ** 2, W=W, n=n, run=tag)
        if no_holz:
            ctx.close(I2.sum(-1), np.ones(len(th_list)), "intensity-sum:no-holz", rtol=0, atol=eps, n=n, run=tag)
        for t, row in zip(th_list, I2):
            if t == 0.0:
                ctx.close(row, e0, "zero-thickness", rtol=0, atol=eps + float(dz.max()) ** 2, n=n, run=tag)

    if case["orientation"] == "ensemble":
        attempt(ctx, "rotation-ensemble", lambda: _check_ensemble(ctx, case, bw, th, th_list, eps))

    # ---------------- eager run of the real pipeline
    def eager_stage():
        eager = bw.calculate_diffraction_patterns(th, lazy=False)
        I = np.asarray(eager.array, dtype=np.float64)
        want_shape = (n,) if isinstance(th, float) else (len(th_list), n)
        ctx.expect(isinstance(eager, IndexedDiffractionPatterns) and I.shape == want_shape, "lazy-eager:meta",
                   shape=list(I.shape), want=list(want_shape))
        I2 = I.reshape(len(th_list), n)
        judge_intensities(I2, "eager")
        ctx.nontrivial(n >= 5 and max(th_list) > 0 and float((1 - I2[:, i0]).max()) > 1e-4)
        # complex amplitudes give the same intensities
        amp = bw.calculate_diffraction_patterns(th, lazy=False, return_complex=True)
        ctx.close(np.abs(np.asarray(amp.array)) ** 2, I, "lazy-eager:values", rtol=0, atol=eps * 1e-2 + 1e-14,
                  what="return_complex")
        if not isinstance(th, float):
            ax = eager.ensemble_axes_metadata
            ctx.expect(len(ax) == 1 and np.allclose(np.asarray(ax[0].values, dtype=float), th_list, rtol=1e-6, atol=1e-6),
                       "lazy-eager:meta", what="thickness axis", axes=[repr(a) for a in ax])
        return eager, I, I2
    ok_e, res = attempt(ctx, "eager", eager_stage)
    eager, I, I2 = res if ok_e else (None, None, None)

    # ---------------- lazy run
    def lazy_stage():
        lazy = bw.calculate_diffraction_patterns(th, lazy=True)
        ctx.expect(lazy.is_lazy, "lazy-eager:meta", what="lazy=True returned an eager object")
        lazy = lazy.compute(scheduler="synchronous" if n % 2 else "threads")
        L = np.asarray(lazy.array, dtype=np.float64)
        ctx.expect(np.array_equal(np.asarray(lazy.miller_indices), hkl), "lazy-eager:meta", what="miller indices")
        if eager is None:
            judge_intensities(L.reshape(len(th_list), n), "lazy")
            return
        ctx.expect(type(lazy) is type(eager) and L.shape == I.shape, "lazy-eager:meta", lazy=list(L.shape),
                   eager=list(I.shape))
        ctx.expect(np.array_equal(np.asarray(lazy.miller_indices), np.asarray(eager.miller_indices)), "lazy-eager:meta",
                   what="miller indices")
        ctx.expect(G.approx_struct(G.axes_dicts(lazy), G.axes_dicts(eager)), "lazy-eager:meta", lazy=G.axes_dicts(lazy),
                   eager=G.axes_dicts(eager))
        if L.shape == I.shape:
            ctx.close(L, I, "lazy-eager:values", rtol=0, atol=(2e-3 if f32 else 1e-10))
    attempt(ctx, "lazy", lazy_stage)

    # ---------------- several lazy results in one dask computation (no key collisions between objects)
    def joint_stage():
        import dask
        swap = {case["elements"][0]: case["elements"][1], case["elements"][1]: case["elements"][0]}
        other = atoms.copy()
        other.symbols = [swap[x] for x in atoms.get_chemical_symbols()]
        bw_other = make_bloch(case, other)
        th2 = th * 0.5 + 7.0 if isinstance(th, float) else [t * 0.5 + 7.0 for t in th_list]
        jobs = [(bw, th), (bw, th2), (bw_other, th)]
        lazies = [b.calculate_diffraction_patterns(t, lazy=True) for b, t in jobs]
        mats = [b.calculate_structure_matrix(lazy=True) for b in (bw, bw_other)]
        out = dask.compute(*([x.array for x in lazies] + mats), scheduler="synchronous")
        for i, ((b, t), got) in enumerate(zip(jobs, out[:3])):
            sep = np.asarray(b.calculate_diffraction_patterns(t, lazy=False).array)
            ctx.close(np.asarray(got), sep, "joint-compute", rtol=0, atol=(2e-3 if f32 else 1e-10), member=i)
        for i, (b, got) in enumerate(zip((bw, bw_other), out[3:])):
            sep = np.asarray(b.calculate_structure_matrix(lazy=False))
            ctx.close(np.asarray(got), sep, "joint-compute", rtol=0, atol=(1e-5 if f32 else 1e-12) * float(np.abs(sep).max()),
                      member=i, what="structure matrix")
    attempt(ctx, "joint-compute", joint_stage)

    # ---------------- structure matrix: Hermitian + independent assembly
    def matrix_stage():
        A = np.asarray(bw.calculate_structure_matrix(lazy=False))
        scale = float(np.abs(A).max())
        ctx.close(A, A.conj().T, "structure-matrix-hermitian", rtol=0, atol=(1e-6 if f32 else 1e-12) * scale)
        sfa = bw.structure_factor
        if not hasattr(sfa, "array"):
            sfa = sfa.build(lazy=False)
        sfv = arr(sfa)
        A_ref = model_structure_matrix(np.asarray(sfa.hkl), sfv, hkl, bw.cell, energy, case["use_wave_eq"])
        off = ~np.eye(n, dtype=bool)
        ctx.close(A[off], A_ref[off], "structure-matrix-model", rtol=(1e-5 if f32 else 1e-9), what="off-diagonal")
        ctx.close(np.diag(A), np.diag(A_ref), "structure-matrix-model", rtol=(1e-5 if f32 else 1e-9),
                  atol=(1e-5 if f32 else 1e-9) * 2 * k0 * case["sg_max"], what="diagonal")
        return A, scale
    ok_a, res = attempt(ctx, "structure-matrix", matrix_stage)
    if not ok_a:
        return
    A, scale = res

    def lazy_matrix_stage():
        A_lazy = bw.calculate_structure_matrix(lazy=True)
        ctx.close(np.asarray(A_lazy.compute(scheduler="synchronous")), A, "lazy-eager:values", rtol=0,
                  atol=(1e-5 if f32 else 1e-12) * scale, what="structure matrix")
    attempt(ctx, "lazy-structure-matrix", lazy_matrix_stage)

    # ---------------- matrix exponential path
    def expm_stage():
        A64 = A.astype(np.complex128)
        Minv = 1.0 / M
        for k, t in enumerate(th_list):
            if k >= 3:
                break
            if k == 0:
                S = bw.calculate_scattering_matrix(t)        # method: lazy structure matrix -> expm
                if hasattr(S, "compute"):
                    S = S.compute()
                S = np.asarray(S)
            else:
                S = np.asarray(D.calculate_scattering_matrix(A64, hkl, bw.cell, t, energy))
            U = Minv[:, None] * S * M[None]
            ctx.close(U.conj().T @ U, np.eye(n), "s-matrix-flux-unitary", rtol=0, atol=(5e-3 if f32 else 1e-8), thickness=t)
            if t == 0.0:
                ctx.close(S, np.eye(n), "zero-thickness", rtol=0, atol=(1e-5 if f32 else 1e-10), what="S(0) is the identity")
            if I2 is None:
                continue
            Ie = np.abs(S[:, i0]) ** 2
            # per-beam first-order bound: |M_g^2 - 1| I_g + |1/M_g - 1| sqrt(I_g) <= d_g (2 I_g + sqrt(I_g)), d_g = |g_z|/k0
            Bt = float((dz * (2 * I2[k] + np.sqrt(I2[k]))).max())
            ctx.close(Ie, I2[k], "expm-equals-eig", rtol=0, atol=10 * eps + 5 * Bt + float(dz.max()) ** 2, thickness=t, B=Bt, n=n)
            if no_holz:
                ctx.close(Ie, I2[k], "expm-equals-eig:no-holz", rtol=0, atol=10 * eps, thickness=t, n=n)
    attempt(ctx, "scattering-matrix", expm_stage)


def _check_ensemble(ctx, case, bw, th, th_list, eps):
    """Rotation ensemble: lazy == eager, each member == the single BlochWaves run."""
    import itertools
    f32 = case["precision"] == "float32"
    args = []
    for axes, val in case["angles"]:
        args += [axes, np.array(val, dtype=float)]
    ens = bw.rotate(*args)
    ctx.expect(type(ens).__name__ == "BlochwaveEnsemble", "ensemble-member", what="rotate did not return an ensemble")
    shape = tuple(len(v) for _, v in case["angles"])
    eager = ens.calculate_diffraction_patterns(th, lazy=False)
    lazy = ens.calculate_diffraction_patterns(th, lazy=True)
    ctx.expect(lazy.is_lazy, "lazy-eager:meta", what="ensemble lazy=True returned eager")
    lazy = lazy.compute(scheduler="synchronous")
    Ea, La = np.asarray(eager.array, dtype=np.float64), np.asarray(lazy.array, dtype=np.float64)
    tshape = () if isinstance(th, float) else (len(th_list),)
    ctx.expect(Ea.shape[:-1] == shape + tshape and La.shape == Ea.shape, "lazy-eager:meta", eager=list(Ea.shape),
               lazy=list(La.shape), want=list(shape + tshape))
    ctx.expect(G.approx_struct(G.axes_dicts(lazy), G.axes_dicts(eager)), "lazy-eager:meta", what="ensemble axes")
    if La.shape == Ea.shape:
        ctx.close(La, Ea, "lazy-eager:values", rtol=0, atol=(2e-3 if f32 else 1e-10), what="ensemble")
    ens_hkl = [tuple(int(v) for v in h) for h in np.asarray(eager.miller_indices)]
    index = {h: i for i, h in enumerate(ens_hkl)}
    for idx in itertools.product(*[range(s) for s in shape]):
        sargs = []
        for (axes, val), i in zip(case["angles"], idx):
            sargs += [axes, float(val[i])]
        one = bw.rotate(*sargs)
        ref = np.asarray(one.calculate_diffraction_patterns(th, lazy=False).array, dtype=np.float64)
        ref = ref.reshape(len(th_list), -1)
        full = np.zeros((len(th_list), len(ens_hkl)))
        cols = [index.get(tuple(int(v) for v in h)) for h in np.asarray(one.hkl)]
        if not ctx.expect(all(c is not None for c in cols), "ensemble-member", what="member beam missing from ensemble",
                          member=list(idx)):
            continue
        full[:, cols] = ref
        got = Ea[idx].reshape(len(th_list), -1)
        ctx.monitor("ensemble-members-compared")
        ctx.close(got, full, "ensemble-member", rtol=0, atol=(2e-3 if f32 else 1e-10), member=list(idx))
        g, k0, dz, M = model_quantities(np.asarray(one.hkl), one.cell, case["energy"])
        Wm = float((ref * dz[None]).sum(-1).max())
        ctx.close(got.sum(-1), np.ones(len(th_list)), "intensity-sum", rtol=0, atol=eps + 8 * Wm + float(dz.max()) ** 2, member=list(idx))
