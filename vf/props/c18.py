"""C18 Chunk computations partition arrays exactly.

Oracle: exact integer arithmetic on the tuples returned by the real functions of
abtem.core.chunks.  For `validate_chunks` a small independent model decides whether a
chunking inside the element limit exists at all (all 'auto' dimensions at chunk size 1, the
fixed dimensions at the size the specification really produces); only then the limit is
judged and a refusal is a violation.  `iterate_chunk_ranges` is judged by cutting an array
that holds its own flat index and reassembling it.

Second monitor (`pipeline-*` clauses): post-conditions are attached to `validate_chunks`,
`equal_sized_chunks`, `chunk_ranges` and `generate_chunks` in every abTEM module that imported
them, then real lazy workloads (scanned multislice, frozen phonons, PRISM, rechunking) are
built and computed, so the same arithmetic is evaluated on the calls abTEM makes itself.
"""
import itertools
import math

import numpy as np

from vf import gen as G

PROPERTY = "C18"
TECHNIQUE = "runtime monitoring; exact index-arithmetic oracle on returned chunk tuples + post-condition wrappers inside real pipelines"
RULE = ("shapes of 0-6 dimensions with sizes 1-1000 (size-1 axes over-represented); per-dimension specification drawn from -1, "
        "int (below, equal to, above the axis size), explicit tuple (random composition, optionally with a zero chunk or not "
        "summing to the size), 'auto'; whole-array specifications -1 and int; limits 1-1e7 (log-uniform, or placed exactly on / "
        "one below / a multiple of the product of the fixed dimensions), byte strings and 'auto' with five dtypes; "
        "equal_sized_chunks exhaustively for n<=200 plus random n<=3e4 by num_chunks and by chunk_size; chunk_ranges / "
        "iterate_chunk_ranges / generate_chunks on random compositions; non-trivial = at least one dimension split into >=2 "
        "chunks (validate), m>=2 (equal), >=2 blocks (ranges); distinct = distinct case signature")
CLAUSES = ["sum-equals-shape", "chunks-positive", "spec-respected", "limit-respected", "no-refusal-when-valid-exists",
           "mismatch-refused", "equal-sized:sum", "equal-sized:differ-by-at-most-one", "equal-sized:count",
           "equal-sized:too-many-refused", "ranges:contiguous", "ranges:cover", "ranges:sizes",
           "iterate:exactly-once", "generate:contiguous", "pipeline-sum-equals-shape", "pipeline-limit-respected",
           "pipeline-equal-sized", "pipeline-ranges"]
QUICK = dict(n=5000, time=30)
THOROUGH = dict(n=808080, time=480, shards=16)
EXHAUSTIVE = False

DTYPES = ["float32", "complex64", "float64", "complex128", "int8"]


# --------------------------------------------------------------------------- generation
def _composition(rng, n, zero=False):
    """Random composition of n into positive parts (optionally with one zero part)."""
    if n == 0:
        return [0]
    k = int(min(n, rng.choice([1, 2, 3, 5, 8])))
    cuts = np.sort(rng.choice(np.arange(1, n), size=k - 1, replace=False)) if k > 1 else np.array([], dtype=int)
    parts = np.diff(np.concatenate([[0], cuts, [n]])).astype(int).tolist()
    if zero:
        parts.insert(int(rng.integers(0, len(parts) + 1)), 0)
    return [int(p) for p in parts]


def _size(rng):
    r = rng.random()
    if r < 0.2:
        return 1
    if r < 0.5:
        return int(rng.integers(2, 9))
    if r < 0.85:
        return int(rng.integers(9, 101))
    return int(rng.integers(101, 1001))


def _fixed_product(shape, spec):
    p = 1
    for s, c in zip(shape, spec):
        if c == "auto":
            continue
        if isinstance(c, list):
            p *= max(c)
        elif c == -1:
            p *= s
        else:
            p *= min(c, s)
    return p


def gen_validate(rng):
    ndim = int(rng.choice([0, 1, 1, 2, 2, 2, 3, 3, 4, 5, 6]))
    shape = [_size(rng) for _ in range(ndim)]
    bad = False
    whole = rng.random()
    if whole < 0.06:
        spec = -1
    elif whole < 0.16:
        spec = int(10 ** rng.uniform(0, 7))
        if rng.random() < 0.3 and ndim:
            spec = int(max(1, np.prod(shape[: int(rng.integers(0, ndim + 1))], dtype=object)))
    else:
        spec = []
        want_auto = rng.random() < 0.75
        for s in shape:
            r = rng.random()
            if want_auto and r < 0.4:
                spec.append("auto")
            elif r < 0.5:
                spec.append(-1)
            elif r < 0.8:
                k = rng.random()
                if k < 0.5:
                    spec.append(int(rng.integers(1, s + 1)))
                elif k < 0.65:
                    spec.append(int(s))
                elif k < 0.85:
                    spec.append(int(s + rng.integers(1, 2 * s + 2)))
                else:
                    spec.append(1)
            else:
                comp = _composition(rng, s, zero=rng.random() < 0.08)
                if rng.random() < 0.06:
                    comp[int(rng.integers(0, len(comp)))] += int(rng.choice([-1, 1, 2]))
                    if min(comp) < 0 or sum(comp) == s:
                        comp = _composition(rng, s)
                    else:
                        bad = True
                spec.append(comp)
    case = {"kind": "validate", "shape": shape, "spec": spec, "bad_tuple": bad}
    if isinstance(spec, list) and "auto" in spec:
        fp = _fixed_product(shape, spec)
        r = rng.random()
        if r < 0.35:
            lim = int(10 ** rng.uniform(0, 7))
        elif r < 0.5:
            lim = max(1, fp)
        elif r < 0.6:
            lim = max(1, fp - 1)
        elif r < 0.8:
            lim = max(1, fp * int(rng.integers(1, 50)))
        elif r < 0.9:
            lim = max(1, fp * int(rng.integers(1, 50)) + int(rng.integers(0, max(fp, 2))))
        else:
            lim = None
        if lim is not None:
            case["limit"] = int(min(lim, 10 ** 9))
        else:
            case["dtype"] = str(rng.choice(DTYPES))
            if rng.random() < 0.5:
                case["limit"] = "auto"
                case["config_chunk_size"] = str(rng.choice(["64 B", "1 KiB", "100 kB", "2 MiB", "128 MiB"]))
            else:
                case["limit"] = "%d %s" % (int(rng.integers(1, 1000)), str(rng.choice(["B", "kB", "KiB", "MiB"])))
    return case


def gen(rng, tier):
    k = rng.random()
    if k < 0.0012:
        return {"kind": "pipeline", "seed": int(rng.integers(0, 2 ** 31)), "compute": bool(rng.random() < 0.5)}
    if k < 0.62:
        return gen_validate(rng)
    if k < 0.8:
        n = int(rng.choice([int(rng.integers(1, 300)), int(rng.integers(1, 30000))]))
        if rng.random() < 0.5:
            m = int(rng.integers(1, n + 1)) if rng.random() < 0.85 else int(n + rng.integers(1, 5))
            return {"kind": "equal", "n": n, "m": m}
        return {"kind": "equal", "n": n, "chunk_size": int(rng.integers(1, n + 3))}
    if k < 0.93:
        ndim = int(rng.integers(1, 5))
        chunks = [_composition(rng, int(rng.integers(1, 40 if ndim > 2 else 200)), zero=rng.random() < 0.05)
                  for _ in range(ndim)]
        return {"kind": "ranges", "chunks": chunks}
    n = int(rng.integers(0, 500))
    c = {"kind": "generate", "n": n, "start": int(rng.integers(-5, 1000))}
    if rng.random() < 0.5 and n > 0:
        c["m"] = int(rng.integers(1, n + 1))
    else:
        c["chunk_size"] = int(rng.integers(1, max(n, 1) + 3))
    return c


def fixed_cases(tier):
    out = [{"kind": "equal-exhaustive", "nmax": 200},
           {"kind": "pipeline", "seed": 11, "compute": False},
           # an int chunk larger than its axis next to a size-1 'auto' axis (5 <= 7: a chunking within the limit exists)
           {"kind": "validate", "shape": [1, 5], "spec": ["auto", 10], "limit": 7, "bad_tuple": False},
           {"kind": "validate", "shape": [3, 1], "spec": [8, "auto"], "limit": 3, "bad_tuple": False},
           # explicit tuples: unequal chunks count with their largest chunk; a tuple that does not sum is refused
           {"kind": "validate", "shape": [6, 9], "spec": ["auto", [1, 8]], "limit": 17, "bad_tuple": False},
           {"kind": "validate", "shape": [6, 9], "spec": [-1, [4, 4]], "bad_tuple": True},
           {"kind": "validate", "shape": [6], "spec": [[3, 4]], "bad_tuple": True},
           # tight limits on size-1 'auto' axes and over-sized int chunks
           {"kind": "validate", "shape": [1], "spec": ["auto"], "limit": 1, "bad_tuple": False},
           {"kind": "validate", "shape": [1, 1], "spec": ["auto", "auto"], "limit": 1, "bad_tuple": False},
           {"kind": "validate", "shape": [1, 5], "spec": ["auto", 5], "limit": 5, "bad_tuple": False},
           {"kind": "validate", "shape": [1, 5], "spec": ["auto", -1], "limit": 5, "bad_tuple": False},
           {"kind": "validate", "shape": [1, 5], "spec": ["auto", [2, 3]], "limit": 3, "bad_tuple": False},
           {"kind": "validate", "shape": [7, 5], "spec": ["auto", 10], "limit": 7, "bad_tuple": False},
           {"kind": "validate", "shape": [4, 4], "spec": ["auto", "auto"], "limit": 1, "bad_tuple": False},
           {"kind": "validate", "shape": [10, 3, 7], "spec": ["auto", -1, "auto"], "limit": 21, "bad_tuple": False},
           {"kind": "validate", "shape": [10, 3, 7], "spec": ["auto", -1, "auto"], "limit": 20, "bad_tuple": False},
           {"kind": "validate", "shape": [], "spec": [], "bad_tuple": False},
           {"kind": "validate", "shape": [], "spec": -1, "bad_tuple": False},
           {"kind": "validate", "shape": [], "spec": 5, "bad_tuple": False},
           {"kind": "equal", "n": 0, "m": 3}, {"kind": "equal", "n": 1, "m": 1},
           {"kind": "generate", "n": 0, "start": 3, "m": 2},
           {"kind": "ranges", "chunks": [[1]]}, {"kind": "ranges", "chunks": [[3, 0, 2], [1, 1]]}]
    return out


# --------------------------------------------------------------------------- judging helpers
def _to_spec(spec):
    if isinstance(spec, list):
        return tuple(tuple(c) if isinstance(c, list) else c for c in spec)
    return spec


def _limit_elements(limit, dtype, config_chunk):
    """Independent evaluation of the element limit (dask.utils.parse_bytes is trusted)."""
    from dask.utils import parse_bytes
    if isinstance(limit, int):
        return limit
    nbytes = parse_bytes(config_chunk if limit == "auto" else limit)
    return int(nbytes // np.dtype(dtype).itemsize)


def judge_validated(ctx, shape, spec, limit_elems, got, prefix="", **detail):
    """Post-conditions of validate_chunks(shape, spec, limit) == got.  `spec` in call form."""
    ok = ctx.expect(isinstance(got, tuple) and len(got) == len(shape) and
                    all(isinstance(c, tuple) and all(isinstance(x, (int, np.integer)) for x in c) for c in got),
                    prefix + "sum-equals-shape", reason="not a tuple of tuples of ints", got=got, **detail)
    if not ok:
        return
    ctx.expect(all(sum(c) == s for c, s in zip(got, shape)), prefix + "sum-equals-shape", shape=shape, got=got, **detail)
    if isinstance(spec, tuple):
        per_dim = spec
    elif spec == -1:
        per_dim = (-1,) * len(shape)
    else:
        per_dim = ("auto",) * len(shape)
    explicit = [isinstance(c, tuple) for c in per_dim]
    ctx.expect(all(all(x > 0 for x in c) for c, e in zip(got, explicit) if not e), prefix + "chunks-positive",
               shape=shape, got=got, **detail)
    if not prefix:
        good = True
        for c, s, g in zip(per_dim, shape, got):
            if isinstance(c, tuple):
                good &= tuple(g) == tuple(c)
            elif c == -1:
                good &= tuple(g) == (s,)
            elif isinstance(c, int):
                # uniform chunks of the requested size, only the last one may be smaller
                good &= all(x == min(c, s) for x in g[:-1]) and 0 < g[-1] <= min(c, s)
        ctx.expect(good, "spec-respected", shape=shape, spec=spec, got=got, **detail)
    if limit_elems is not None and "auto" in per_dim:
        fixed = 1
        for c, s in zip(per_dim, shape):
            if c == "auto":
                continue
            fixed *= max(c) if isinstance(c, tuple) else (s if c == -1 else min(c, s))
        if fixed <= limit_elems:
            biggest = math.prod(max(c) if len(c) else 0 for c in got)
            ctx.expect(biggest <= limit_elems, prefix + "limit-respected", shape=shape, spec=spec, limit=limit_elems,
                       got=got, largest_block=biggest, **detail)
            return True
        ctx.note(prefix + "no-chunking-within-limit-exists")
    return False


def judge_equal(ctx, n, m, got, prefix="equal-sized:", **detail):
    ctx.expect(sum(got) == n and all(isinstance(x, (int, np.integer)) for x in got), prefix + "sum", n=n, m=m,
               got=got if len(got) < 40 else len(got), **detail)
    if len(got):
        ctx.expect(max(got) - min(got) <= 1 and min(got) >= 1, prefix + "differ-by-at-most-one", n=n, m=m,
                   lo=min(got), hi=max(got), **detail)
    if m is not None:
        ctx.expect(len(got) == m, prefix + "count", n=n, m=m, count=len(got), **detail)


def judge_ranges(ctx, chunks, got, prefix="ranges:", **detail):
    ok = len(got) == len(chunks)
    ctx.expect(ok, prefix + "sizes", reason="number of dimensions", **detail)
    if not ok:
        return
    for c, r in zip(chunks, got):
        ctx.expect(len(r) == len(c) and all(b - a == x for (a, b), x in zip(r, c)), prefix + "sizes", chunks=c, ranges=r,
                   **detail)
        if len(r):
            ctx.expect(all(r[i + 1][0] == r[i][1] for i in range(len(r) - 1)), prefix + "contiguous", chunks=c, ranges=r,
                       **detail)
            ctx.expect(r[0][0] == 0 and r[-1][1] == sum(c), prefix + "cover", chunks=c, ranges=r, **detail)


# --------------------------------------------------------------------------- checks
def check_validate(ctx, case):
    import abtem
    from abtem.core import chunks as C
    shape = tuple(case["shape"])
    spec = _to_spec(case["spec"])
    limit = case.get("limit")
    dtype = case.get("dtype")
    kwargs = {}
    if limit is not None:
        kwargs["max_elements"] = limit
    if dtype is not None:
        kwargs["dtype"] = np.dtype(dtype)
    cfg = {"dask.chunk-size": case["config_chunk_size"]} if case.get("config_chunk_size") else {}
    err = None
    with abtem.config.set(cfg):
        try:
            got = C.validate_chunks(shape, spec, **kwargs)
        except Exception as e:  # classified below
            err = e
    if case["bad_tuple"]:
        # an explicit tuple that does not sum to the axis size must never come back as "validated"
        ctx.expect(isinstance(err, (ValueError, RuntimeError, AssertionError)), "mismatch-refused", shape=shape, spec=spec,
                   returned=None if err is not None else got, error=repr(err))
        ctx.nontrivial()
        return
    if isinstance(spec, int) and spec != -1:
        lim_elems = spec
    elif limit is not None:
        lim_elems = _limit_elements(limit, dtype, case.get("config_chunk_size"))
    else:
        lim_elems = None
    per_dim = spec if isinstance(spec, tuple) else (("auto",) * len(shape) if spec != -1 else (-1,) * len(shape))
    if err is not None:
        fixed = _fixed_product(shape, [list(c) if isinstance(c, tuple) else c for c in per_dim])
        has_auto = "auto" in per_dim
        valid_exists = (not has_auto) or fixed <= lim_elems
        if valid_exists:
            ctx.expect(False, "no-refusal-when-valid-exists", shape=shape, spec=spec, limit=lim_elems,
                       fixed_product=fixed, error=repr(err)[:200])
        else:
            ctx.note("refused-no-valid-chunking")
            ctx.expect(isinstance(err, RuntimeError), "no-refusal-when-valid-exists", reason="unexpected error type",
                       error=repr(err)[:200])
        return
    valid = judge_validated(ctx, shape, spec, lim_elems, got)
    if valid:
        ctx.expect(True, "no-refusal-when-valid-exists")
    ctx.nontrivial(any(len(c) >= 2 for c in got))
    # the validated result is a fixed point
    again = C.validate_chunks(shape, got)
    ctx.expect(again == got, "spec-respected", reason="validated chunks are not a fixed point", got=got, again=again)


def check_equal(ctx, case):
    from abtem.core import chunks as C
    n = case["n"]
    if "m" in case:
        m = case["m"]
        try:
            got = C.equal_sized_chunks(n, num_chunks=m)
        except RuntimeError as e:
            ctx.expect(m > n > 0, "equal-sized:too-many-refused", n=n, m=m, error=repr(e))
            return
        if n == 0:
            ctx.expect(got == (), "equal-sized:sum", n=n, m=m, got=got)
            return
        ctx.expect(m <= n, "equal-sized:too-many-refused", n=n, m=m, got=len(got))
        judge_equal(ctx, n, m, got)
        ctx.nontrivial(m >= 2)
    else:
        k = case["chunk_size"]
        got = C.equal_sized_chunks(n, chunk_size=k)
        m = -(-n // k)
        judge_equal(ctx, n, m, got)
        ctx.expect(max(got) <= k, "equal-sized:count", reason="chunk larger than chunk_size", n=n, chunk_size=k, hi=max(got))
        ctx.nontrivial(m >= 2)


def check_equal_exhaustive(ctx, case):
    from abtem.core import chunks as C
    for n in range(1, case["nmax"] + 1):
        for m in range(1, n + 1):
            judge_equal(ctx, n, m, C.equal_sized_chunks(n, num_chunks=m))
        for k in range(1, n + 2):
            got = C.equal_sized_chunks(n, chunk_size=k)
            judge_equal(ctx, n, -(-n // k), got)
            ctx.expect(max(got) <= k, "equal-sized:count", n=n, chunk_size=k)
        for m in (n + 1, 2 * n + 1):
            try:
                got = C.equal_sized_chunks(n, num_chunks=m)
            except RuntimeError:
                ctx.expect(True, "equal-sized:too-many-refused")
            else:
                ctx.expect(False, "equal-sized:too-many-refused", n=n, m=m, got=got)
    ctx.monitor("equal-sized-exhaustive-pairs", case["nmax"] * (case["nmax"] + 1) // 2)
    ctx.nontrivial()


def check_ranges(ctx, case):
    from abtem.core import chunks as C
    chunks = tuple(tuple(c) for c in case["chunks"])
    got = C.chunk_ranges(chunks)
    judge_ranges(ctx, chunks, got)
    shape = tuple(sum(c) for c in chunks)
    size = int(np.prod(shape))
    nblocks = int(np.prod([len(c) for c in chunks]))
    if size <= 200000 and nblocks <= 5000:
        ids = np.arange(size).reshape(shape)
        out = np.full(shape, -1)
        seen = np.zeros(shape, dtype=int)
        want_idx = list(itertools.product(*(range(len(c)) for c in chunks)))
        got_idx = []
        for idx, slic in C.iterate_chunk_ranges(chunks):
            got_idx.append(tuple(idx))
            ok = ids[slic].shape == tuple(c[i] for c, i in zip(chunks, idx))
            if not ok:
                ctx.expect(False, "iterate:exactly-once", reason="block shape", idx=idx, slic=repr(slic))
            out[slic] = ids[slic]
            seen[slic] += 1
        ctx.expect(got_idx == want_idx, "iterate:exactly-once", reason="block indices / order", got=got_idx[:10],
                   want=want_idx[:10])
        ctx.expect(bool((seen == 1).all()) and bool((out == ids).all()), "iterate:exactly-once", chunks=chunks)
    ctx.nontrivial(nblocks >= 2)


def check_generate(ctx, case):
    from abtem.core import chunks as C
    n, start = case["n"], case["start"]
    kw = {"num_chunks": case["m"]} if "m" in case else {"chunks": case["chunk_size"]}
    got = list(C.generate_chunks(n, start=start, **kw))
    if n == 0:
        ctx.expect(got == [], "generate:contiguous", got=got)
        return
    sizes = tuple(b - a for a, b in got)
    ok = got[0][0] == start and got[-1][1] == start + n and all(got[i + 1][0] == got[i][1] for i in range(len(got) - 1))
    ctx.expect(ok, "generate:contiguous", n=n, start=start, got=got[:10])
    judge_equal(ctx, n, case.get("m"), sizes)
    ctx.nontrivial(len(got) >= 2)


# --------------------------------------------------------------------------- pipeline monitor
def _patch_everywhere(w, name, make):
    """Wrap abtem.core.chunks.<name> in every loaded abtem module that holds a reference to it."""
    import sys
    from abtem.core import chunks as C
    orig = getattr(C, name)
    new = make(orig)
    for modname, mod in list(sys.modules.items()):
        if not modname.startswith("abtem") or mod is None:
            continue
        if mod.__dict__.get(name) is orig:
            w.patch(mod, name, lambda _o, _n=new: _n)
    return orig


def check_pipeline(ctx, case):
    import warnings
    import abtem
    import abtem.prism.s_matrix  # noqa: F401  (make sure users of the functions are imported)
    import abtem.bloch.dynamical  # noqa: F401
    from ase.build import bulk
    rng = np.random.default_rng(case["seed"])
    calls = {"validate": 0, "equal": 0, "ranges": 0, "generate": 0, "nested": 0}
    depth = {"d": 0}

    def make_validate(orig):
        def validate_chunks(shape, chunks, max_elements="auto", dtype=None, device="cpu"):
            depth["d"] += 1
            try:
                got = orig(shape, chunks, max_elements, dtype, device)
            finally:
                depth["d"] -= 1
            calls["validate"] += 1
            try:
                shape_t = tuple(int(s) for s in shape)
                lim = None
                spec = chunks
                if isinstance(chunks, int) and chunks != -1:
                    lim = chunks
                elif isinstance(chunks, tuple) and any(isinstance(c, str) for c in chunks):
                    if isinstance(max_elements, int):
                        lim = max_elements
                    elif dtype is not None:
                        lim = _limit_elements(max_elements, dtype, abtem.config.get(
                            "dask.chunk-size-gpu" if device == "gpu" else "dask.chunk-size"))
                if isinstance(spec, (int, tuple)):
                    judge_validated(ctx, shape_t, spec, lim, got, prefix="pipeline-", where="validate_chunks")
            except Exception as e:  # a monitor must never break the workload
                ctx.note("pipeline-monitor-error:" + type(e).__name__)
            return got
        return validate_chunks

    def make_equal(orig):
        def equal_sized_chunks(num_items, num_chunks=None, chunk_size=None):
            got = orig(num_items, num_chunks, chunk_size)
            calls["equal"] += 1
            if num_items > 0:
                ctx.expect(sum(got) == num_items and max(got) - min(got) <= 1 and min(got) >= 1 and
                           (num_chunks is None or len(got) == num_chunks), "pipeline-equal-sized", n=num_items,
                           m=num_chunks, chunk_size=chunk_size, got=got if len(got) < 30 else len(got))
            return got
        return equal_sized_chunks

    def make_ranges(orig):
        def chunk_ranges(chunks):
            got = orig(chunks)
            calls["ranges"] += 1
            judge_ranges(ctx, tuple(tuple(c) for c in chunks), got, prefix="pipeline-ranges:")
            ctx.clauses["pipeline-ranges"] += 1
            return got
        return chunk_ranges

    def make_generate(orig):
        def generate_chunks(num_items, num_chunks=None, chunks=None, start=0):
            got = list(orig(num_items, num_chunks, chunks, start))
            calls["generate"] += 1
            if num_items > 0:
                ok = (got[0][0] == start and got[-1][1] == start + num_items and
                      all(got[i + 1][0] == got[i][1] for i in range(len(got) - 1)))
                ctx.expect(ok, "pipeline-ranges", where="generate_chunks", n=num_items, start=start, got=got[:10])
            return iter(got)
        return generate_chunks

    with G.Wrapped() as w, warnings.catch_warnings():
        warnings.simplefilter("ignore")
        _patch_everywhere(w, "validate_chunks", make_validate)
        _patch_everywhere(w, "equal_sized_chunks", make_equal)
        _patch_everywhere(w, "chunk_ranges", make_ranges)
        _patch_everywhere(w, "generate_chunks", make_generate)
        import dask
        with abtem.config.set({"dask.chunk-size": str(rng.choice(["8 KiB", "40 KiB", "300 KiB"])),
                               "diagnostics.progress_bar": False}), dask.config.set(scheduler="synchronous"):
            atoms = bulk("Si", cubic=True) * (1, 1, int(rng.integers(1, 3)))
            g = int(rng.integers(20, 33))
            fp = abtem.FrozenPhonons(atoms, num_configs=int(rng.integers(2, 5)), sigmas=0.1, seed=3)
            pot = abtem.Potential(fp, gpts=(g, g + 3), slice_thickness=2.0)
            probe = abtem.Probe(energy=100e3, semiangle_cutoff=20.0, defocus=abtem.distributions.uniform(0, 50, int(rng.integers(2, 5))))
            probe.grid.match(pot)
            scan = abtem.GridScan(start=(0, 0), end=(0.5, 0.5), fractional=True, potential=pot,
                                  gpts=(int(rng.integers(2, 6)), int(rng.integers(2, 6))))
            m = probe.scan(pot, scan=scan, detectors=abtem.AnnularDetector(inner=10, outer=30), lazy=True)
            if case.get("compute"):
                m.compute()
            ls = abtem.LineScan(start=(0, 0), end=(2.0, 3.0), gpts=int(rng.integers(3, 12)))
            w2 = probe.build(scan=ls, lazy=True, max_batch=int(rng.integers(1, 20)))
            w2 = w2.rechunk((int(rng.integers(1, 3)),) + (-1,) * (len(w2.ensemble_shape) - 1))
            w2.intensity().compute()
            pb = pot.build(lazy=True)
            if case.get("compute"):
                pb.compute()
            s = abtem.SMatrix(semiangle_cutoff=15.0, energy=100e3, potential=abtem.Potential(atoms, gpts=(g, g)),
                              interpolation=1)
            s.scan(scan=abtem.GridScan(start=(0, 0), end=(1.0, 1.0), gpts=(2, 3)),
                   detectors=abtem.AnnularDetector(inner=10, outer=30), lazy=True)   # graph construction only
    for k, v in calls.items():
        ctx.monitor("pipeline-" + k + "-calls", v)
    if calls["validate"] == 0:
        ctx.note("pipeline-validate-not-reached")
    ctx.nontrivial(calls["validate"] > 10)


def check(ctx, case):
    kind = case["kind"]
    if kind == "validate":
        check_validate(ctx, case)
    elif kind == "equal":
        check_equal(ctx, case)
    elif kind == "equal-exhaustive":
        check_equal_exhaustive(ctx, case)
    elif kind == "ranges":
        check_ranges(ctx, case)
    elif kind == "generate":
        check_generate(ctx, case)
    else:
        check_pipeline(ctx, case)
