"""C39 Beam tilt acts as a lateral shift per propagation distance.

Oracles (none of them goes through abTEM's tilt code):

  tilt-equals-shift     FresnelPropagator.propagate(waves with tilt metadata / tilt axes, dz) must equal the *untilted*
                        propagation of the same array, shifted by dz*tan(t)/sampling pixels with a pure-numpy complex128
                        Fourier shift (shift theorem), member by member for base tilts, per-axis tilt axes and Nx2 tilt axes.
                        One propagator object serves both calls (in random order), so a stale cached kernel is visible.
  tilt-equals-roll      for tilts chosen as t = atan(n*sampling/dz) the tilted result must equal numpy.roll of the untilted
                        result by (n, m) pixels - no FFT in the oracle at all.
  vacuum-shift          the same relation through the real multislice loop (Waves / Probe / PlaneWave .multislice through a
                        zero potential with several slice thicknesses, eager and lazy, thickness series): exit wave at depth z
                        = untilted exit wave shifted by z*tan(t).
  planewave-unit-modulus  a tilted PlaneWave (normalize=False) keeps |psi(r)| = 1 at every pixel and every exit plane
                        through vacuum.
  axes-equal-pairs      through a real (atomic) potential, tilt=(dist_x, dist_y) [per-axis], tilt=Nx2 array [pairs] and
                        one run per scalar base tilt (tx, ty) give the same exit waves member by member.
"""
import numpy as np

from vf import gen as G
from vf import lib_wave as L

PROPERTY = "C39"
TECHNIQUE = "runtime monitoring; shift-theorem oracle (pure numpy Fourier shift / numpy.roll of the untilted run) and differential runs per-axis vs Nx2 vs scalar tilts through real pipelines"
RULE = ("grids 6-64 odd/even/rectangular, anisotropic sampling 0.03-0.4 A, energies 20-1000 keV, dz +-0.2-200 A, tilts +-50 mrad of "
        "either sign given as base tilt, per-axis distributions (1-3 x 0-3 values, scalar on the other axis) or Nx2 pairs, "
        "propagator order 1/2, random full-band and band-limited waves with 0-2 extra ensemble axes, anti-alias config variants, "
        "fftw/numpy FFT, float32/float64; vacuum pipelines with 1-4 slices of different thickness and exit planes, Probe/"
        "PlaneWave/Waves, eager/lazy; tilt-form comparison through random 1-3 atom cells; non-trivial = some member has a "
        "shift of at least 0.05 pixel; distinct = distinct case signature")
CLAUSES = ["tilt-equals-shift", "tilt-equals-roll", "vacuum-shift", "planewave-unit-modulus", "axes-equal-pairs", "base-equal-pairs"]
QUICK = dict(n=500, time=32)
THOROUGH = dict(n=54140, time=480, shards=16)

TOL = {"float32": 1e-4, "float64": 5e-10}
MOD_TOL = {"float32": 2e-5, "float64": 1e-11}
AA_VARIANTS = [None, None, None, [0.5, 0.01], [0.8, 0.05], [2.0 / 3.0, 0.0], [0.9, 0.02]]


# ------------------------------------------------------------------------------------------------ generation
def _t(rng, big=False):
    lim = 50.0
    v = float(rng.uniform(-lim, lim))
    if big or rng.random() < 0.3:
        v = float(rng.choice([-1, 1]) * rng.uniform(30.0, lim))
    return float(np.round(v, 4))


def _tilt_spec(rng, allow_none=False):
    r = rng.random()
    if allow_none and r < 0.1:
        return {"kind": "none"}
    if r < 0.35:
        return {"kind": "base", "t": [_t(rng), _t(rng)]}
    if r < 0.7:
        nx, ny = int(rng.integers(0, 4)), int(rng.integers(0, 4))
        if nx == 0 and ny == 0:
            nx = 2
        return {"kind": "axes", "x": [_t(rng) for _ in range(nx)] if nx else _t(rng), "y": [_t(rng) for _ in range(ny)] if ny else _t(rng)}
    return {"kind": "pairs", "t": [[_t(rng), _t(rng)] for _ in range(int(rng.integers(1, 5)))]}


def _grid(rng, lo=6, hi=64):
    g = G.rand_gpts(rng, lo, hi)
    if rng.random() < 0.3:
        g = [n | 1 for n in g]
    s0 = float(rng.uniform(0.03, 0.4))
    samp = [s0, s0] if rng.random() < 0.5 else [s0, float(s0 * rng.uniform(0.5, 2.0))]
    return g, samp


def _aa(rng):
    v = AA_VARIANTS[int(rng.integers(0, len(AA_VARIANTS)))]
    return None if v is None else list(v)


def gen_propagate(rng):
    g, samp = _grid(rng)
    dz = float(rng.choice([-1, 1]) * rng.choice([float(rng.uniform(0.2, 5.0)), float(rng.uniform(5.0, 50.0)), float(rng.uniform(50, 200))]))
    return {"kind": "propagate", "gpts": g, "sampling": samp, "energy": float(np.exp(rng.uniform(np.log(2e4), np.log(1e6)))),
            "dz": dz, "order": int(rng.choice([1, 2])), "tilt": _tilt_spec(rng), "aa": _aa(rng),
            "precision": str(rng.choice(["float32", "float64", "float64"])), "fft": str(rng.choice(["fftw", "numpy"])),
            "lead": [int(n) for n in rng.integers(1, 4, size=int(rng.integers(0, 3)))],
            "bandlimited": bool(rng.random() < 0.5), "tilted_first": bool(rng.random() < 0.5),
            "in_place": bool(rng.random() < 0.5), "seed": int(rng.integers(0, 2 ** 31))}


def gen_roll(rng):
    c = gen_propagate(rng)
    c["kind"] = "roll"
    c["dz"] = float(rng.choice([-1, 1]) * rng.uniform(5.0, 200.0))
    # integer pixel shifts whose tilt stays below ~60 mrad
    lim = [max(1, int(abs(c["dz"]) * 0.06 / s)) for s in c["sampling"]]
    n = int(rng.integers(1, 4))
    c["shifts"] = [[int(rng.integers(-min(lim[0], 9), min(lim[0], 9) + 1)), int(rng.integers(-min(lim[1], 9), min(lim[1], 9) + 1))]
                   for _ in range(n)]
    c["form"] = str(rng.choice(["base", "pairs", "axes"]))
    c["precision"] = "float64" if rng.random() < 0.7 else "float32"
    del c["tilt"]
    return c


def gen_vacuum(rng):
    g, samp = _grid(rng, 8, 40)
    ns = int(rng.integers(1, 5))
    return {"kind": "vacuum", "gpts": g, "sampling": samp, "energy": float(rng.choice([30e3, 80e3, 200e3, 300e3])),
            "thickness": [float(rng.uniform(0.3, 20.0)) for _ in range(ns)], "exit_planes": bool(rng.random() < 0.5),
            "builder": str(rng.choice(["plane", "plane", "probe", "waves"])), "tilt": _tilt_spec(rng),
            "lazy": bool(rng.random() < 0.5), "order": int(rng.choice([1, 2])), "precision": str(rng.choice(["float32", "float64"])),
            "cutoff": float(rng.choice([10.0, 25.0])), "pos": rng.random(2).round(4).tolist(), "seed": int(rng.integers(0, 2 ** 31)),
            "joint": bool(rng.random() < 0.5)}


def gen_forms(rng):
    cell = G.rand_cell_case(rng, max_atoms=3, max_xy=6.0, max_z=5.0, min_z=1.5)
    nx, ny = int(rng.integers(1, 4)), int(rng.integers(0, 3))
    return {"kind": "forms", "cell": cell, "gpts": G.rand_gpts(rng, 10, 32), "energy": float(rng.choice([60e3, 100e3, 300e3])),
            "slice_thickness": float(rng.choice([0.5, 1.0, 2.0])), "builder": str(rng.choice(["plane", "probe"])),
            "x": [_t(rng) for _ in range(nx)], "y": [_t(rng) for _ in range(ny)] if ny else _t(rng),
            "lazy": bool(rng.random() < 0.5), "precision": str(rng.choice(["float32", "float64"])), "order": int(rng.choice([1, 2])),
            "cutoff": 20.0, "pos": rng.random(2).round(4).tolist(), "shuffle": bool(rng.random() < 0.5), "seed": int(rng.integers(0, 2 ** 31)),
            "joint": bool(rng.random() < 0.5)}


def gen(rng, tier):
    r = rng.random()
    if r < 0.5:
        return gen_propagate(rng)
    if r < 0.72:
        return gen_roll(rng)
    if r < 0.9:
        return gen_vacuum(rng)
    return gen_forms(rng)


def fixed_cases(tier):
    rng = np.random.default_rng(39)
    out = []
    for prec in ("float64", "float32"):
        out.append(dict(gen_propagate(rng), precision=prec, tilt={"kind": "axes", "x": [50.0, -33.0], "y": [-47.5]}, dz=120.0))
        out.append(dict(gen_propagate(rng), precision=prec, tilt={"kind": "pairs", "t": [[-50.0, 21.0], [0.0, 49.0]]}, dz=-77.0))
        out.append(dict(gen_roll(rng), precision=prec))
    for b, lazy in (("plane", False), ("plane", True), ("probe", True), ("waves", False)):
        out.append(dict(gen_vacuum(rng), builder=b, lazy=lazy, exit_planes=True, tilt={"kind": "axes", "x": [45.0, -12.0], "y": 30.0},
                        joint=(b == "probe")))
    out.append(dict(gen_vacuum(rng), builder="probe", lazy=True, joint=True, tilt={"kind": "base", "t": [40.0, -25.0]}))
    out.append(dict(gen_forms(rng), lazy=False, precision="float64"))
    out.append(dict(gen_forms(rng), lazy=True, precision="float32", joint=True))
    return out


# ------------------------------------------------------------------------------------------------ helpers
def _cfg(case):
    import abtem
    cfg = {"precision": case["precision"], "diagnostics.progress_bar": False}
    if case.get("aa"):
        cfg["antialias.cutoff"], cfg["antialias.taper"] = case["aa"]
    if case.get("fft"):
        cfg["fft"] = case["fft"]
    return abtem.config.set(cfg)


def _shift_px(tilt_mrad, dz, sampling):
    t = np.asarray(tilt_mrad, dtype=np.float64)
    return dz * np.tan(t[..., 0] * 1e-3) / sampling[0], dz * np.tan(t[..., 1] * 1e-3) / sampling[1]


def _expected_shifted(untilted, tilts, dz, sampling):
    """untilted: lead + gpts; tilts: tilt_shape + (2,) -> tilt_shape + lead + gpts by the shift theorem (numpy only)."""
    tshape = tilts.shape[:-1]
    out = np.empty(tshape + untilted.shape, dtype=np.complex128)
    sx, sy = _shift_px(tilts, dz, sampling)
    for idx in np.ndindex(*tshape) if tshape else [()]:
        out[idx] = L.fourier_shift(untilted, (float(np.asarray(sx)[idx]), float(np.asarray(sy)[idx])))
    return out


def _compare(ctx, got, want, clause, prec, **detail):
    scale = max(float(np.abs(want).max()), 1e-300)
    return ctx.close(got, want, clause, rtol=0, atol=TOL[prec] * scale, **detail)


def _random_waves(rng, case, gpts, samp):
    def arr(shape):
        if case.get("bandlimited"):
            return L.bandlimited(rng, shape, gpts, samp)[0]
        return rng.standard_normal(shape + gpts) + 1j * rng.standard_normal(shape + gpts)
    return arr


# ------------------------------------------------------------------------------------------------ checks
def check_propagate(ctx, case, roll=False):
    import abtem.multislice as ms
    rng = np.random.default_rng(case["seed"])
    gpts, samp, prec, dz = tuple(case["gpts"]), tuple(case["sampling"]), case["precision"], case["dz"]
    if roll:
        sh = np.array(case["shifts"], dtype=float)
        t = np.stack([np.arctan(sh[:, 0] * samp[0] / dz) * 1e3, np.arctan(sh[:, 1] * samp[1] / dz) * 1e3], axis=-1)
        if case["form"] == "base":
            spec = {"kind": "base", "t": t[0].tolist()}
        elif case["form"] == "pairs":
            spec = {"kind": "pairs", "t": t.tolist()}
        else:
            spec = {"kind": "axes", "x": t[:, 0].tolist(), "y": float(t[0, 1])}
    else:
        spec = case["tilt"]
    tilts = L.tilt_members(spec)
    with _cfg(case):
        base = {}

        def arr(shape):
            # every tilt member carries the same lead-shaped wave so that one untilted run is the reference for all
            lead = tuple(case["lead"])
            if "a" not in base:
                base["a"] = np.asarray(_random_waves(rng, case, gpts, samp)(lead))
            return np.broadcast_to(base["a"], shape + gpts).copy()
        wt = L.tilted_waves(arr, gpts, samp, case["energy"], spec, lead=case["lead"])
        w0 = L.tilted_waves(lambda shape: base["a"], gpts, samp, case["energy"], {"kind": "none"}, lead=case["lead"])
        prop = ms.FresnelPropagator()
        runs = [("t", wt), ("0", w0)] if case["tilted_first"] else [("0", w0), ("t", wt)]
        res = {}
        for name, w in runs:
            res[name] = np.asarray(prop.propagate(w, dz, in_place=case["in_place"], order=case["order"]).array).astype(np.complex128)
    sx, sy = _shift_px(tilts, dz, samp)
    if roll:
        tshape = tilts.shape[:-1]
        want = np.empty(tshape + res["0"].shape, dtype=np.complex128)
        for idx in np.ndindex(*tshape) if tshape else [()]:
            n, m = (case["shifts"][idx[0]] if tshape else case["shifts"][0])
            if case["form"] == "axes":
                m = case["shifts"][0][1]
            want[idx] = np.roll(res["0"], (int(n), int(m)), axis=(-2, -1))
        _compare(ctx, res["t"], want, "tilt-equals-roll", prec, form=case["form"], shifts=case["shifts"])
    else:
        want = _expected_shifted(res["0"], tilts, dz, samp)
        _compare(ctx, res["t"], want, "tilt-equals-shift", prec, tilt=spec, max_shift_px=[float(np.abs(sx).max()), float(np.abs(sy).max())])
    ctx.nontrivial(max(float(np.abs(sx).max()), float(np.abs(sy).max())) >= 0.05)


def check_vacuum(ctx, case):
    import abtem
    import abtem.multislice as ms
    rng = np.random.default_rng(case["seed"])
    gpts, samp, prec = tuple(case["gpts"]), tuple(case["sampling"]), case["precision"]
    th = case["thickness"]
    tilts = L.tilt_members(case["tilt"])
    with _cfg(case):
        dtype = np.float64 if prec == "float64" else np.float32
        kw = {"exit_planes": 1} if case["exit_planes"] else {}
        vac = abtem.PotentialArray(np.zeros((len(th),) + gpts, dtype=dtype), slice_thickness=tuple(th), sampling=samp, **kw)
        alg = ms.FourierMultislice(order=case["order"])
        extent = vac.extent

        def run(spec):
            b = case["builder"]
            if b == "plane":
                out = abtem.PlaneWave(energy=case["energy"], tilt=L.tilt_arg(spec)).multislice(vac, lazy=case["lazy"], algorithm=alg)
            elif b == "probe":
                p = abtem.Probe(energy=case["energy"], semiangle_cutoff=case["cutoff"], tilt=L.tilt_arg(spec), defocus=20.0)
                pos = np.array(case["pos"]) * np.array(extent)
                out = p.multislice(vac, scan=abtem.CustomScan(pos[None]), lazy=case["lazy"], algorithm=alg)
            else:
                r = np.random.default_rng(case["seed"])
                a0 = r.standard_normal(gpts) + 1j * r.standard_normal(gpts)
                w = L.tilted_waves(lambda shape: np.broadcast_to(a0, shape + gpts).copy(), gpts, samp, case["energy"], spec)
                if case["lazy"]:
                    w = w.ensure_lazy()
                out = w.multislice(vac, algorithm=alg)
            return out
        if case["lazy"] and case.get("joint"):
            # tilted and untilted lazy pipelines evaluated in ONE dask computation (shared-key hazards)
            import dask
            got, ref = dask.compute(run(case["tilt"]).array, run({"kind": "none"}).array)
            got, ref = np.asarray(got).astype(np.complex128), np.asarray(ref).astype(np.complex128)
            ctx.monitor("joint-computes")
        else:
            got = L.member_arrays(run(case["tilt"])).astype(np.complex128)
            ref = L.member_arrays(run({"kind": "none"})).astype(np.complex128)
    nplanes = len(vac.exit_planes)
    tshape = tilts.shape[:-1]
    # layout of the output: [thickness axis], tilt axes, [probe position axis of length 1], y, x
    got = got.reshape(((nplanes,) if nplanes > 1 else ()) + tshape + gpts)
    ref = ref.reshape(((nplanes,) if nplanes > 1 else ()) + gpts)
    depths = np.asarray(vac.exit_thicknesses, dtype=float)
    worst = 0.0
    for p in range(nplanes):
        g = got[p] if nplanes > 1 else got
        r = ref[p] if nplanes > 1 else ref
        z = float(depths[p]) if nplanes > 1 else float(np.sum(th))
        want = _expected_shifted(r, tilts, z, samp)
        _compare(ctx, g, want, "vacuum-shift", prec, plane=p, depth=z, builder=case["builder"])
        sx, sy = _shift_px(tilts, z, samp)
        worst = max(worst, float(np.abs(sx).max()), float(np.abs(sy).max()))
        if case["builder"] == "plane":
            ctx.close(np.abs(g), np.ones(g.shape), "planewave-unit-modulus", rtol=0, atol=MOD_TOL[prec], plane=p)
    ctx.nontrivial(worst >= 0.05)


def check_forms(ctx, case):
    import abtem
    import abtem.multislice as ms
    atoms = G.atoms_from(case["cell"])
    gpts, prec = tuple(case["gpts"]), case["precision"]
    xs = case["x"]
    ys = case["y"] if isinstance(case["y"], list) else [case["y"]]
    pairs = [[x, y] for x in xs for y in ys]
    order = list(range(len(pairs)))
    if case["shuffle"]:
        order = np.random.default_rng(case["seed"]).permutation(len(pairs)).tolist()
    with _cfg(case):
        pot = abtem.Potential(atoms, gpts=gpts, slice_thickness=case["slice_thickness"])
        alg = ms.FourierMultislice(order=case["order"])

        def run(tilt, lazy):
            if case["builder"] == "plane":
                out = abtem.PlaneWave(energy=case["energy"], tilt=tilt).multislice(pot, lazy=lazy, algorithm=alg)
            else:
                p = abtem.Probe(energy=case["energy"], semiangle_cutoff=case["cutoff"], tilt=tilt)
                pos = np.array(case["pos"]) * np.array(pot.extent)
                out = p.multislice(pot, scan=abtem.CustomScan(pos[None]), lazy=lazy, algorithm=alg)
            return out if keep_lazy else L.member_arrays(out).astype(np.complex128)
        from abtem import distributions as D
        keep_lazy = False
        t_axes = (D.from_values(xs), D.from_values(case["y"]) if isinstance(case["y"], list) else case["y"])
        t_pairs = np.array([pairs[i] for i in order], dtype=float)
        if case["lazy"] and case.get("joint"):
            import dask
            keep_lazy = True
            ax, pr = dask.compute(run(t_axes, True).array, run(t_pairs, True).array)     # one dask computation for both forms
            ax, pr = np.asarray(ax).astype(np.complex128), np.asarray(pr).astype(np.complex128)
            keep_lazy = False
            ctx.monitor("joint-computes")
        else:
            ax, pr = run(t_axes, case["lazy"]), run(t_pairs, case["lazy"])
        ax = ax.reshape((len(pairs),) + gpts)
        pr = pr.reshape((len(pairs),) + gpts)
        pr_sorted = np.empty_like(pr)
        for k, i in enumerate(order):
            pr_sorted[i] = pr[k]
        _compare(ctx, pr_sorted, ax, "axes-equal-pairs", prec, n_pairs=len(pairs))
        k = int(np.random.default_rng(case["seed"] + 1).integers(0, len(pairs)))
        one = run(tuple(pairs[k]), False).reshape(gpts)
        _compare(ctx, ax[k], one, "base-equal-pairs", prec, pair=pairs[k])
        # the tilt must matter, otherwise agreement is vacuous
        zero = run((0.0, 0.0), False).reshape(gpts)
        dist = float(np.abs(ax - zero).max()) / max(float(np.abs(zero).max()), 1e-300)
    ctx.nontrivial(dist > 100 * TOL[prec] and len(pairs) >= 2)
    if dist <= 100 * TOL[prec]:
        ctx.note("forms-tilt-without-effect")


def check(ctx, case):
    k = case["kind"]
    if k == "propagate":
        check_propagate(ctx, case)
    elif k == "roll":
        check_propagate(ctx, case, roll=True)
    elif k == "vacuum":
        check_vacuum(ctx, case)
    else:
        check_forms(ctx, case)
