"""C10 Potential building and slice windows are consistent.

Differential / decomposition oracles on real objects (nothing re-implemented):

  * eager-vs-lazy     build(lazy=False) == build(lazy=True).compute(): shape, dtype, values, slice thicknesses, ensemble
                      axes, for Potential (single atoms, FrozenPhonons, explicit AtomsEnsemble; infinite and finite
                      projection) and CrystalPotential (unit = Potential / PotentialArray / frozen-phonon potential or array;
                      seeds none / tuple / num_frozen_phonons);
  * member            every ensemble member k of either build == the potential built from configuration k alone
                      (Potential(list(frozen_phonons)[k]) / Potential(atoms_k)); for a CrystalPotential ensemble every block of
                      unit-cell slices of every member must be the lateral tiling of one configuration of the unit potential
                      (an oracle that does not know the random draws);
  * window            for every 0 <= a < b <= n (exhaustive per case) list(generate_slices(a, b)) == list(generate_slices())[a:b]
                      (arrays, slice thickness, exit-plane flag), also generate_slices(a) == full[a:]; the exit-plane flags of
                      the full sequence are the declared exit_planes; for Potential, PotentialArray (numpy or dask backed,
                      with / without ensemble axis) and CrystalPotential;
  * window-build      build(a, b) eager == build(a, b) lazy == the slices [a:b] of the full build, for every member,
                      including the slice thicknesses of the result.

An exception raised by one of the calls is recorded under the clause it belongs to (that is how two of the three
defects of the pinned tree show up).
"""
import numpy as np

from vf import gen as G
from vf import lib_potopts as P

PROPERTY = "C10"
TECHNIQUE = ("runtime monitoring; differential oracle (eager vs lazy), per-member decomposition oracle and list-slicing "
             "oracle for slice windows on real Potential / PotentialArray / CrystalPotential objects")
RULE = ("cells 3-5 A with 1-4 atoms, grids 6-14, 1-8 slices (scalar or sequence thickness), exit_planes none/int/tuple, "
        "Potential with single atoms / FrozenPhonons (1-4 configurations) / AtomsEnsemble (2-4), infinite or finite "
        "projection; PotentialArray numpy- or dask-backed with or without ensemble axis; CrystalPotential with repetitions "
        "(1-2, 1-2, 1-3) over a Potential, PotentialArray or frozen-phonon unit, seeds none / tuple of 1-3 / "
        "num_frozen_phonons; about half of the cases with non-default constructor arguments (parametrization objects with "
        "sigmas, custom Quadrature / ScatteringFactor / Gaussian integrators); all windows 0 <= a < b <= n per case, up to 8 windowed builds in both modes; non-trivial = at "
        "least 2 slices and (at least 2 ensemble members or at least 3 slices); distinct = distinct case signature")
CLAUSES = ["eager-vs-lazy", "member-eager", "member-lazy", "crystal-member-structure", "window-slices", "window-open-end",
           "exit-plane-flags", "window-build-eager", "window-build-lazy", "window-build-eager-vs-lazy"]
QUICK = dict(n=46, time=45)
THOROUGH = dict(n=7700, time=480, shards=16)


def setup(ctx):
    # imports and numba compilation outside the per-case watchdog
    import abtem
    from ase import Atoms
    one = Atoms("C", positions=[[1.0, 1.0, 1.0]], cell=[3.0, 3.0, 2.0], pbc=True)
    for precision in ("float32", "float64"):
        with G.precision(precision):
            abtem.Potential(one, gpts=(8, 8), slice_thickness=1.0, projection="finite").build(lazy=False)
            abtem.Potential(one, gpts=(8, 8), slice_thickness=1.0).build(lazy=True).compute(progress_bar=False)


# --------------------------------------------------------------------------- generation
def _cell(rng):
    n = int(rng.integers(1, 5))
    cell = [float(rng.uniform(3.0, 5.0)), float(rng.uniform(3.0, 5.0)), float(rng.uniform(2.0, 5.0))]
    return {"cell": cell, "symbols": [str(rng.choice(["C", "O", "Si", "N", "Al", "Cu"])) for _ in range(n)],
            "positions": (rng.random((n, 3)) * np.array(cell)).tolist()}


def _thickness(rng, height, nmax):
    n = int(rng.integers(1, nmax + 1))
    if rng.random() < 0.3:
        w = rng.uniform(0.6, 1.4, size=n)
        return [float(v) for v in w / w.sum() * height], n
    return (float(height / (n - 0.5)) if n > 1 else float(height * 1.5)), n


def _exit_planes(rng, total):
    r = rng.random()
    if r < 0.35:
        return None
    if r < 0.65:
        return int(rng.integers(1, total + 2))
    k = int(rng.integers(1, min(total, 4) + 1))
    planes = sorted(int(p) for p in rng.choice(total, size=k, replace=False))
    if rng.random() < 0.4:
        planes = [-1] + planes
    return planes


def gen(rng, tier):
    kind = str(rng.choice(["potential", "potential", "potential", "array", "crystal", "crystal"]))
    cell = _cell(rng)
    case = {"kind": kind, "cell": cell, "gpts": G.rand_gpts(rng, 6, 14), "precision": "float64" if rng.random() < 0.8 else "float32",
            "projection": "finite" if (kind != "crystal" and rng.random() < 0.25) else "infinite",
            "atoms_kind": str(rng.choice(["single", "frozen", "frozen", "ensemble"])),
            "num_configs": int(rng.integers(1, 5)), "fp_seed": int(rng.integers(0, 10000)), "sigma": float(rng.uniform(0.05, 0.2)),
            "win_seed": int(rng.integers(0, 2 ** 31))}
    # (periodic=False is left to C08: there frozen-phonon displacements are drawn for the padded, unwrapped structure, so
    # "member k == potential of configuration k alone" is not what that flag promises)
    case["opts"] = P.gen(rng, case["projection"], cell["symbols"], allow=("sigmas", "integrator"), cheap=True)
    if kind == "crystal":
        reps = [int(rng.integers(1, 3)), int(rng.integers(1, 3)), int(rng.integers(1, 4))]
        st, n = _thickness(rng, cell["cell"][2], max(1, 9 // reps[2]))
        case["reps"] = reps
        case["unit"] = str(rng.choice(["potential", "array", "frozen", "frozen-array"]))
        r = rng.random()
        if r < 0.4 and case["unit"] in ("potential", "array"):
            case["seeds"] = None
        elif r < 0.75:
            case["seeds"] = [int(s) for s in rng.integers(0, 10000, size=int(rng.integers(1, 4)))]
        else:
            case["seeds"] = {"num": int(rng.integers(1, 4)), "seed": int(rng.integers(0, 10000))}
        total = n * reps[2]
    else:
        st, n = _thickness(rng, cell["cell"][2], 8)
        total = n
        if kind == "array":
            case["array_lazy"] = bool(rng.random() < 0.4)
            case["array_ensemble"] = bool(rng.random() < 0.5)
    case["slice_thickness"] = st
    case["exit_planes"] = _exit_planes(rng, total)
    return case


def fixed_cases(tier):
    cell = {"cell": [4.0, 5.0, 4.0], "symbols": ["Si", "C", "O"], "positions": [[1, 1, 0.5], [2, 2.5, 1.7], [3, 4, 3.2]]}
    base = {"cell": cell, "gpts": [8, 10], "precision": "float64", "projection": "infinite", "num_configs": 3, "fp_seed": 7,
            "sigma": 0.1, "win_seed": 1, "slice_thickness": 1.0, "exit_planes": 2}
    return [
        dict(base, kind="potential", atoms_kind="frozen"),
        dict(base, kind="potential", atoms_kind="ensemble"),
        dict(base, kind="potential", atoms_kind="single", exit_planes=[-1, 0, 3]),
        dict(base, kind="potential", atoms_kind="frozen", projection="finite", num_configs=2),
        dict(base, kind="array", atoms_kind="frozen", array_lazy=False, array_ensemble=True),
        dict(base, kind="crystal", atoms_kind="single", unit="potential", reps=[1, 1, 2], seeds=None),
        dict(base, kind="crystal", atoms_kind="frozen", unit="frozen", reps=[1, 2, 2], seeds=[3, 4]),
        dict(base, kind="crystal", atoms_kind="frozen", unit="frozen-array", reps=[2, 1, 2], seeds={"num": 2, "seed": 5}),
        # non-default constructor arguments must survive the reconstruction of the potential inside lazy tasks
        dict(base, kind="potential", atoms_kind="frozen", projection="finite", num_configs=2,
             opts={"sigmas": {"Si": 0.3, "C": 0.2, "O": 0.1}}),
        dict(base, kind="potential", atoms_kind="frozen", opts={"sigmas": {"Si": 0.3}, "integrator": {"type": "scattering"}}),
        dict(base, kind="potential", atoms_kind="ensemble", projection="finite",
             opts={"integrator": {"type": "quadrature", "cutoff_tolerance": 1e-3, "taper": 0.7, "integration_step": 0.05,
                                  "quad_order": 4, "inner_cutoff_factor": 3.0}}),
        dict(base, kind="crystal", atoms_kind="frozen", unit="frozen", reps=[1, 2, 2], seeds=[3, 4],
             opts={"sigmas": {"Si": 0.3, "O": 0.2}}),
    ]


# --------------------------------------------------------------------------- construction
def _st_arg(st):
    return st if isinstance(st, float) else tuple(st)


def _ep_arg(ep):
    return ep if (ep is None or isinstance(ep, int)) else tuple(ep)


def _configurations(case):
    """(atoms argument for Potential, list of per-member Atoms or None when there is no ensemble axis)."""
    import abtem
    atoms = G.atoms_from(case["cell"])
    ak = case["atoms_kind"]
    if ak == "single":
        return atoms, None
    if ak == "frozen":
        fp = abtem.FrozenPhonons(atoms, num_configs=case["num_configs"], sigmas=case["sigma"], seed=case["fp_seed"])
        return fp, list(fp)
    rng = np.random.default_rng(case["fp_seed"])
    members = []
    for _ in range(max(2, case["num_configs"])):
        a = atoms.copy()
        a.positions += rng.normal(scale=case["sigma"], size=a.positions.shape)
        members.append(a)
    return abtem.AtomsEnsemble(members), [m.copy() for m in members]


def _potential(case, atoms, exit_planes="case"):
    import abtem
    ep = _ep_arg(case["exit_planes"]) if exit_planes == "case" else exit_planes
    # case["opts"]: non-default constructor arguments (parametrization with sigmas, custom integrators);
    # new parametrization / integrator objects for every potential
    return abtem.Potential(atoms, gpts=tuple(case["gpts"]), slice_thickness=_st_arg(case["slice_thickness"]),
                           exit_planes=ep, **P.kwargs(case.get("opts"), case["projection"], "lobato"))


def _np(x):
    a = x.array if hasattr(x, "array") else x
    if hasattr(a, "compute"):
        a = a.compute()
    return np.asarray(a)


def _call(ctx, clause, fn, **detail):
    """Run fn(); an exception is a violation of `clause` (the promised result was not delivered)."""
    try:
        return True, fn()
    except Exception as e:  # noqa
        ctx.expect(False, clause, raised=repr(e)[:300], **detail)
        return False, None


def _rtol(case):
    if P.single_precision(case.get("opts")):
        return 2e-5
    # both sides run the same arithmetic; only the FFT planning of eager and threaded lazy execution differs
    # (observed <= 1.4e-13 / 2.8e-7 of max|V| over 1600 thorough cases)
    return 1e-11 if case["precision"] == "float64" else 2e-5


# --------------------------------------------------------------------------- window oracle
def _slice_record(slic):
    return _np(slic), tuple(float(t) for t in slic.slice_thickness), tuple(int(p) for p in slic.exit_planes)


def check_windows(ctx, case, obj, label):
    """generate_slices(a, b) against list slicing of the full sequence, exhaustively."""
    ok, full = _call(ctx, "window-slices", lambda: [_slice_record(s) for s in obj.generate_slices()], where=label + ":full")
    if not ok:
        return None
    n = len(obj)
    if not ctx.expect(len(full) == n, "window-slices", where=label, what="full sequence length", got=len(full), want=n):
        return None
    thick = tuple(float(t) for t in obj.slice_thickness)
    planes = set(int(p) for p in obj.exit_planes)
    for i, (arr, t, flag) in enumerate(full):
        ctx.expect(arr.shape == (1,) + tuple(obj.gpts), "window-slices", where=label, what="slice shape", got=list(arr.shape))
        ctx.close(t, (thick[i],), "window-slices", rtol=1e-12, where=label, what="thickness of generated slice", index=i)
        ctx.equal(flag, (0,) if i in planes else (), "exit-plane-flags", where=label, index=i, exit_planes=sorted(planes))
    rtol = _rtol(case)
    for a in range(n):
        ok, tail = _call(ctx, "window-open-end", lambda: [_slice_record(s) for s in obj.generate_slices(a)], where=label, a=a)
        if ok and ctx.expect(len(tail) == n - a, "window-open-end", where=label, a=a, got=len(tail), want=n - a):
            for k, (arr, t, flag) in enumerate(tail):
                ctx.close(arr, full[a + k][0], "window-open-end", rtol=rtol, where=label, a=a, index=a + k)
        for b in range(a + 1, n + 1):
            ctx.monitor("windows-compared")
            ok, win = _call(ctx, "window-slices", lambda: [_slice_record(s) for s in obj.generate_slices(a, b)],
                            where=label, window=[a, b])
            if not ok:
                continue
            if not ctx.expect(len(win) == b - a, "window-slices", where=label, what="number of slices in window",
                              window=[a, b], got=len(win), want=b - a, slices=n):
                continue
            for k, (arr, t, flag) in enumerate(win):
                want = full[a + k]
                ctx.close(arr, want[0], "window-slices", rtol=rtol, where=label, window=[a, b], index=a + k)
                ctx.equal(t, want[1], "window-slices", where=label, window=[a, b], index=a + k, what="thickness")
                ctx.equal(flag, want[2], "exit-plane-flags", where=label, window=[a, b], index=a + k)
    return np.concatenate([f[0] for f in full], axis=0)


# --------------------------------------------------------------------------- build oracles
def check_build_modes(ctx, case, pot, label):
    """eager vs lazy full build; returns (eager array object, numpy array) or (None, None)."""
    ok_e, eager = _call(ctx, "eager-vs-lazy", lambda: pot.build(lazy=False), where=label + ":eager")
    ok_l, lazy = _call(ctx, "eager-vs-lazy", lambda: pot.build(lazy=True).compute(progress_bar=False), where=label + ":lazy")
    if not (ok_e and ok_l):
        return None, None, None
    e, l = _np(eager), _np(lazy)
    want_shape = tuple(pot.ensemble_shape) + (len(pot),) + tuple(pot.gpts)
    ctx.equal(e.shape, want_shape, "eager-vs-lazy", where=label, what="eager shape")
    ctx.equal(l.shape, want_shape, "eager-vs-lazy", where=label, what="lazy shape")
    if e.shape != l.shape:
        return None, None, None
    ctx.expect(e.dtype == l.dtype == (np.float64 if case["precision"] == "float64" else np.float32), "eager-vs-lazy",
               where=label, dtypes=[str(e.dtype), str(l.dtype)])
    ctx.close(e, l, "eager-vs-lazy", rtol=_rtol(case), where=label)
    ctx.equal(tuple(eager.slice_thickness), tuple(lazy.slice_thickness), "eager-vs-lazy", where=label, what="slice thickness")
    ctx.equal(tuple(eager.slice_thickness), tuple(pot.slice_thickness), "eager-vs-lazy", where=label, what="slice thickness")
    ctx.expect(G.approx_struct(G.axes_dicts(eager), G.axes_dicts(lazy)), "eager-vs-lazy", where=label, what="axes metadata")
    return eager, e, l


def check_window_builds(ctx, case, pot, full_e, full_l, label):
    n = len(pot)
    rng = np.random.default_rng(case["win_seed"])
    windows = {(0, n)}
    if n > 1:
        windows |= {(0, 1), (n - 1, n), (1, n), (0, n - 1)}
    while len(windows) < min(8, n * (n + 1) // 2):
        a = int(rng.integers(0, n))
        windows.add((a, int(rng.integers(a + 1, n + 1))))
    ens = len(pot.ensemble_shape)
    sl = (slice(None),) * ens
    thick = tuple(pot.slice_thickness)
    for a, b in sorted(windows):
        ctx.monitor("window-builds")
        ok_e, we = _call(ctx, "window-build-eager", lambda: pot.build(a, b, lazy=False), where=label, window=[a, b])
        ok_l, wl = _call(ctx, "window-build-lazy", lambda: pot.build(a, b, lazy=True).compute(progress_bar=False), where=label,
                         window=[a, b], slices=n)
        if ok_e:
            ctx.close(_np(we), full_e[sl + (slice(a, b),)], "window-build-eager", rtol=_rtol(case), where=label, window=[a, b])
            ctx.equal(tuple(we.slice_thickness), thick[a:b], "window-build-eager", where=label, window=[a, b], what="thickness")
        if ok_l:
            ctx.close(_np(wl), full_l[sl + (slice(a, b),)], "window-build-lazy", rtol=_rtol(case), where=label, window=[a, b])
            ctx.equal(tuple(wl.slice_thickness), thick[a:b], "window-build-lazy", where=label, window=[a, b], what="thickness")
        if ok_e and ok_l:
            ctx.close(_np(we), _np(wl), "window-build-eager-vs-lazy", rtol=_rtol(case), where=label, window=[a, b])


# --------------------------------------------------------------------------- per kind
def check(ctx, case):
    with G.precision(case["precision"]):
        {"potential": check_potential, "array": check_array, "crystal": check_crystal}[case["kind"]](ctx, case)


def check_potential(ctx, case):
    arg, members = _configurations(case)
    pot = _potential(case, arg)
    n = len(pot)
    eager, e, l = check_build_modes(ctx, case, pot, "potential")
    nm = 1 if members is None else len(members)
    if e is not None:
        for k in range(nm):
            ref = _np(_potential(case, G.atoms_from(case["cell"]) if members is None else members[k]).build(lazy=False))
            ctx.monitor("members-checked")
            ctx.close(e if members is None else e[k], ref, "member-eager", rtol=_rtol(case), member=k, members=nm)
            ctx.close(l if members is None else l[k], ref, "member-lazy", rtol=_rtol(case), member=k, members=nm)
        check_window_builds(ctx, case, pot, e, l, "potential")
    seq = check_windows(ctx, case, pot, "potential")
    if seq is not None and members is None and e is not None:
        ctx.close(seq, e, "window-slices", rtol=_rtol(case), what="generated sequence == built array")
    ctx.nontrivial(n >= 2 and (nm >= 2 or n >= 3))


def check_array(ctx, case):
    import abtem
    arg, members = _configurations(case)
    if not case["array_ensemble"]:
        arg, members = (G.atoms_from(case["cell"]) if members is None else members[0]), None
    src = _potential(case, arg, exit_planes=None).build(lazy=case["array_lazy"])
    pa = abtem.PotentialArray(src.array, slice_thickness=src.slice_thickness, sampling=src.sampling,
                              exit_planes=_ep_arg(case["exit_planes"]), ensemble_axes_metadata=src.ensemble_axes_metadata)
    n = len(pa)
    seq = check_windows(ctx, case, pa, "array-dask" if case["array_lazy"] else "array")
    if seq is not None:
        full = _np(src)
        ctx.close(seq, full if members is None else full[0], "window-slices", rtol=_rtol(case),
                  what="generated sequence == stored array (first configuration)")
    ctx.nontrivial(n >= 3)


def check_crystal(ctx, case):
    import abtem
    arg, members = _configurations(case)
    unit_kind = case["unit"]
    if unit_kind in ("potential", "array"):
        arg, members = (G.atoms_from(case["cell"]) if members is None else members[0]), None
    elif members is None:        # a frozen unit needs an ensemble
        fp = abtem.FrozenPhonons(G.atoms_from(case["cell"]), num_configs=max(2, case["num_configs"]), sigmas=case["sigma"],
                                 seed=case["fp_seed"])
        arg, members = fp, list(fp)
    unit = _potential(case, arg, exit_planes=None)
    if unit_kind in ("array", "frozen-array"):
        # the unit configurations come from single-configuration builds, so that this part of the check does not depend on
        # the ensemble build under test
        if members is None:
            unit = unit.build(lazy=False)
        else:
            stack = np.stack([_np(_potential(case, m, exit_planes=None).build(lazy=False)) for m in members])
            unit = abtem.PotentialArray(stack, slice_thickness=unit.slice_thickness, sampling=unit.sampling,
                                        ensemble_axes_metadata=unit.ensemble_axes_metadata)
    seeds = case["seeds"]
    kw = {}
    if isinstance(seeds, dict):
        kw = dict(num_frozen_phonons=seeds["num"], seeds=seeds["seed"])
    elif seeds is not None:
        kw = dict(seeds=tuple(seeds))
    rx, ry, rz = case["reps"]
    crystal = abtem.CrystalPotential(unit, repetitions=(rx, ry, rz), exit_planes=_ep_arg(case["exit_planes"]), **kw)
    n = len(crystal)
    nu = len(unit)
    ctx.equal(n, nu * rz, "window-slices", what="len(CrystalPotential)")
    eager, e, l = check_build_modes(ctx, case, crystal, "crystal")
    nm = int(np.prod(crystal.ensemble_shape)) if crystal.ensemble_shape else 1
    if e is not None:
        # every block of unit slices of every member is the lateral tiling of one unit configuration
        if members is None:
            configs = [_np(_potential(case, arg, exit_planes=None).build(lazy=False))]
        else:
            configs = [_np(_potential(case, m, exit_planes=None).build(lazy=False)) for m in members]
        tiles = [np.tile(c, (1, rx, ry)) for c in configs]
        scale = max(float(np.abs(t).max()) for t in tiles)
        for name, arr in (("eager", e), ("lazy", l)):
            arr = arr.reshape((nm, n) + arr.shape[-2:])
            for k in range(nm):
                for z in range(rz):
                    blk = arr[k, z * nu:(z + 1) * nu]
                    d = min(float(np.abs(blk - t).max()) for t in tiles)
                    ctx.monitor("crystal-blocks")
                    ctx.close(d, 0.0, "crystal-member-structure", rtol=0, atol=max(_rtol(case), 1e-9) * scale, mode=name, member=k,
                              block=z, configs=len(tiles))
        check_window_builds(ctx, case, crystal, e, l, "crystal")
    seq = check_windows(ctx, case, crystal, "crystal")
    if seq is not None and e is not None and not crystal.ensemble_shape:
        ctx.close(seq, e, "window-slices", rtol=_rtol(case), what="generated sequence == built array")
    ctx.nontrivial(n >= 2 and (nm >= 2 or n >= 3))
