"""C09 The independent-atom potential is additive and slicing conserves it.

Clauses and their oracles

  * additivity        V(A u B [u C]) == V(A) + V(B) [+ V(C)] on real builds (infinite and finite projection,
                      random / per-element / duplicate / empty splits), every potential freshly constructed; with a
                      parametrization that carries per-element sigmas the union is built with the whole dict and every part
                      with the entries of its own elements (the potential of a set does not depend on the broadening of
                      elements it does not contain);
  * reslice           infinite projection: sum over slices of the built potential is the same for two different slice
                      thickness specifications and for the single-slice build;
  * membership        independent exact-arithmetic model (fractions.Fraction built from the float inputs): the slice of an
                      atom is k = #{edges E_j = t_1+...+t_j : E_j <= z'} with z' = z mod cell height, k == n wrapping to the
                      periodic image in slice 0.  Compared with (a) the index sets of SliceIndexedAtoms and the atoms returned
                      by get_atoms_in_slices for every slice and for slice windows, both on the object the real Potential
                      pipeline prepares (wrap + z snapping) and on a directly constructed SliceIndexedAtoms; (b) end-to-end
                      with the mean of every built slice, which for infinite projection is sum_{atoms in slice} m_Z with m_Z
                      measured on a one-atom build.  Atoms are identified by ASE tags, so exactly-once is a multiset
                      comparison, not a count.
  * boundary          atoms whose z is a slice boundary (float cumulative sum as numpy, Python or exact rounding compute it,
                      +-1 ulp, optionally displaced by whole cell heights) must be in the upper slice.
  * thickness-sum     sum of the slice thicknesses == cell height (exact rational sum of the floats, <= n ulp), also on the
                      built array; thickness sequences that do not sum to the cell height are refused.

Sandwich: abTEM deliberately treats an atom up to 1e-12 below an edge as "on" it (and z within 1e-10 of the top face as 0).
The statement does not define these float tolerances, so atoms with -1e-9 < z'-E_j < -2e-13 for some edge are generated
never and, if met, not judged (counted in the note `unjudged-atoms`).
"""
import math
from fractions import Fraction

import numpy as np

from vf import gen as G
from vf import lib_potopts as P

PROPERTY = "C09"
TECHNIQUE = ("runtime monitoring; algebraic relations between real builds + exact rational slice-membership model "
             "(fractions.Fraction) against SliceIndexedAtoms / get_atoms_in_slices and against built slice means")
RULE = ("cells 3-8 A wide, height 1.5-14 A, 1-14 atoms of 1-3 elements; slice thickness scalar (1-40 slices, incl. values "
        "larger than the cell, exact divisors, and cell heights 1e-3 ... 1e-12 (relative) above or below a multiple of the "
        "thickness with atoms in the top sliver) or sequences of 1-40 values (random, equal steps like 0.1 that drift in a "
        "cumulative sum); z positions: interior, exactly on computed edges (numpy cumsum / Python sum / exact rounding, +-1 "
        "ulp), 1e-7 below and above edges, 0, -0.0, the cell height, tiny negatives, displaced by whole cell heights; x, y "
        "anywhere incl. 0, the cell length and tiny negative rounding artefacts; in 40 % of the cases 1-3 companion atoms of the same or another element stacked on / "
        "within 0.6 A of / across the lateral boundary from another atom; non-trivial = at least 2 slices and at "
        "least one atom exactly on an interior edge or on a cell face (membership), both subsets non-empty (additivity), "
        "different slice counts (reslice); about half of the additivity / reslice cases use non-default constructor "
        "arguments (parametrization objects with sigmas for all / some / absent elements, custom Quadrature / "
        "ScatteringFactor / Gaussian integrators); distinct = distinct case signature")
CLAUSES = ["additivity-infinite", "additivity-finite", "reslice-projection", "exactly-once", "membership-model",
           "boundary-upper-slice", "slice-window-atoms", "slice-content", "thickness-sum", "bad-thickness-refused"]
QUICK = dict(n=260, time=45)
THOROUGH = dict(n=92070, time=480, shards=16)

ON = Fraction(2, 10 ** 13)        # |z' - E| <= ON  : the atom is on the boundary (float representations of the edge)
CLEAR = Fraction(1, 10 ** 9)      # z' - E <= -CLEAR : the atom is clearly below the boundary

# Finite projection with several elements: the periodic-image margin is the largest cut-off radius of the elements present,
# so a union can contain images of a light atom that lie beyond that atom's own cut-off; their integral table is linearly
# extrapolated instead of being zero (~1e-4 V*A per image, the size of the integrator's cutoff_tolerance).  Observed
# <= 3.7e-6 max|V|; single-element unions agree to 8e-15 and keep the tight tolerance.
TOL_FINITE_MIXED = 1e-4


# --------------------------------------------------------------------------- exact model
def model_edges(thickness):
    """Exact cumulative sums E_1..E_n of the float thicknesses."""
    out, acc = [], Fraction(0)
    for t in thickness:
        acc += Fraction(float(t))
        out.append(acc)
    return out


def model_slice(z, height, edges, wrap):
    """(slice index or None if not judged, on_boundary flag, wrapped z as Fraction)."""
    zf = Fraction(float(z))
    hf = Fraction(float(height))
    if wrap:
        zf = zf - (zf // hf) * hf          # exact z mod H, in [0, H)
    k, on = 0, False
    for e in edges:
        d = zf - e
        if -CLEAR < d < -ON:
            return None, False, zf
        if d >= -ON:
            k += 1
            on = on or d <= ON
    if wrap and hf - zf <= ON:
        k, on = len(edges), True
    if k >= len(edges):
        if not wrap:
            return None, False, zf         # outside the cell: not in the domain of a bare SliceIndexedAtoms
        k = 0                               # periodic image: the top face is the bottom face of the next cell
    on = on or zf <= ON
    return k, on, zf


# --------------------------------------------------------------------------- generation
def _spec(rng):
    """(height, slice_thickness) with slice_thickness a float or a list."""
    r = rng.random()
    if r < 0.4:
        height = float(rng.uniform(1.5, 14.0))
        n = int(rng.integers(1, 41))
        u = float(rng.uniform(0.05, 0.95))
        st = height / (n - u) if n > 1 else float(height * rng.uniform(1.0, 3.0))
        return height, float(st)
    if r < 0.45:
        # scalar steps that divide the height "exactly" in decimal but not in binary
        st = float(rng.choice([0.1, 0.2, 0.3, 0.25, 0.5, 0.7, 1.0]))
        return float(st * int(rng.integers(1, 31))), st
    if r < 0.56:
        # cell heights at / just above / just below a multiple of the scalar thickness (relaxed or strained cells):
        # relative offsets 1e-3 ... 1e-12 of both signs, also for a thickness of about the whole cell
        st = float(rng.choice([0.5, 1.0, 2.0, float(rng.uniform(0.3, 2.5))]))
        n = int(rng.choice([1, 1, 2, 3, 5, 6, 10, 12, 20, int(rng.integers(1, 31))]))
        delta = float(rng.choice([-1.0, 1.0]) * 10.0 ** (-float(rng.choice([3, 4, 5, 5, 6, 7, 8, 9, 10, 11, 12,
                                                                              float(rng.uniform(3, 12))]))))
        if rng.random() < 0.1:
            delta = 0.0
        return float(n * st * (1.0 + delta)), st
    n = int(rng.integers(1, 41))
    if r < 0.65:
        step = float(rng.choice([0.1, 0.2, 0.3, 0.7, 1.1]))
        seq = [step] * n
    else:
        seq = [float(v) for v in rng.uniform(0.2, 1.5, size=n)]
    how = rng.random()
    if how < 0.4:
        height = float(np.sum(seq))
    elif how < 0.7:
        height = float(math.fsum(seq))
    else:
        height = float(sum(seq))
    return height, seq


def _float_edges(height, st):
    """Edges the way a user (not abTEM) would compute them, several float flavours."""
    if isinstance(st, float):
        n = int(np.ceil(height / st))
        t = [height / n] * n
    else:
        t = list(st)
    n = len(t)
    ex = model_edges(t)
    flavours = [np.cumsum(np.array(t)).tolist(), [float(e) for e in ex], [float(sum(t[:j + 1])) for j in range(n)]]
    if len(set(t)) == 1:
        flavours.append([float((j + 1) * t[0]) for j in range(n)])
    return flavours


def _z_values(rng, height, st, natoms, wrap):
    fl = _float_edges(height, st)
    n = len(fl[0])
    allf = np.array(sorted(set(v for f in fl for v in f) | {0.0, height}))
    out = []
    for _ in range(natoms):
        r = rng.random()
        if r < 0.3 and n > 1:
            z = float(fl[int(rng.integers(0, len(fl)))][int(rng.integers(0, n - 1))])      # interior edge
            r2 = rng.random()
            if r2 < 0.2:
                z = float(np.nextafter(z, np.inf))
            elif r2 < 0.4:
                z = float(np.nextafter(z, -np.inf))
            elif r2 < 0.5:
                z = z - 1e-7
            elif r2 < 0.6:
                z = z + 1e-7
        elif r < 0.45:
            cands = [0.0, -0.0, 1e-7]
            if wrap:
                cands += [height, -1e-17, -1e-14, -1e-7, float(np.nextafter(height, 0.0)), float(fl[0][-1])]
            # the top sliver: just below the upper face, and between the last whole multiple of a scalar thickness and
            # the upper face when the height is slightly more than that multiple
            cands += [height - 10.0 ** (-k) for k in (4, 5, 6, 7, 8)]
            if isinstance(st, float):
                top = round(height / st) * st
                if height - top > 4e-9:
                    cands += [top + u * (height - top) for u in (0.1, 0.5, 0.9)] * 2
            z = float(rng.choice(cands))
            if z >= height - 1e-9 and not wrap:
                z = height - 1e-6
        else:
            z = float(rng.uniform(0, height))
            while np.abs(allf - z).min() < 1e-6:
                z = float(rng.uniform(0, height))
        if wrap and rng.random() < 0.2:
            z = z + float(rng.choice([-1.0, 1.0, 2.0])) * height
        out.append(float(z))
    return out


def _xy(rng, cell):
    out = []
    for d in range(2):
        r = rng.random()
        if r < 0.1:
            v = float(rng.choice([0.0, -0.0, cell[d], -1e-17, -6e-17, -1e-13, float(np.nextafter(cell[d], 0.0))]))
        elif r < 0.2:
            v = float(rng.uniform(-1.0, 2.0) * cell[d])
        else:
            v = float(rng.uniform(0, cell[d]))
        out.append(v)
    return out


def _cell(rng, height, st, natoms, wrap=True, elements=None):
    cell = [float(rng.uniform(3.0, 8.0)), float(rng.uniform(3.0, 8.0)), height]
    els = [str(e) for e in rng.choice(elements or G.ELEMENTS, size=int(rng.integers(1, 4)), replace=False)]
    zs = _z_values(rng, height, st, natoms, wrap)
    symbols = [str(rng.choice(els)) for _ in range(natoms)]
    positions = [_xy(rng, cell) + [z] for z in zs]
    # coincident / nearly coincident atoms (exactly stacked, a fraction of an Angstrom apart, across the lateral boundary)
    if rng.random() < 0.4:
        for _ in range(int(rng.integers(1, 4))):
            j = int(rng.integers(0, len(positions)))
            q = list(positions[j])
            mode = rng.random()
            if mode < 0.25:
                pass
            elif mode < 0.8:
                q[0] += float(rng.uniform(-0.6, 0.6))
                q[1] += float(rng.uniform(-0.6, 0.6))
            else:
                d = int(rng.integers(0, 2))
                positions[j][d] = float(rng.uniform(0.0, 0.2))
                q[d] = float(cell[d] - rng.uniform(0.0, 0.3)) if wrap else float(positions[j][d] + 0.1)
            positions.append([float(v) for v in q])
            symbols.append(symbols[j] if rng.random() < 0.7 else str(rng.choice(els)))
    return {"cell": cell, "symbols": symbols, "positions": positions}


def gen(rng, tier):
    r = rng.random()
    if r < 0.05:
        height = float(rng.uniform(2.0, 10.0))
        n = int(rng.integers(1, 8))
        w = rng.uniform(0.5, 1.5, size=n)
        factor = float(rng.choice([0.5, 0.9, 0.99, 1.01, 1.1, 2.0]))
        return {"kind": "refuse", "height": height, "slice_thickness": [float(v) for v in w / w.sum() * height * factor],
                "projection": str(rng.choice(["infinite", "finite"]))}
    if r < 0.3:
        proj = str(rng.choice(["infinite", "finite"]))
        height, st = _spec(rng)
        if proj == "finite":
            height = min(height, 6.0)
            st = float(rng.uniform(0.5, 2.0)) if rng.random() < 0.6 else [float(v) for v in
                                                                            np.full(3, height / 3) + [0.1, -0.1, 0.0]]
        cell = _cell(rng, height, st, int(rng.integers(1, 9 if proj == "infinite" else 5)),
                     elements=None if proj == "infinite" else ["C", "O", "N", "Si", "Al", "S", "Cu"])
        n = len(cell["symbols"])
        mode = str(rng.choice(["random", "random", "element", "duplicate", "empty"]))
        parts = 3 if (mode == "random" and rng.random() < 0.3) else 2
        return {"kind": "add", "cell": cell, "gpts": G.rand_gpts(rng, 8, 24), "projection": proj, "slice_thickness": st,
                "opts": P.gen(rng, proj, cell["symbols"], allow=("sigmas", "integrator")),
                "parametrization": str(rng.choice(["lobato", "kirkland", "peng"])), "mode": mode,
                "labels": [int(v) for v in rng.integers(0, parts, size=n)],
                "precision": "float64" if rng.random() < 0.8 else "float32"}
    if r < 0.45:
        height, st = _spec(rng)
        _, st2 = _spec(rng)
        if not isinstance(st2, float):
            w = np.array(st2)
            st2 = [float(v) for v in w / w.sum() * height]
        cell = _cell(rng, height, st, int(rng.integers(1, 10)))
        return {"kind": "reslice", "cell": cell, "gpts": G.rand_gpts(rng, 8, 24), "slice_thickness": st, "slice_thickness_2": st2,
                "opts": P.gen(rng, "infinite", cell["symbols"], allow=("sigmas", "integrator")),
                "parametrization": str(rng.choice(["lobato", "kirkland", "peng"]))}
    height, st = _spec(rng)
    direct = bool(rng.random() < 0.3)
    cell = _cell(rng, height, st, int(rng.integers(1, 15)), wrap=not direct)
    if direct:
        for p in cell["positions"]:
            p[0] = abs(p[0]) % cell["cell"][0]
            p[1] = abs(p[1]) % cell["cell"][1]
    w0 = int(rng.integers(0, 40))
    return {"kind": "member", "direct": direct, "cell": cell, "gpts": G.rand_gpts(rng, 8, 16), "slice_thickness": st,
            "window": [w0, w0 + int(rng.integers(1, 6))],
            "opts": {} if direct else P.gen(rng, "infinite", cell["symbols"], allow=("sigmas", "integrator"), p_default=0.6)}


def fixed_cases(tier):
    out = []
    # 30 slices of 0.1: the float cumulative sum drifts; every atom sits on a boundary
    cell = {"cell": [4.0, 5.0, 3.0], "symbols": ["Si"] * 6 + ["O"] * 4,
            "positions": [[1.0 + 0.2 * k, 2.0, z] for k, z in enumerate([0.0, 0.1, 0.2, 0.30000000000000004, 0.3, 0.7,
                                                                          1.5, 2.9000000000000004, 3.0, -0.1])]}
    for st in (0.1, [0.1] * 30):
        for direct in (False, True):
            c = {"cell": list(cell["cell"]), "symbols": list(cell["symbols"]), "positions": [list(p) for p in cell["positions"]]}
            if direct:
                c["symbols"] = c["symbols"][:8]
                c["positions"] = c["positions"][:8]
            out.append({"kind": "member", "direct": direct, "cell": c, "gpts": [8, 10], "slice_thickness": st, "window": [2, 9]})
    # rounding artefacts on the lateral cell faces (tiny negative x or y)
    out.append({"kind": "member", "direct": False, "gpts": [9, 8], "slice_thickness": 1.0, "window": [0, 2],
                "cell": {"cell": [4.0, 5.0, 3.0], "symbols": ["Si", "C", "O"],
                         "positions": [[-1e-17, 2.0, 1.5], [2.0, -5e-17, 0.5], [1.0, 1.0, 2.5]]}})
    out.append({"kind": "add", "gpts": [9, 8], "slice_thickness": 1.0, "projection": "infinite", "parametrization": "lobato",
                "mode": "random", "labels": [0, 1, 1], "precision": "float64",
                "cell": {"cell": [4.0, 5.0, 3.0], "symbols": ["Si", "C", "O"],
                         "positions": [[3.0, 2.0, 1.0], [2.0, 4.9, 1.0], [1.0, 1.0, 2.0]]}})
    out.append({"kind": "refuse", "height": 3.0, "slice_thickness": [1.0, 1.0, 1.5], "projection": "infinite"})
    # cell heights just above / below a multiple of a scalar thickness, with atoms in the top sliver
    for height, st, zs in ((10.00004, 1.0, [10.00003, 9.5, 0.2, 10.000039]), (9.99996, 1.0, [9.99995, 9.5, 0.2, 9.0]),
                           (6.00002, 0.5, [6.000015, 6.00001, 3.0]), (6.00002, 2.0, [6.000015, 5.0, 1.0]),
                           (4.0000000004, 1.0, [3.9999, 1.0]), (0.99999, 1.0, [0.999985, 0.5]), (2.00002, 2.0, [2.000015, 1.0]),
                           (3.000000003, 3.0, [2.9999, 0.1])):
        c = {"cell": [4.0, 5.0, height], "symbols": ["Si", "C", "O", "Si"][:len(zs)],
             "positions": [[1.0 + 0.7 * k, 2.0, z] for k, z in enumerate(zs)]}
        out.append({"kind": "member", "direct": False, "cell": c, "gpts": [8, 10], "slice_thickness": st, "window": [0, 3]})
        out.append({"kind": "reslice", "cell": c, "gpts": [8, 10], "slice_thickness": st, "slice_thickness_2": height / 3.5,
                    "parametrization": "lobato"})
    # coincident and nearly coincident atoms of one element / two elements in one slice
    close = {"cell": [4.0, 5.0, 3.0], "symbols": ["Si", "Si", "C", "C", "Au", "Au", "O", "Si", "O", "O"],
             "positions": [[1.1, 1.2, 0.5], [1.3, 1.45, 0.5], [2.6, 3.1, 0.6], [3.1, 3.4, 0.6], [2.0, 2.0, 1.5], [2.0, 2.0, 1.5],
                           [0.1, 4.2, 2.5], [3.8, 4.3, 2.5], [3.9, 4.9, 2.4], [0.15, 0.1, 2.4]]}
    for proj in ("infinite", "finite"):
        out.append({"kind": "add", "gpts": [8, 10], "slice_thickness": 1.0, "projection": proj, "parametrization": "lobato",
                    "mode": "random", "labels": [0, 1, 0, 1, 0, 1, 0, 0, 1, 0], "precision": "float64", "cell": close})
    out.append({"kind": "member", "direct": False, "cell": close, "gpts": [8, 10], "slice_thickness": 1.0, "window": [0, 2]})
    # non-default constructor arguments: sigmas for all / some elements, custom integrators
    mixed = {"cell": [4.0, 5.0, 3.0], "symbols": ["Si", "C", "O", "Si"],
             "positions": [[3.9, 2.0, 1.0], [2.0, 4.9, 1.0], [1.0, 1.0, 2.0], [0.1, 0.1, 2.5]]}
    quad = {"type": "quadrature", "cutoff_tolerance": 1e-3, "taper": 0.7, "integration_step": 0.05, "quad_order": 4,
            "inner_cutoff_factor": 3.0}
    for proj, opts, mode in (("finite", {"sigmas": {"Si": 0.3, "C": 0.2, "O": 0.1}}, "element"),
                             ("finite", {"sigmas": {"Si": 0.3}}, "element"),
                             ("infinite", {"sigmas": {"Si": 0.3}}, "element"),
                             ("finite", {"sigmas": {"C": 0.25}, "integrator": quad}, "random"),
                             ("infinite", {"sigmas": {"O": 0.2, "H": 0.1}, "integrator": {"type": "scattering"}}, "random"),
                             ("finite", {"integrator": {"type": "gaussian"}}, "random")):
        out.append({"kind": "add", "gpts": [12, 15], "slice_thickness": 1.0, "projection": proj, "parametrization": "lobato",
                    "mode": mode, "labels": [0, 1, 1, 0], "precision": "float64", "cell": mixed, "opts": opts})
    out.append({"kind": "reslice", "cell": mixed, "gpts": [12, 15], "slice_thickness": 0.4, "slice_thickness_2": [1.3, 1.7],
                "parametrization": "kirkland", "opts": {"sigmas": {"Si": 0.3, "O": 0.1}, "integrator": {"type": "scattering"}}})
    out.append({"kind": "member", "direct": False, "cell": mixed, "gpts": [9, 8], "slice_thickness": 0.5, "window": [1, 4],
                "opts": {"sigmas": {"Si": 0.3}}})
    return out


def setup(ctx):
    # imports and the numba compilation of the finite-projection kernel happen here, outside the per-case watchdog
    # (an alarm that interrupts a module import leaves half-initialised modules behind)
    import abtem
    from ase import Atoms
    one = Atoms("C", positions=[[1.0, 1.0, 1.0]], cell=[3.0, 3.0, 2.0], pbc=True)
    for precision in ("float32", "float64"):
        with G.precision(precision):
            abtem.Potential(one, gpts=(8, 8), slice_thickness=1.0, projection="finite").build(lazy=False)
            abtem.Potential(one, gpts=(8, 8), slice_thickness=1.0).build(lazy=True).compute(progress_bar=False)


# --------------------------------------------------------------------------- checks
def _st_arg(st):
    return st if isinstance(st, float) else tuple(st)


def _tagged(desc):
    atoms = G.atoms_from(desc)
    atoms.set_tags(np.arange(len(atoms)))
    return atoms


def _build(atoms, case, st, proj=None, gpts=None, sigmas="opts"):
    """New Potential with new parametrization / integrator objects (case["opts"]: non-default constructor arguments)."""
    import abtem
    kw = P.kwargs(case.get("opts"), proj or case.get("projection", "infinite"), case.get("parametrization", "lobato"),
                  sigmas=sigmas)
    pot = abtem.Potential(atoms, gpts=tuple(gpts or case["gpts"]), slice_thickness=_st_arg(st), **kw)
    return pot, pot.build(lazy=False)


def _own_sigmas(case, atoms):
    """The sigmas of the elements present in `atoms`: the potential of an atom set does not depend on the broadening of
    elements it does not contain, so a part of a union is built with the entries of its own elements only."""
    sig = (case.get("opts") or {}).get("sigmas")
    if not sig:
        return "opts"
    present = set(atoms.get_chemical_symbols())
    return {e: v for e, v in sig.items() if e in present}


def check(ctx, case):
    with G.precision(case.get("precision", "float64")):
        {"add": check_add, "reslice": check_reslice, "member": check_member, "refuse": check_refuse}[case["kind"]](ctx, case)


def check_refuse(ctx, case):
    import abtem
    from ase import Atoms
    atoms = Atoms("C", positions=[[1.0, 1.0, 0.5 * case["height"]]], cell=[4.0, 4.0, case["height"]], pbc=True)
    st = tuple(case["slice_thickness"])
    rel = abs(sum(st) - case["height"]) / case["height"]
    try:
        pot = abtem.Potential(atoms, gpts=(8, 8), slice_thickness=st, projection=case["projection"])
    except (RuntimeError, ValueError) as e:
        ctx.note("refused-" + type(e).__name__)
        ctx.expect(True, "bad-thickness-refused")
    else:
        # accepted although the sum is wrong: then the promise "thicknesses sum to the cell height" is broken
        ctx.expect(False, "bad-thickness-refused", thickness_sum=float(sum(pot.slice_thickness)), height=case["height"], rel=rel)
    ctx.nontrivial(rel > 5e-3)


def _wrapped_atom_on_edge(atoms, thicknesses, band=1e-9):
    from fractions import Fraction
    height = Fraction(float(atoms.cell[2, 2]))
    edges = [Fraction(0)]
    for t in thicknesses:
        edges.append(edges[-1] + Fraction(float(t)))
    for z in atoms.positions[:, 2]:
        zf = Fraction(float(z)) % height
        inside = 0.0 <= z < float(height)
        for e in edges:
            if abs(zf - e) < Fraction(band) and not (inside and zf == e and float(e) == float(z) and float(z).is_integer()):
                # within rounding distance of a slice boundary: ase's wrap (solve + matmul in floating point, rounding
                # depends on how many atoms are wrapped together) can move the atom by an ulp across the boundary
                return True
    return False


def check_add(ctx, case):
    atoms = G.atoms_from(case["cell"])
    n = len(atoms)
    labels = np.array(case["labels"])
    mode = case["mode"]
    if mode == "element":
        syms = sorted(set(case["cell"]["symbols"]))
        labels = np.array([syms.index(s) for s in case["cell"]["symbols"]])
    elif mode == "empty":
        labels = np.zeros(n, dtype=int)
    st = case["slice_thickness"]
    _, whole = _build(atoms, case, st)
    if mode == "duplicate":
        # the union of a set with itself (multiset): twice the potential
        _, double = _build(atoms + atoms, case, st)
        parts = [whole, whole]
        whole = double
        sizes = [n, n]
    else:
        parts, sizes = [], []
        groups = sorted(set(labels.tolist())) + ([max(labels) + 1] if mode == "empty" else [])
        for g in groups:
            idx = np.where(labels == g)[0]
            sub = atoms[idx] if len(idx) else atoms[[]]
            sizes.append(len(idx))
            parts.append(_build(sub, case, st, sigmas=_own_sigmas(case, sub))[1])
    if case["projection"] == "finite" and _wrapped_atom_on_edge(atoms, tuple(whole.slice_thickness)):
        # An atom whose (periodic image's) height lies within rounding distance of a slice boundary: the wrap is done
        # in floating point (ase: fractional coordinates through a linear solve whose rounding depends on how many atoms
        # are wrapped together), so the image lands 1e-15 above or below the boundary and the finite-projection
        # integrators assign its non-Gaussian core to one slice or the other.  Which slice is right is undecidable at
        # that precision and the statement does not fix it; union and parts can legitimately disagree.  Not judged.
        ctx.note("unjudged-finite-additivity-atom-within-rounding-of-slice-boundary")
        ctx.nontrivial(False)
        return
    w = np.asarray(whole.array, dtype=np.float64)
    s = np.zeros_like(w)
    for p in parts:
        ctx.equal(tuple(p.slice_thickness), tuple(whole.slice_thickness), "additivity-" + case["projection"])
        s += np.asarray(p.array, dtype=np.float64)
    opts = case.get("opts") or {}
    rtol = 1e-9 if (case["precision"] == "float64" and not P.single_precision(opts)) else 2e-5
    if case["projection"] == "finite" and len(set(case["cell"]["symbols"])) > 1:
        # the extrapolated tail scales with the integrator's cutoff_tolerance (default 1e-4)
        rtol = TOL_FINITE_MIXED * max(1.0, opts.get("integrator", {}).get("cutoff_tolerance", 1e-4) / 1e-4)
    ctx.monitor("additivity-builds", len(parts) + 1)
    ctx.close(w, s, "additivity-" + case["projection"], rtol=rtol, mode=mode, sizes=sizes)
    ctx.nontrivial(sum(1 for k in sizes if k > 0) >= 2 and float(np.abs(w).max()) > 0)


def check_reslice(ctx, case):
    atoms = G.atoms_from(case["cell"])
    height = case["cell"]["cell"][2]
    projs, counts = [], []
    for st in (case["slice_thickness"], case["slice_thickness_2"], height):
        pot, built = _build(atoms, case, st, proj="infinite")
        counts.append(len(built.slice_thickness))
        p = built.project()
        projs.append(np.asarray(p.array, dtype=np.float64))
        # project() is the sum over the slice axis
        ctx.close(projs[-1], np.asarray(built.array, dtype=np.float64).sum(0), "reslice-projection", rtol=1e-12)
    ctx.monitor("reslice-builds", 3)
    ctx.close(projs[0], projs[2], "reslice-projection", rtol=1e-9, slices=counts)
    ctx.close(projs[1], projs[2], "reslice-projection", rtol=1e-9, slices=counts)
    ctx.nontrivial(len(set(counts)) >= 2 and float(np.abs(projs[2]).max()) > 0)


def _check_sliced(ctx, sliced, tagged_z, height, wrap, case, label):
    """Compare a SliceIndexedAtoms with the exact model.  tagged_z: {tag: original z}."""
    thick = tuple(sliced.slice_thickness)
    n = len(thick)
    edges = model_edges(thick)
    want = {}
    on_boundary = set()
    unjudged = set()
    zmod = {}
    for tag, z in tagged_z.items():
        k, on, zf = model_slice(z, height, edges, wrap)
        zmod[tag] = zf
        if k is None:
            unjudged.add(tag)
            continue
        want[tag] = k
        if on:
            on_boundary.add(tag)
    if unjudged:
        ctx.note("unjudged-atoms", len(unjudged))

    # (1) every atom in exactly one slice: the index sets partition the prepared atoms, and the prepared atoms are
    #     exactly the given atoms (tags as a multiset)
    tags = np.asarray(sliced.atoms.get_tags())
    seen = []
    for k in range(n):
        seen.extend(tags[np.asarray(sliced._slice_index[k], dtype=int)].tolist())
    ctx.monitor("atoms-judged", len(want))
    ctx.equal(sorted(seen), sorted(tagged_z), "exactly-once", where=label + ":index-sets", slices=n)
    got = {}
    returned = []
    for k in range(n):
        sub = sliced.get_atoms_in_slices(k)
        for t, z in zip(sub.get_tags().tolist(), sub.positions[:, 2].tolist()):
            returned.append(t)
            got.setdefault(t, []).append((k, z))
    ctx.equal(sorted(returned), sorted(tagged_z), "exactly-once", where=label + ":get_atoms_in_slices", slices=n)

    # (2) the slice is the one the exact model predicts; boundary atoms are in the upper slice
    wrong, wrong_boundary = [], []
    for tag, k in want.items():
        g = [kk for kk, _ in got.get(tag, [])]
        if not g:
            continue                        # a vanished atom is reported by exactly-once, not as a wrong slice
        if g != [k]:
            (wrong_boundary if tag in on_boundary else wrong).append(
                {"tag": tag, "z": tagged_z[tag], "z_mod": float(zmod[tag]), "model": k, "got": g})
    ctx.expect(not wrong, "membership-model", where=label, wrong=wrong[:5], slices=n)
    if on_boundary:
        ctx.monitor("boundary-atoms", len(on_boundary))
        ctx.expect(not wrong_boundary, "boundary-upper-slice", where=label, wrong=wrong_boundary[:5], slices=n,
                   thickness=list(thick[:4]))
    # (3) z of the returned atoms is relative to the slice entrance
    for tag, k in want.items():
        for kk, z in got.get(tag, []):
            lo = edges[kk - 1] if kk > 0 else Fraction(0)
            zz = zmod[tag] if not (wrap and Fraction(float(height)) - zmod[tag] <= Fraction(1, 10 ** 9)) else Fraction(0)
            ctx.close(z, float(zz - lo), "slice-window-atoms", rtol=0, atol=1e-9, what="relative z")

    # (4) a window [a, b) returns the union of its slices
    a, b = case["window"]
    a = a % n
    b = min(n, a + (b - case["window"][0]))
    if b - a >= 1:
        sub = sliced.get_atoms_in_slices(a, b)
        expect = sorted(t for t in returned if any(a <= kk < b for kk, _ in got[t]))
        ctx.equal(sorted(sub.get_tags().tolist()), expect, "slice-window-atoms", window=[a, b], slices=n)
        ctx.close(sub.cell[2, 2], float(sum(Fraction(t) for t in thick[a:b])), "slice-window-atoms", rtol=1e-12)
    return want, on_boundary, unjudged


def check_member(ctx, case):
    import abtem
    from abtem.slicing import SliceIndexedAtoms
    atoms = _tagged(case["cell"])
    height = case["cell"]["cell"][2]
    st = case["slice_thickness"]
    tagged_z = {int(t): float(z) for t, z in zip(atoms.get_tags(), atoms.positions[:, 2])}

    if case["direct"]:
        sliced = SliceIndexedAtoms(atoms, _st_arg(st))
        thick = tuple(sliced.slice_thickness)
        want, on_b, unj = _check_sliced(ctx, sliced, tagged_z, height, False, case, "direct")
    else:
        pot = abtem.Potential(atoms, gpts=tuple(case["gpts"]), slice_thickness=_st_arg(st),
                              **P.kwargs(case.get("opts"), "infinite", "lobato"))
        sliced = pot.get_sliced_atoms()
        ctx.expect(isinstance(sliced, SliceIndexedAtoms), "membership-model", what="infinite projection uses SliceIndexedAtoms")
        thick = tuple(pot.slice_thickness)
        ctx.equal(tuple(sliced.slice_thickness), thick, "thickness-sum", what="sliced atoms use the potential's thicknesses")
        want, on_b, unj = _check_sliced(ctx, sliced, tagged_z, height, True, case, "pipeline")

    # thickness sum: exact rational sum of the floats against the float cell height
    n = len(thick)
    total = sum(Fraction(t) for t in thick)
    ulp = Fraction(float(np.spacing(height)))
    ctx.expect(all(t > 0 for t in thick), "thickness-sum", what="positive thicknesses", thickness=list(thick[:5]))
    ctx.expect(abs(total - Fraction(height)) <= max(n, 4) * ulp, "thickness-sum", total=float(total), height=height, slices=n,
               err_ulps=float(abs(total - Fraction(height)) / ulp))
    if not isinstance(st, float):
        ctx.equal(list(thick), [float(v) for v in st], "thickness-sum", what="given sequence is used as is")

    if not case["direct"]:
        built = pot.build(lazy=False)
        ctx.equal(tuple(built.slice_thickness), thick, "thickness-sum", what="built array keeps the thicknesses")
        ctx.close(built.thickness, height, "thickness-sum", rtol=1e-12)
        arr = np.asarray(built.array, dtype=np.float64)
        ctx.equal(arr.shape[0], n, "thickness-sum", what="one array slice per thickness")
        if not unj:
            # end-to-end: slice means of the built potential against the model's census
            unit = {}
            for sym in sorted(set(case["cell"]["symbols"])):
                from ase import Atoms
                one = Atoms(sym, positions=[[0.3 * case["cell"]["cell"][0], 0.6 * case["cell"]["cell"][1], 0.5 * height]],
                            cell=case["cell"]["cell"], pbc=True)
                unit[sym] = float(np.asarray(abtem.Potential(one, gpts=tuple(case["gpts"]), slice_thickness=height,
                                                             **P.kwargs(case.get("opts"), "infinite", "lobato")
                                                             ).build(lazy=False).array, dtype=np.float64).mean())
            expect = np.zeros(n)
            for tag, k in want.items():
                expect[k] += unit[case["cell"]["symbols"][tag]]
            ctx.monitor("slice-means-compared", n)
            ctx.close(arr.mean(axis=(1, 2)), expect, "slice-content", rtol=1e-9, slices=n)
    ctx.nontrivial(n >= 2 and len(on_b) >= 1)
