"""C01 Lazy and eager evaluation produce the same simulation results.

Differential monitor over random pipelines (vf/pipelines.py): the eager run is the
sequential specification; every lazy variant (max_batch, induced chunking, dask
scheduler, thread count, schedule stress) must return the same type, shape, dtype,
axes metadata and values, and both modes must succeed or fail together.

Schedule dimension: each lazy graph is computed with the synchronous scheduler and
with the threaded scheduler (2-16 workers) under sys.setswitchinterval(1e-6); in the
thorough tier additionally with sys.monitoring LINE-event yield injection inside abTEM's
shared-state code (propagator / antialias / FFTW-convolution / integrator caches).
A dask Callback records, per compute, the task count, the chunk structure and the
per-thread task start order; the evidence reports distinct chunkings and distinct
interleavings actually observed.
"""
import hashlib
import sys
import threading
import time

import numpy as np

from vf import gen as G
from vf import pipelines as P

PROPERTY = "C01"
TECHNIQUE = ("runtime monitoring; differential eager-vs-lazy oracle over random pipelines with schedule stress (threaded dask, "
             "switch-interval, sys.monitoring yield injection) and a dask task-order recorder")
RULE = ("random pipelines: builder Probe/PlaneWave x potential Atoms/FrozenPhonons/AtomsEnsemble/CrystalPotential/PotentialArray x "
        "exit_planes none/int/tuple x 1-3 detectors (waves, annular, flexible, segmented, pixelated) x scan none/custom/line/grid x CTF "
        "and tilt/defocus distributions; each compared eager vs lazy for 3-6 variants of (max_batch, scheduler, workers, stress); "
        "non-trivial = the pipeline has an ensemble, scan, exit-plane or distribution axis to partition AND at least one lazy variant "
        "was computed from a graph with more than one task-producing block; distinct = distinct pipeline signature")
CLAUSES = ["lazy-vs-eager:values", "lazy-vs-eager:axes", "lazy-vs-eager:type", "lazy-vs-eager:shape", "same-outcome",
           "threaded-vs-synchronous:values", "joint-compute:values"]
QUICK = dict(n=36, time=50)
THOROUGH = dict(n=2390, time=480, shards=16)

_seen_chunkings = set()
_seen_orders = set()


class TaskRecorder:
    """dask callback recording which thread started which task, in start order."""

    def __init__(self):
        from dask.callbacks import Callback
        rec = self
        self.events = []
        self.lock = threading.Lock()

        class _CB(Callback):
            def _posttask(self, key, result, dsk, state, worker_id):
                # worker_id identifies the thread that ran the task; completion order is recorded
                with rec.lock:
                    rec.events.append((worker_id, key[0] if isinstance(key, tuple) else key))

        self.cb = _CB()

    def __enter__(self):
        self.cb.__enter__()
        return self

    def __exit__(self, *a):
        return self.cb.__exit__(*a)

    def signature(self):
        ids = {}
        seq = []
        for tid, key in self.events:
            seq.append(ids.setdefault(tid, len(ids)))
        return len(self.events), len(ids), hashlib.sha1(bytes(b % 256 for b in seq)).hexdigest()[:12]


class YieldInjector:
    """sys.monitoring LINE events on selected abTEM code objects: sleep(0) with seeded probability."""

    TOOL = 4

    def __init__(self, seed, p=0.2):
        self.rng = np.random.default_rng(seed)
        self.p = p
        self.lock = threading.Lock()
        self.fired = 0
        self.codes = []

    def targets(self):
        import abtem.multislice as ms
        import abtem.antialias as aa
        import abtem.core.fft as fft
        import abtem.integrals as integ
        out = []
        for owner, names in ((ms.FresnelPropagator, ["get_array", "propagate", "_calculate_array"]),
                             (aa.AntialiasAperture, ["get_array", "bandlimit", "_calculate_array"]),
                             (fft.CachedFFTWConvolution, ["__call__"]),
                             (integ.ScatteringFactorProjectionIntegrals, ["get_scattering_factor", "_calculate_scattering_factor",
                                                                          "integrate_on_grid"]),
                             (integ.QuadratureProjectionIntegrals, ["get_integral_table", "integrate_on_grid"])):
            for n in names:
                f = owner.__dict__.get(n)
                f = getattr(f, "__func__", f)
                if f is not None and hasattr(f, "__code__"):
                    out.append(f.__code__)
        for n in ("get_fftw_object", "_fft_dispatch", "fft2_convolve"):
            f = getattr(fft, n, None)
            if f is not None and hasattr(f, "__code__"):
                out.append(f.__code__)
        return out

    def __enter__(self):
        mon = sys.monitoring
        try:
            mon.use_tool_id(self.TOOL, "vf-yield")
        except ValueError:
            mon.free_tool_id(self.TOOL)
            mon.use_tool_id(self.TOOL, "vf-yield")

        def on_line(code, line):
            with self.lock:
                hit = self.rng.random() < self.p
                if hit:
                    self.fired += 1
            if hit:
                time.sleep(0)

        mon.register_callback(self.TOOL, mon.events.LINE, on_line)
        self.codes = self.targets()
        for c in self.codes:
            mon.set_local_events(self.TOOL, c, mon.events.LINE)
        return self

    def __exit__(self, *a):
        mon = sys.monitoring
        for c in self.codes:
            mon.set_local_events(self.TOOL, c, 0)
        mon.register_callback(self.TOOL, mon.events.LINE, None)
        mon.free_tool_id(self.TOOL)
        return False


def gen(rng, tier):
    d = P.gen_pipeline(rng, small=(tier == "quick"))
    nv = 3 if tier == "quick" else int(rng.integers(3, 7))
    variants = [{"max_batch": "auto", "scheduler": "synchronous", "workers": 1, "stress": "none"}]
    for _ in range(nv - 1):
        variants.append({
            "max_batch": [1, 2, 3, 7, "auto"][int(rng.integers(0, 5))],
            "scheduler": str(rng.choice(["synchronous", "threads", "threads"])),
            "workers": int(rng.choice([2, 4, 16])),
            "stress": str(rng.choice(["none", "switch"] + (["yield"] if tier == "thorough" else []))),
        })
    d["variants"] = variants
    d["vseed"] = int(rng.integers(0, 2 ** 31))
    if rng.random() < 0.25:
        # a second pipeline of the same kind, evaluated lazily in ONE dask.compute call together with the first:
        # graphs of different objects must not share task keys (seeds, class names, shapes are deliberately equal)
        d["joint"] = {"cell": G.rand_cell_case(rng, max_atoms=4, max_xy=6.5, max_z=5.0, min_xy=3.5, min_z=2.0),
                      "energy": float(rng.choice([60e3, 120e3, 250e3])), "same_cell_size": bool(rng.random() < 0.7)}
    return d


def fixed_cases(tier):
    # regression: lazy annular detector + frozen phonons + several exit planes (was IndexError in dask)
    base = {"builder": "probe", "cell": {"cell": [5.43, 5.43, 5.43], "symbols": ["Si", "Si", "Si", "Si"],
                                         "positions": [[0, 0, 0], [2.7, 2.7, 0], [1.35, 1.35, 1.35], [4.0, 4.0, 4.0]]},
            "gpts": [24, 24], "energy": 100e3, "slice_thickness": 1.0, "projection": "infinite",
            "potential": {"kind": "frozen", "num_configs": 2, "sigma": 0.1, "seed": 1, "ensemble_mean": False},
            "exit_planes": 2, "detectors": [{"type": "annular", "inner": 0.2, "outer": 0.8}],
            "scan": {"kind": "grid", "gpts": [2, 3], "endpoint": False, "start": [0.0, 0.0], "end": [1.0, 1.0]},
            "semiangle": 20.0, "aberrations": {}, "tilt": [0.0, 0.0],
            "variants": [{"max_batch": "auto", "scheduler": "synchronous", "workers": 1, "stress": "none"},
                         {"max_batch": 1, "scheduler": "threads", "workers": 4, "stress": "switch"}], "vseed": 1}
    # plane wave with two ensemble axes on the waves (x and y tilt series), pixelated detection, uneven batches
    pw = {"builder": "plane", "cell": base["cell"], "gpts": [20, 24], "energy": 200e3, "slice_thickness": 1.5,
          "projection": "infinite", "potential": {"kind": "atoms"}, "exit_planes": None,
          "detectors": [{"type": "pixelated", "max_angle": "valid", "frac": 0.5}, {"type": "waves"}],
          "normalize": False, "tilt": [0.0, 0.0],
          "pw_tilt_dist": {"form": "xy", "x": [-4.0, 0.0, 5.0], "y": [-2.0, 3.0]},
          "variants": [{"max_batch": "auto", "scheduler": "synchronous", "workers": 1, "stress": "none"},
                       {"max_batch": 1, "scheduler": "synchronous", "workers": 1, "stress": "none"},
                       {"max_batch": 2, "scheduler": "threads", "workers": 4, "stress": "switch"},
                       {"max_batch": 3, "scheduler": "threads", "workers": 2, "stress": "none"}], "vseed": 2}
    # custom scan cut into unequal blocks
    cs = dict(base)
    cs.update({"potential": {"kind": "atoms"}, "exit_planes": None, "detectors": [{"type": "waves"}, {"type": "flexible", "step": 0.2}],
               "scan": {"kind": "custom", "positions": [[0.1, 0.2], [0.5, 0.5], [0.9, 0.3], [0.3, 0.8], [0.7, 0.7]]},
               "variants": [{"max_batch": "auto", "scheduler": "synchronous", "workers": 1, "stress": "none"},
                            {"max_batch": 2, "scheduler": "synchronous", "workers": 1, "stress": "none"},
                            {"max_batch": 3, "scheduler": "threads", "workers": 4, "stress": "none"}], "vseed": 3})
    # plane wave + CTF with a weighted (gaussian) defocus series cut into uneven batches
    wc = {"builder": "plane", "cell": base["cell"], "gpts": [24, 24], "energy": 200e3, "slice_thickness": 2.0,
          "projection": "infinite", "potential": {"kind": "atoms"}, "exit_planes": None, "detectors": [{"type": "waves"}],
          "normalize": False, "tilt": [0.0, 0.0],
          "ctf": {"defocus": -50.0, "Cs": -2e5, "semiangle": 30.0, "focal_spread": 0.0,
                  "defocus_dist": {"lo": -80.0, "hi": 80.0, "n": 7, "form": "gaussian", "mean": False, "wseed": 1}},
          "variants": [{"max_batch": "auto", "scheduler": "synchronous", "workers": 1, "stress": "none"},
                       {"max_batch": 3, "scheduler": "threads", "workers": 4, "stress": "none"},
                       {"max_batch": 2, "scheduler": "synchronous", "workers": 1, "stress": "none"}], "vseed": 4}
    wc2 = dict(wc)
    wc2["ctf"] = dict(wc["ctf"], defocus_dist={"lo": -80.0, "hi": 80.0, "n": 5, "form": "weighted", "mean": False, "wseed": 2})
    # two frozen-phonon pipelines with EQUAL seeds over different atoms in one dask.compute call
    jt = dict(base)
    jt.update({"exit_planes": None, "detectors": [{"type": "waves"}], "scan": {"kind": "none"},
               "potential": {"kind": "frozen", "num_configs": 2, "sigma": 0.1, "seed": 7, "ensemble_mean": False},
               "joint": {"cell": {"cell": [5.43, 5.43, 5.43], "symbols": ["Au", "C"], "positions": [[1.0, 2.0, 1.0], [3.5, 4.0, 3.0]]},
                         "energy": 100e3, "same_cell_size": True},
               "variants": [{"max_batch": "auto", "scheduler": "synchronous", "workers": 1, "stress": "none"}], "vseed": 5})
    jp = dict(pw)
    jp.update({"joint": {"cell": {"cell": [5.43, 5.43, 5.43], "symbols": ["Au"], "positions": [[1.0, 2.0, 1.0]]},
                         "energy": 200e3, "same_cell_size": True}, "pw_tilt_dist": {"form": "x", "x": [-4.0, 5.0], "y": [0.0, 0.0]}})
    return [base, pw, cs, wc, wc2, jt, jp]


def _graph_stats(obj):
    objs = obj if isinstance(obj, list) else [obj]
    chunks = []
    ntasks = 0
    for o in objs:
        arr = o.array
        if hasattr(arr, "chunks"):
            chunks.append(tuple(tuple(c) for c in arr.chunks))
            ntasks += len(arr.__dask_graph__())
    return tuple(chunks), ntasks


def check(ctx, case):
    import abtem  # noqa
    # ---- eager reference
    eager, eager_err = None, None
    try:
        eager = P.run(case, lazy=False)
    except Exception as e:
        eager_err = e
    multi_block = False
    sync_result = None
    for vi, v in enumerate(case["variants"]):
        lazy_out, lazy_err = None, None
        rec = TaskRecorder()
        old_si = sys.getswitchinterval()
        try:
            obj = P.run(case, lazy=True, max_batch=v["max_batch"])
            chunks, ntasks = _graph_stats(obj)
            kw = {"scheduler": v["scheduler"]}
            if v["scheduler"] == "threads":
                kw["num_workers"] = v["workers"]
            if v["stress"] in ("switch", "yield"):
                sys.setswitchinterval(1e-6)
            with rec:
                if v["stress"] == "yield" and hasattr(sys, "monitoring"):
                    with YieldInjector(case["vseed"] + vi) as inj:
                        lazy_out = P.compute(obj, **kw)
                    ctx.monitor("yield-injections", inj.fired)
                else:
                    lazy_out = P.compute(obj, **kw)
            _seen_chunkings.add(chunks)
            nblocks = max([int(np.prod([len(c) for c in ch])) for ch in chunks] or [1])
            multi_block |= nblocks > 1
            n_ev, n_thr, order = rec.signature()
            ctx.monitor("dask-tasks-started", n_ev)
            if v["scheduler"] == "threads":
                _seen_orders.add((signature_of(case), order))
                ctx.monitor("threaded-computes")
                ctx.monitor("threaded-computes-using->1-thread", int(n_thr > 1))
            else:
                ctx.monitor("synchronous-computes")
        except Exception as e:
            lazy_err = e
        finally:
            sys.setswitchinterval(old_si)

        if eager_err is not None or lazy_err is not None:
            both = eager_err is not None and lazy_err is not None
            ctx.expect(both, "same-outcome", variant=v,
                       eager_error=repr(eager_err)[:300], lazy_error=repr(lazy_err)[:300])
            if both:
                ctx.note("both-modes-raise:" + type(eager_err).__name__)
            continue
        ctx.expect(True, "same-outcome")
        G.compare_objects(ctx, lazy_out, eager, "lazy-vs-eager", rtol=3e-5, atol_rel=3e-6, variant=v)
        if v["scheduler"] == "synchronous" and sync_result is None:
            sync_result = lazy_out
        elif v["scheduler"] == "threads" and sync_result is not None:
            # scheduling must not change anything: same blocks, same float operations
            G.compare_objects(ctx, lazy_out, sync_result, "threaded-vs-synchronous", rtol=3e-5, atol_rel=3e-6,
                              meta=False, variant=v)
    if "joint" in case and eager_err is None:
        _joint(ctx, case, eager)
    ctx.nontrivial(P.is_nontrivial(case) and multi_block and eager_err is None)


def _joint(ctx, case, eager_first):
    """Two lazy pipelines with equal seeds/classes/shapes in one dask.compute call == their separate eager results."""
    import dask
    second = {k: v for k, v in case.items() if k not in ("joint", "variants", "vseed")}
    j = case["joint"]
    cell = dict(j["cell"])
    if j["same_cell_size"]:
        cell["cell"] = list(case["cell"]["cell"])
        cell["positions"] = (np.array(cell["positions"]) % np.array(cell["cell"])).tolist()
    second["cell"] = cell
    second["energy"] = j["energy"]
    try:
        eager_second = P.run(second, lazy=False)
    except Exception:
        ctx.note("joint-partner-refused")
        return
    a = P.run(case, lazy=True)
    b = P.run(second, lazy=True)
    la = a if isinstance(a, list) else [a]
    lb = b if isinstance(b, list) else [b]
    arrays = dask.compute(*[o.array for o in la + lb], scheduler="threads", num_workers=4)
    ctx.monitor("joint-computes")
    ea = eager_first if isinstance(eager_first, list) else [eager_first]
    eb = eager_second if isinstance(eager_second, list) else [eager_second]
    for got, want, which in zip(arrays, ea + eb, ["first"] * len(la) + ["second"] * len(lb)):
        w = G.to_numpy(want)
        scale = max(float(np.abs(w).max()), 1e-30)
        ctx.close(np.asarray(got), w, "joint-compute:values", rtol=3e-5, atol=3e-6 * scale, which=which)


def signature_of(case):
    from vf.harness import signature
    return signature({k: v for k, v in case.items() if k not in ("variants", "vseed")})


def teardown(ctx):
    ctx.monitor("distinct-chunk-structures", len(_seen_chunkings))
    ctx.monitor("distinct-(graph,thread-order)-interleavings", len(_seen_orders))
