"""C33 Unit conversions compose and invert.

Oracle: only the algebra the statement names, evaluated on the factors the real
`abtem.core.units.get_conversion_factor` returns and on the sampling/offset the real
`LinearAxis.convert_units` produces (no table of "true" factors is imposed):

  * inverse     f(a->b) * f(b->a) == 1                  (and axis a->b->a == axis)
  * compose     f(a->b) * f(b->c) == f(a->c)            (and axis a->b->c == axis a->c)
  * identity    f(a->a) == 1                            (special case of both laws)
  * defined     every unit listed in a category converts to every other unit of the category
                (finite, non-zero factor; an exception is a refusal inside the domain)
  * axis-factor `convert_units` scales sampling AND offset by exactly the factor of the quantity
                conversion and stamps the requested units (an axis conversion is one linear map)

All ordered triples of every category are enumerated in `fixed_cases` (6^3 + 6^3 + 3^3 = 459,
which contain all ordered pairs); `gen` adds random samplings/offsets/axis classes.
"""
import itertools
import math

import numpy as np

PROPERTY = "C33"
TECHNIQUE = "runtime monitoring; algebraic oracle (products of returned factors) over the exhaustive set of unit triples per category"
RULE = ("every ordered triple (a,b,c) of units of one category (real space 6, reciprocal space 6, angular 3 units, taken from "
        "abtem.core.units._unit_categories at run time) is a fixed case with deterministic sampling/offset; random cases draw a "
        "triple plus sampling (log-uniform 1e-6..1e6, either sign, 0, whole numbers), offset (0, -0.0, +-log-uniform), field types "
        "float/int/np.float32/np.float64/np.int64 and an axis class "
        "(LinearAxis/RealSpaceAxis/ScanAxis/ReciprocalSpaceAxis); non-trivial = a != b; distinct = distinct case signature")
CLAUSES = ["defined", "identity", "inverse", "compose", "axis-inverse", "axis-compose", "axis-factor"]
QUICK = dict(n=1500, time=40)
THOROUGH = dict(n=320000, time=480, shards=16)
EXHAUSTIVE = True
ASSUMPTIONS = ["the unit categories are read from abtem.core.units._unit_categories (energy is excluded: no conversion between "
               "eV and keV is defined or promised); physical correctness of the individual factors is not part of the property"]

RTOL = 1e-12
RTOL32 = 16 * float(np.finfo(np.float32).eps)      # a float32 field keeps numpy in float32 (NEP 50): <= 2 roundings per conversion
SCALAR_TYPES = ["float", "float", "float", "float", "int", "np.float32", "np.float64", "np.int64"]


def _scalar(v, t):
    if t == "int":
        return int(round(v)) if v == round(v) and abs(v) < 2 ** 53 else float(v)
    if t == "np.int64":
        return np.int64(round(v)) if v == round(v) and abs(v) < 2 ** 53 else float(v)
    if t == "np.float32":
        return np.float32(v)
    if t == "np.float64":
        return np.float64(v)
    return float(v)
CATS = ("real_space", "reciprocal_space", "angular")
AXES = {"real_space": ("LinearAxis", "RealSpaceAxis", "ScanAxis"),
        "reciprocal_space": ("LinearAxis", "ReciprocalSpaceAxis"),
        "angular": ("LinearAxis", "ReciprocalSpaceAxis")}


def _units(cat):
    from abtem.core import units as U
    return tuple(U._unit_categories[cat])


def fixed_cases(tier):
    out = []
    k = 0
    for cat in CATS:
        us = _units(cat)
        for a, b, c in itertools.product(us, repeat=3):
            k += 1
            out.append({"cat": cat, "a": a, "b": b, "c": c, "sampling": [0.05, 1.0, 0.37, 12.5][k % 4],
                        "offset": [0.0, -3.25, 7.0][k % 3], "axis": AXES[cat][k % len(AXES[cat])]})
    # hostile field values on alias / non-base units
    for cat, (a, b, c) in (("real_space", ("nm", "Angstrom", "um")), ("reciprocal_space", ("1/Angstrom", "1/nm", "1/Å")),
                           ("angular", ("deg", "rad", "mrad"))):
        for s, o, ts, to in ((0.0, 0.0, "float", "float"), (2.0, -0.0, "int", "float"), (0.25, 3.0, "np.float32", "int"),
                             (1.0, 0.5, "np.float64", "np.float32"), (3.0, 7.0, "np.int64", "np.int64")):
            out.append({"cat": cat, "a": a, "b": b, "c": c, "sampling": s, "offset": o, "axis": AXES[cat][-1],
                        "sampling_as": ts, "offset_as": to})
    return out


def gen(rng, tier):
    cat = str(rng.choice(CATS, p=[0.4, 0.4, 0.2]))
    us = _units(cat)
    a, b, c = (str(us[int(i)]) for i in rng.integers(0, len(us), size=3))
    s = float(10 ** rng.uniform(-6, 6)) * (1 if rng.random() < 0.85 else -1)
    r = rng.random()
    o = 0.0 if r < 0.25 else float(10 ** rng.uniform(-6, 6)) * (1 if rng.random() < 0.5 else -1)
    # hostile values: zero sampling, negative zero / integer offsets, numpy scalar and python int fields
    r = rng.random()
    if r < 0.05:
        s = 0.0
    elif r < 0.12:
        s = float(int(rng.integers(1, 50)))
    if rng.random() < 0.05:
        o = -0.0
    return {"cat": cat, "a": a, "b": b, "c": c, "sampling": s, "offset": o, "axis": str(rng.choice(AXES[cat])),
            "sampling_as": str(rng.choice(SCALAR_TYPES)), "offset_as": str(rng.choice(SCALAR_TYPES))}


def _factor(ctx, new, old):
    """Returned factor, or None after recording the refusal/invalid value as a violation of `defined`."""
    from abtem.core.units import get_conversion_factor
    ctx.monitor("get_conversion_factor-calls")
    try:
        f = get_conversion_factor(new, old)
    except Exception as e:
        ctx.expect(False, "defined", old=old, new=new, error=repr(e)[:200])
        return None
    ok = isinstance(f, (int, float, np.integer, np.floating)) and math.isfinite(float(f)) and float(f) != 0.0
    ctx.expect(ok, "defined", old=old, new=new, factor=repr(f))
    return float(f) if ok else None


def _convert(ctx, axis, new):
    ctx.monitor("convert_units-calls")
    try:
        return axis.convert_units(new)
    except Exception as e:
        ctx.expect(False, "defined", old=axis.units, new=new, via="convert_units", error=repr(e)[:200])
        return None


def check(ctx, case):
    from abtem.core import axes as A
    a, b, c = case["a"], case["b"], case["c"]
    ctx.nontrivial(a != b)

    f = {}
    for old, new in {(a, b), (b, a), (b, c), (a, c), (a, a), (b, b), (c, c)}:
        f[old, new] = _factor(ctx, new, old)

    for u in {a, b, c}:
        if f[u, u] is not None:
            ctx.close(f[u, u], 1.0, "identity", rtol=RTOL, unit=u)
    # no target units (None) means "leave as is": the factor is 1 whatever the source units are
    from abtem.core.units import get_conversion_factor
    try:
        f_none = get_conversion_factor(None, a)
    except Exception as e:
        f_none = repr(e)
    ctx.expect(isinstance(f_none, (int, float)) and f_none == 1.0, "identity", what="units=None", old=a, got=f_none)
    if f[a, b] is not None and f[b, a] is not None:
        ctx.close(f[a, b] * f[b, a], 1.0, "inverse", rtol=RTOL, a=a, b=b, f_ab=f[a, b], f_ba=f[b, a])
    if None not in (f[a, b], f[b, c], f[a, c]):
        ctx.close(f[a, b] * f[b, c], f[a, c], "compose", rtol=RTOL, a=a, b=b, c=c, f_ab=f[a, b], f_bc=f[b, c],
                  f_ac=f[a, c])

    # the same laws through the axis method
    s, o = case["sampling"], case["offset"]
    s_obj, o_obj = _scalar(s, case.get("sampling_as", "float")), _scalar(o, case.get("offset_as", "float"))
    s, o = float(s_obj), float(o_obj)
    ax = getattr(A, case["axis"])(label="q", sampling=s_obj, offset=o_obj, units=a)
    rt_s = RTOL32 if isinstance(s_obj, np.float32) else RTOL
    rt_o = RTOL32 if isinstance(o_obj, np.float32) else RTOL
    ab = _convert(ctx, ax, b)
    ac = _convert(ctx, ax, c)
    if ab is not None:
        ctx.expect(type(ab) is type(ax) and ab.units == b and ab.label == "q", "axis-factor", what="type/units/label",
                   got_units=ab.units, want_units=b, got_type=type(ab).__name__)
        if f[a, b] is not None:
            ctx.close(ab.sampling, s * f[a, b], "axis-factor", rtol=rt_s, a=a, b=b, field="sampling", sampling=s)
            ctx.close(ab.offset, o * f[a, b], "axis-factor", rtol=rt_o, a=a, b=b, field="offset", offset=o)
        aba = _convert(ctx, ab, a)
        if aba is not None:
            ctx.close(aba.sampling, s, "axis-inverse", rtol=rt_s, a=a, b=b, field="sampling")
            ctx.close(aba.offset, o, "axis-inverse", rtol=rt_o, a=a, b=b, field="offset")
            ctx.expect(aba.units == a, "axis-inverse", what="units", got=aba.units, want=a)
        abc = _convert(ctx, ab, c)
        if abc is not None and ac is not None:
            ctx.close(abc.sampling, ac.sampling, "axis-compose", rtol=rt_s, a=a, b=b, c=c, field="sampling")
            ctx.close(abc.offset, ac.offset, "axis-compose", rtol=rt_o, a=a, b=b, c=c, field="offset")
            ctx.expect(abc.units == ac.units == c, "axis-compose", what="units", got=abc.units, want=c)
            n = 5
            ctx.close(abc.coordinates(n), ac.coordinates(n), "axis-compose", rtol=max(rt_s, rt_o) * 10, what="coordinates")
