"""C22 Cartesian and polar aberration conversions describe the same aberration.

Oracle: chi(alpha, phi) of Kirkland Eq. 2.22 (float64, written here) evaluated for the original polar set and for
`cartesian2polar(polar2cartesian(polar))` on 200 random (alpha, phi) samples per case (plus alpha = 0, phi = +-pi).
Because the harmonics cos(m phi) alpha^(n+1) are linearly independent, equality of chi for every angle is equivalent to
equality of every (n, m) term, so each term is compared separately with a tolerance relative to *its own* magnitude
(a large C30 cannot hide an error in C12), and the total chi is compared as well.

Second observation point (real consumer): `abtem.transfer.Aberrations` built from either coefficient set (float64
precision) must give the same kernel exp(-2 pi i chi / lambda) on the samples.

Reported but not part of the verdict (notes): whether the intermediate Cartesian set reproduces chi through the textbook
Cartesian expansion sum (C_nma cos m phi + C_nmb sin m phi), and whether cartesian -> polar -> cartesian is the identity.
"""
import math

import numpy as np

PROPERTY = "C22"
TECHNIQUE = "runtime monitoring; round-trip metamorphic relation decided by a float64 chi model, per harmonic term and through the real Aberrations kernel"
RULE = ("polar sets over the 12 supported symbols: all 12 or a random subset (missing keys default to 0), magnitudes log-uniform "
        "1e-4..1e9 Angstrom with random sign, exact zeros, angles uniform in [-20, 20] rad or exact multiples of pi/8 (branch cuts "
        "of arctan2), value forms float / int / numpy scalar / numpy array (vectorised use); fixed: each coefficient pair alone "
        "with both signs and angles on the branch cuts; non-trivial = at least one azimuthal term with non-zero magnitude and "
        "non-zero angle; distinct = distinct case signature")
CLAUSES = ["keys-complete", "roundtrip-term-chi", "roundtrip-total-chi", "roundtrip-kernel", "isotropic-preserved",
           "amplitude-preserved"]
QUICK = dict(n=900, time=30)
THOROUGH = dict(n=320000, time=480, shards=16)
ASSUMPTIONS = ["magnitudes restricted to 1e-4..1e9 Angstrom or exactly 0 (no float under/overflow of C**2)",
               "wavelength from the CODATA-2014 closed form (C24)"]

_H, _C, _ME, _E = 6.626070040e-34, 299792458.0, 9.10938356e-31, 1.6021766208e-19

PAIRS = [("C12", "phi12"), ("C21", "phi21"), ("C23", "phi23"), ("C32", "phi32"), ("C34", "phi34")]
ISO = ["C10", "C30"]
KEYS = ["C10", "C12", "phi12", "C21", "phi21", "C23", "phi23", "C30", "C32", "phi32", "C34", "phi34"]


def wl_ref(en):
    return _H * _C / math.sqrt(en * _E * (en * _E + 2 * _ME * _C * _C)) * 1e10


def term_chi(sym, c, ang, alpha, phi):
    n, m = int(sym[1]), int(sym[2])
    return c * alpha ** (n + 1) * np.cos(m * (phi - ang)) / (n + 1)


def term_scale(sym, c, amax):
    n = int(sym[1])
    return abs(c) * amax ** (n + 1) / (n + 1)


# --------------------------------------------------------------------------- generator
def _mag(rng):
    r = rng.random()
    if r < 0.12:
        return 0.0
    v = float(10 ** rng.uniform(-4, 9))
    return v if rng.random() < 0.5 else -v


def _ang(rng):
    r = rng.random()
    if r < 0.25:
        return float(int(rng.integers(-16, 17)) * math.pi / 8)
    if r < 0.3:
        return 0.0
    return float(rng.uniform(-20, 20))


def gen(rng, tier):
    form = str(rng.choice(["float", "float", "float", "int", "npscalar", "array"]))
    k = int(rng.integers(1, 5)) if form == "array" else 1
    keys = list(KEYS)
    if rng.random() < 0.4:
        keys = [s for s in KEYS if rng.random() < 0.6] or ["C12", "phi12"]
    values = {}
    for s in keys:
        draw = _ang if s.startswith("phi") else _mag
        vals = [draw(rng) for _ in range(k)]
        if form == "int":
            vals = [float(int(max(-1e9, min(1e9, round(v))))) if not s.startswith("phi") else float(int(round(v))) for v in vals]
        values[s] = vals if form == "array" else vals[0]
    return {"form": form, "values": values, "pt_seed": int(rng.integers(0, 2 ** 31)),
            "energy": float(rng.choice([60e3, 100e3, 200e3, 300e3])), "amax": float(rng.choice([0.01, 0.03, 0.1, 0.25]))}


def fixed_cases(tier):
    out = []
    k = 0
    for mag, ang in PAIRS:
        for c in (3.5, -3.5, 1e7, 0.0):
            for a in (0.0, 0.4, -0.4, math.pi / 8, math.pi / 4, math.pi / 2, math.pi, -math.pi, 3 * math.pi / 4, 9.0, -13.0):
                k += 1
                out.append({"form": "float", "values": {mag: c, ang: a}, "pt_seed": k, "energy": 100e3, "amax": 0.05})
    for s in ISO:
        for c in (2.0, -2.0, 0.0, 1.3e7):
            k += 1
            out.append({"form": "float", "values": {s: c}, "pt_seed": k, "energy": 100e3, "amax": 0.05})
    out.append({"form": "float", "values": {}, "pt_seed": 1, "energy": 100e3, "amax": 0.05})
    return out


# --------------------------------------------------------------------------- workload
def _materialise(case):
    form = case["form"]
    out = {}
    for s, v in case["values"].items():
        if form == "array":
            out[s] = np.asarray(v, dtype=np.float64)
        elif form == "int":
            out[s] = int(v)
        elif form == "npscalar":
            out[s] = np.float64(v)
        else:
            out[s] = float(v)
    return out


def _member(d, i):
    """Coefficient set number i of a (possibly array-valued) dict, as python floats."""
    out = {}
    for s, v in d.items():
        a = np.asarray(v, dtype=np.float64)
        out[s] = float(a.reshape(-1)[i]) if a.ndim else float(a)
    return out


def setup(ctx):
    # import outside the per-case watchdog: an interrupted import would poison every later case
    import abtem  # noqa: F401
    from abtem import transfer  # noqa: F401


def check(ctx, case):
    import abtem
    from abtem import transfer
    from vf import gen as G

    polar = _materialise(case)
    snapshot = {s: np.array(v, copy=True) for s, v in polar.items()}
    cart = transfer.polar2cartesian(polar)
    back = transfer.cartesian2polar(cart)
    ctx.monitor("conversions")
    ctx.expect(all(np.array_equal(snapshot[s], np.asarray(polar[s])) for s in snapshot) and set(polar) == set(snapshot),
               "keys-complete", what="input dictionary modified")
    if not ctx.expect(set(back) >= set(KEYS), "keys-complete", got=sorted(back)):
        return
    finite = all(np.all(np.isfinite(np.asarray(back[s], dtype=float))) for s in KEYS)
    if not ctx.expect(finite, "keys-complete", what="non-finite output", back={s: back[s] for s in KEYS}):
        return

    k = 1
    for v in polar.values():
        if np.ndim(v):
            k = len(v)
    r = np.random.default_rng(case["pt_seed"])
    amax = case["amax"]
    alpha = np.concatenate([[0.0, amax, amax, amax], r.uniform(0, amax, 200)])
    phi = np.concatenate([[0.3, math.pi, -math.pi, 0.0], r.uniform(-math.pi, math.pi, 200)])
    lam = wl_ref(case["energy"])
    nontrivial = False

    for i in range(k):
        p = {s: 0.0 for s in KEYS}
        p.update(_member(polar, i))
        b = _member({s: back[s] for s in KEYS}, i)
        total_p = np.zeros_like(alpha)
        total_b = np.zeros_like(alpha)
        total_scale = 0.0
        for s in ISO:
            ctx.expect(b[s] == p[s], "isotropic-preserved", symbol=s, got=b[s], want=p[s])
            total_p += term_chi(s, p[s], 0.0, alpha, phi)
            total_b += term_chi(s, b[s], 0.0, alpha, phi)
            total_scale += term_scale(s, p[s], amax)
        for mag, ang in PAIRS:
            tp = term_chi(mag, p[mag], p[ang], alpha, phi)
            tb = term_chi(mag, b[mag], b[ang], alpha, phi)
            sc = term_scale(mag, p[mag], amax)
            # the only freedom of a polar pair is (C, phi) ~ (-C, phi + pi/m): the amplitude is fixed
            ctx.close(abs(b[mag]), abs(p[mag]), "amplitude-preserved", rtol=1e-13, atol=0.0, symbol=mag)
            ctx.close(tb, tp, "roundtrip-term-chi", rtol=0, atol=2e-13 * sc, scale=1.0, symbol=mag, C=p[mag], angle=p[ang],
                      back_C=b[mag], back_angle=b[ang])
            total_p += tp
            total_b += tb
            total_scale += sc
            if p[mag] != 0.0 and p[ang] != 0.0:
                nontrivial = True
        ctx.close(total_b, total_p, "roundtrip-total-chi", rtol=0, atol=2e-13 * total_scale, scale=1.0)

        # the real consumer of polar coefficients
        with G.precision("float64"):
            k_p = np.asarray(transfer.Aberrations(aberration_coefficients=p, energy=case["energy"])
                             ._evaluate_from_angular_grid(alpha.copy(), phi.copy()))
            k_b = np.asarray(transfer.Aberrations(aberration_coefficients=b, energy=case["energy"])
                             ._evaluate_from_angular_grid(alpha.copy(), phi.copy()))
        pscale = 2 * math.pi / lam * total_scale
        ctx.close(k_b, k_p, "roundtrip-kernel", rtol=0, atol=3e-13 * (1.0 + pscale), scale=1.0)
        ctx.monitor("kernel-samples", alpha.size)

        # ---- notes only (not part of the property)
        c = _member(cart, i)
        text = (p["C10"] * alpha ** 2 / 2 + p["C30"] * alpha ** 4 / 4
                + alpha ** 2 / 2 * (c["C12a"] * np.cos(2 * phi) + c["C12b"] * np.sin(2 * phi))
                + alpha ** 3 / 3 * (c["C21a"] * np.cos(phi) + c["C21b"] * np.sin(phi)
                                    + c["C23a"] * np.cos(3 * phi) + c["C23b"] * np.sin(3 * phi))
                + alpha ** 4 / 4 * (c["C32a"] * np.cos(2 * phi) + c["C32b"] * np.sin(2 * phi)
                                    + c["C34a"] * np.cos(4 * phi) + c["C34b"] * np.sin(4 * phi)))
        if total_scale > 0 and np.abs(text - total_p).max() > 1e-9 * total_scale:
            ctx.note("textbook-cartesian-expansion-differs")
        else:
            ctx.note("textbook-cartesian-expansion-agrees")
        cart2 = transfer.polar2cartesian(b)
        worst = max(abs(float(cart2[s]) - c[s]) for s in c) / (max(abs(v) for v in c.values()) + 1e-300)
        ctx.note("cartesian-roundtrip-identity" if worst < 1e-9 else "cartesian-roundtrip-differs")
    ctx.nontrivial(nontrivial)
