"""C13 Polar measurements integrate exactly the bins inside the requested limits.

Oracle: plain numpy slicing with exact integer bin indices.  Limits are *generated from* bin
indices (three float spellings of the same bin edge: offset + k*sampling, the value abTEM's own
LinearAxis coordinates give for that edge, repeated addition), so the oracle knows which bins lie
inside.  Bin values are random integers stored as floats, so every sum is exact and the comparison
is an equality: one bin too many / too few can never hide inside a tolerance.
"""
import numpy as np

from vf import lib_diffraction as L

PROPERTY = "C13"
TECHNIQUE = "runtime monitoring; exact index-arithmetic oracle (numpy slicing with generated bin indices, integer-valued data)"
RULE = ("PolarMeasurements built directly: 1-12 radial x 1-12 azimuthal bins, radial sampling from {0.1,0.7,1,0.25,1/3,2.5,random}, "
        "azimuthal sampling 2pi/n or {0.1,0.7,random}, radial offset from {0,1.4,0.3,10,random}, azimuthal offset from "
        "{0,0.3,pi/7,-0.5,random}, 0-3 ensemble axes (scan/ordinal/unknown, any order), eager or lazy with random chunks, float32 or "
        "float64 integer-valued data (negative values included); limits are bin edges spelled offset+k*sampling, linspace edge or "
        "repeated addition; lazy arrays are chunked along ensemble axes and along the radial / azimuthal / both bin axes; 35 % of the "
        "cases are followed in the same process by a twin that differs in one parameter (offsets moved by whole bins under "
        "numerically identical limits, data, radial sampling, azimuthal offset); non-trivial = at least 2 bins along an axis that gets limits and limits that select a proper subset; "
        "distinct = distinct case signature")
CLAUSES = ["radial-limits", "azimuthal-limits", "both-limits", "no-limits-total", "partition-radial", "partition-azimuthal",
           "detector-regions", "result-type", "history"]
QUICK = dict(n=700, time=40)
THOROUGH = dict(n=179100, time=480, shards=16)
ASSUMPTIONS = ["only limits aligned with bin edges are judged (the property's quantifier); limits beyond the binned range are not generated"]


def _pick(rng, fixed, lo, hi, p_fixed=0.7):
    if rng.random() < p_fixed:
        return float(rng.choice(fixed))
    return float(rng.uniform(lo, hi))


def gen(rng, tier):
    nr = int(rng.integers(1, 13))
    na = int(rng.integers(1, 13))
    rs = _pick(rng, [0.1, 0.7, 1.0, 0.25, 1.0 / 3.0, 2.5], 0.05, 4.0)
    if rng.random() < 0.6:
        asamp = {"kind": "natural"}
    else:
        asamp = {"kind": "value", "v": _pick(rng, [0.1, 0.7, 2 * np.pi / 7, 0.5], 0.05, 1.0)}
    roff = _pick(rng, [0.0, 1.4, 0.3, 10.0, 0.0], 0.0, 30.0)
    aoff = _pick(rng, [0.0, 0.3, np.pi / 7, -0.5, 0.0], -np.pi, np.pi)
    spec = L.rand_axes(rng, max_axes=3, max_len=3)
    a, b = sorted(rng.choice(nr + 1, size=2, replace=False).tolist()) if nr >= 1 else (0, 1)
    c, d = sorted(rng.choice(na + 1, size=2, replace=False).tolist())
    rcuts = sorted(set([0, nr] + rng.integers(0, nr + 1, size=int(rng.integers(0, 4))).tolist()))
    acuts = sorted(set([0, na] + rng.integers(0, na + 1, size=int(rng.integers(0, 4))).tolist()))
    nreg = int(rng.integers(1, min(nr * na, 6) + 1))
    regions = rng.choice(nr * na, size=nreg, replace=False).tolist()
    lazy = bool(rng.random() < 0.3)
    then = []
    if rng.random() < 0.35:
        # history: a second measurement in the same process that differs in exactly one parameter
        k = int(rng.integers(0, 4))
        if k == 0:
            # offsets moved by whole bins while the numeric limits stay the same: other bins lie inside the same limits
            then.append({"shift": [int(rng.integers(-a, nr - b + 1)), int(rng.integers(-c, na - d + 1))]})
        elif k == 1:
            then.append({"seed": int(rng.integers(0, 2 ** 31))})
        elif k == 2:
            then.append({"rs": _pick(rng, [0.1, 0.7, 1.0, 0.25, 1.0 / 3.0, 2.5], 0.05, 4.0)})
        else:
            then.append({"aoff": _pick(rng, [0.0, 0.3, np.pi / 7, -0.5], -np.pi, np.pi)})
    return {"nr": nr, "na": na, "rs": rs, "asamp": asamp, "roff": roff, "aoff": aoff, "axes": spec,
            "lazy": lazy, "chunks": [int(rng.integers(1, 4)) for _ in spec],
            "base_chunks": (L.rand_base_chunks(rng, (nr, na)) if lazy else None), "then": then,
            "dtype": str(rng.choice(["float32", "float64"])), "seed": int(rng.integers(0, 2 ** 31)),
            "form": str(rng.choice(["mul", "coords", "accum"])),
            "radial": [int(a), int(b)], "azimuthal": [int(c), int(d)], "rcuts": [int(x) for x in rcuts],
            "acuts": [int(x) for x in acuts], "regions": [int(x) for x in regions],
            "scalar_region": bool(rng.random() < 0.3)}


def edge(offset, sampling, n, k, form):
    """Float value of bin edge k (0..n) of an axis with n bins, in one of three spellings."""
    if form == "coords" and k < n:
        # the value LinearAxis.coordinates(n) lists for the start of bin k
        return float(np.linspace(offset, offset + sampling * n, n, endpoint=False)[k])
    if form == "accum":
        v = offset
        for _ in range(k):
            v = v + sampling
        return float(v)
    return float(offset + k * sampling)


def _build(case):
    from abtem.measurements import PolarMeasurements
    rng = np.random.default_rng(case["seed"])
    shape = L.axes_shape(case["axes"]) + (case["nr"], case["na"])
    big = 2 ** 10 if case["dtype"] == "float32" else 2 ** 36
    data = rng.integers(-big, big + 1, size=shape).astype(case["dtype"])
    asamp = 2 * np.pi / case["na"] if case["asamp"]["kind"] == "natural" else case["asamp"]["v"]
    arr = L.chunk_array(data, case["chunks"], base_chunks=case.get("base_chunks")) if case["lazy"] else data.copy()
    mr, ma = case.get("shift", [0, 0])
    pm = PolarMeasurements(arr, radial_sampling=case["rs"], azimuthal_sampling=asamp, radial_offset=case["roff"] - mr * case["rs"],
                           azimuthal_offset=case["aoff"] - ma * asamp, ensemble_axes_metadata=L.make_axes(case["axes"]))
    return pm, data.astype(np.float64), asamp


def check(ctx, case):
    for i, step in enumerate(L.steps_of(case)):
        if i:
            ctx.monitor("history-steps")
            ctx.clauses["history"] += 1      # judged by the regular clauses
        _one(ctx, step)


def _one(ctx, case):
    pm, data, asamp = _build(case)
    if case["lazy"] and case.get("base_chunks"):
        ctx.monitor("lazy-base-axes-chunked")
    # bins by which the measurement's offsets were moved while the numeric limits stay those of the unshifted axes
    mr, ma = case.get("shift", [0, 0])
    spec = case["axes"]
    nr, na, form = case["nr"], case["na"], case["form"]
    a, b = case["radial"]
    c, d = case["azimuthal"]

    def rl(i, j):
        return (edge(case["roff"], case["rs"], nr, i, form), edge(case["roff"], case["rs"], nr, j, form))

    def al(i, j):
        return (edge(case["aoff"], asamp, na, i, form), edge(case["aoff"], asamp, na, j, form))

    def want(rsl, asl):
        if rsl.start is not None:
            rsl = slice(rsl.start + mr, rsl.stop + mr)
        if asl.start is not None:
            asl = slice(asl.start + ma, asl.stop + ma)
        return L.to_reduced(data[..., rsl, asl].sum(axis=(-2, -1)), spec)

    def run(clause, **kw):
        ctx.monitor("integrate-calls")
        out = pm.integrate(**kw)
        got = L.as_numpy(out)
        return out, got

    # no limits: the total over all bins
    out, got = run("no-limits-total")
    ctx.equal(got.astype(np.float64), want(slice(None), slice(None)), "no-limits-total")
    ctx.expect(type(out).__name__ == L.reduced_type_name(spec), "result-type", got=type(out).__name__,
               want=L.reduced_type_name(spec))
    ctx.expect(tuple(got.shape) == tuple(np.asarray(want(slice(None), slice(None))).shape), "result-type",
               got_shape=list(got.shape))

    # radial / azimuthal / both
    out, got = run("radial-limits", radial_limits=rl(a, b))
    ctx.equal(got.astype(np.float64), want(slice(a, b), slice(None)), "radial-limits", limits=rl(a, b), bins=[a, b])
    out, got = run("azimuthal-limits", azimuthal_limits=al(c, d))
    ctx.equal(got.astype(np.float64), want(slice(None), slice(c, d)), "azimuthal-limits", limits=al(c, d), bins=[c, d],
              azimuthal_sampling=asamp, azimuthal_offset=case["aoff"], radial_sampling=case["rs"])
    out, got = run("both-limits", radial_limits=rl(a, b), azimuthal_limits=al(c, d))
    ctx.equal(got.astype(np.float64), want(slice(a, b), slice(c, d)), "both-limits", rlimits=rl(a, b), alimits=al(c, d),
              rbins=[a, b], abins=[c, d])
    if nr > 0:
        # integrate_radial is the same operation under another name
        got = L.as_numpy(pm.integrate_radial(*rl(a, b)))
        ctx.equal(got.astype(np.float64), want(slice(a, b), slice(None)), "radial-limits", via="integrate_radial")

    if mr or ma:
        ctx.nontrivial(nr >= 2 and na >= 2)
        return
    # partitions of the whole range sum to the whole integral
    total = want(slice(None), slice(None))
    acc = np.zeros_like(np.asarray(total, dtype=np.float64))
    for i, j in zip(case["rcuts"][:-1], case["rcuts"][1:]):
        acc = acc + L.as_numpy(pm.integrate(radial_limits=rl(i, j))).astype(np.float64)
    ctx.equal(acc, np.asarray(total, dtype=np.float64), "partition-radial", cuts=case["rcuts"])
    acc = np.zeros_like(np.asarray(total, dtype=np.float64))
    for i, j in zip(case["acuts"][:-1], case["acuts"][1:]):
        acc = acc + L.as_numpy(pm.integrate(azimuthal_limits=al(i, j))).astype(np.float64)
    ctx.equal(acc, np.asarray(total, dtype=np.float64), "partition-azimuthal", cuts=case["acuts"])

    # explicit detector regions (flat index = radial*nbins_azimuthal + azimuthal)
    regs = case["regions"]
    arg = regs[0] if case["scalar_region"] else list(regs)
    use = [regs[0]] if case["scalar_region"] else regs
    got = L.as_numpy(pm.integrate(detector_regions=arg))
    flat = data.reshape(data.shape[:-2] + (-1,))
    ctx.equal(got.astype(np.float64), L.to_reduced(flat[..., use].sum(-1), spec), "detector-regions", regions=use)

    proper_r = nr >= 2 and (b - a) < nr
    proper_a = na >= 2 and (d - c) < na
    ctx.nontrivial(proper_r and proper_a)


def fixed_cases(tier):
    base = {"axes": [], "lazy": False, "chunks": [], "dtype": "float64", "seed": 7, "form": "mul", "scalar_region": False,
            "base_chunks": None, "then": []}
    out = []
    # the aligned limit 1.4 + 0.7*6 whose quotient (limit-offset)/sampling is 5.999...
    out.append(dict(base, nr=8, na=6, rs=0.7, asamp={"kind": "natural"}, roff=1.4, aoff=0.0, radial=[2, 6], azimuthal=[1, 4],
                    rcuts=[0, 3, 6, 8], acuts=[0, 2, 6], regions=[0, 5, 47]))
    # non-zero azimuthal offset, azimuthal sampling different from the radial one
    out.append(dict(base, nr=3, na=12, rs=2.5, asamp={"kind": "natural"}, roff=10.0, aoff=0.3, radial=[1, 3], azimuthal=[3, 9],
                    rcuts=[0, 1, 3], acuts=[0, 4, 8, 12], regions=[35], axes=[{"k": "S", "n": 2}, {"k": "S", "n": 3}]))
    out.append(dict(base, nr=1, na=1, rs=0.1, asamp={"kind": "natural"}, roff=0.0, aoff=-0.5, radial=[0, 1], azimuthal=[0, 1],
                    rcuts=[0, 1], acuts=[0, 1], regions=[0], axes=[{"k": "O", "n": 2}, {"k": "S", "n": 3}], lazy=True, chunks=[1, 2]))
    out.append(dict(base, nr=12, na=7, rs=0.1, asamp={"kind": "value", "v": 0.7}, roff=0.3, aoff=float(np.pi / 7), radial=[3, 12],
                    azimuthal=[0, 7], rcuts=[0, 7, 12], acuts=[0, 1, 2, 7], regions=[1, 2, 3], form="coords"))
    # lazy measurement split along both bin axes, followed by a twin whose offsets are moved by whole bins
    out.append(dict(base, nr=9, na=8, rs=0.7, asamp={"kind": "natural"}, roff=1.4, aoff=0.3, radial=[2, 6], azimuthal=[1, 4],
                    rcuts=[0, 4, 9], acuts=[0, 3, 8], regions=[3, 70], axes=[{"k": "S", "n": 3}], lazy=True, chunks=[2], base_chunks=[4, 3],
                    then=[{"shift": [3, -1]}, {"shift": [-2, 4]}]))
    return out
