"""C12 Detectors measure consistent integrated intensities.

Oracle: the diffraction intensity of every wave is recomputed with a float64 matrix DFT, every pixel gets its
true scattering angle (frequency index * lambda / extent, own wavelength formula).  For an annulus [i, o) two
sums are formed: `lower` over the pixels inside by more than eps and `upper` over the pixels inside with
margin eps (eps = 1e-4 pixel).  Intensities are non-negative, so every detector must return a value in
[lower, upper] - a pixel sitting on a boundary within rounding can never raise an alarm, a pixel assigned to
the wrong annulus always does.  The same bounds judge

  * AnnularDetector(i, o).detect(waves)
  * waves.diffraction_patterns(...).integrate_radial(i, o)        (shifted / unshifted / cropped patterns)
  * sum over the segments of SegmentedDetector(nr, na, i, o, rotation)
  * FlexibleAnnularDetector(step, ...).detect(waves).integrate_radial(i, o)   (limits on bin edges)

so they are consistent with each other through the common reference.  Additivity is an exact set identity
([i,m) u [m,o) = [i,o)) and is checked without sandwich, with m on a pixel radius in part of the cases.
Bin-width monitor: the k-th bin of the flexible detector must lie in the sandwich for
[offset + k*sampling, offset + (k+1)*sampling) with offset/sampling read from the *returned* axis metadata.

The flexible->integrate_radial clause goes through PolarMeasurements.integrate and therefore also sees the
index-truncation defect that C13 isolates (limits on bin edges such as 1.4 + 7*0.7).
"""
import numpy as np

from vf import lib_diffraction as L

PROPERTY = "C12"
TECHNIQUE = "runtime monitoring; float64 direct-DFT reference with sandwich bounds on the annular masks, exact additivity, bin-width monitor on returned axis metadata"
RULE = ("waves: random complex spectra (band limit 0.5/0.67/1 of the grid), built probes with line/grid scans and exit waves of a short "
        "multislice; grids 12-48 odd/even/rectangular, angular pixel 0.9-4 mrad with anisotropy 0.7-1.5, energies 60-300 keV, 0-3 ensemble "
        "axes (scan/ordinal/unknown, any order when eager), eager/lazy with random chunks, float32/float64; limits: fractions of the "
        "antialias cutoff or of the full grid, integers, or edges of the flexible detector's bins; midpoints random or on a pixel "
        "radius; flexible steps 0.25-3 mrad, inner 0/multiple of step/random, outer None/aligned/unaligned; segments 1-4 x 1-6 with "
        "rotation (0, random, +-1e-9); integrate_radial on full/cutoff/float-cropped patterns, shifted and unshifted, all parities, and on "
        "lazily stored patterns chunked along x / y / both base axes; 30 % of the cases are histories: 1-2 further rounds in the same "
        "process with exactly one parameter changed (energy at equal grid, limits, extent at equal gpts, gpts at equal extent, data, "
        "precision) and numerically identical limits otherwise; 25 % run an unjudged offset-detector call right before the judged one; "
        "non-trivial = annulus with >=3 pixels inside and >=3 outside and a flexible measurement with >=2 bins; distinct = distinct case "
        "signature")
CLAUSES = ["annular", "integrate-radial", "integrate-radial-unshifted", "integrate-radial-base-chunked", "segmented-sum",
           "flexible-integrate", "additive", "flexible-bin-width", "lazy-detect", "history"]
QUICK = dict(n=85, time=45)
THOROUGH = dict(n=19200, time=480, shards=16)
ASSUMPTIONS = ["detector centre offsets are not exercised (the statement is about centred annuli)",
               "flexible->integrate_radial is judged for limits on bin edges of the returned measurement only"]

EPS_PIXEL = 1e-4


# ------------------------------------------------------------------------------------------- generation
def gen(rng, tier):
    nx = int(rng.choice([12, 13, 16, 17, int(rng.integers(12, 49)), int(rng.integers(12, 49))]))
    ny = nx if rng.random() < 0.3 else int(rng.choice([12, 13, 16, 17, int(rng.integers(12, 49)), int(rng.integers(12, 49))]))
    energy = float(rng.choice([60e3, 80e3, 100e3, 200e3, 300e3]))
    lam = L.wavelength(energy)
    px = float(rng.uniform(0.9, 4.0))
    py = px if rng.random() < 0.3 else float(px * rng.uniform(0.7, 1.5))
    extent = [lam * 1e3 / px, lam * 1e3 / py]
    lazy = bool(rng.random() < 0.35)
    kind = str(rng.choice(["random", "random", "random", "random", "probe", "exit"]))
    if kind == "random":
        spec = L.rand_axes(rng, max_axes=3, max_len=3, scan_last=bool(lazy and rng.random() < 0.8))
    else:
        spec = [{"k": "S", "n": int(rng.integers(1, 4))} for _ in range(int(rng.integers(1, 3)))]
    step = float(rng.choice([0.25, 0.5, 1.0, 1.5, 2.0, 3.0, float(rng.uniform(0.25, 3.0))]))
    case = {
        "gpts": [nx, ny], "extent": extent, "energy": energy, "wave": kind, "band": float(rng.choice([0.5, 0.67, 1.0])),
        "axes": spec, "chunks": [int(rng.integers(1, 4)) for _ in spec], "lazy": lazy,
        "precision": str(rng.choice(["float32", "float32", "float64"])), "seed": int(rng.integers(0, 2 ** 31)),
        "range": str(rng.choice(["cutoff", "cutoff", "cutoff", "full"])),
        "limits": str(rng.choice(["frac", "int", "flex", "flex"])),
        "fi": (0.0 if rng.random() < 0.3 else float(rng.uniform(0.0, 0.7))), "fo": float(rng.uniform(0.15, 1.0)),
        "fm": float(rng.uniform(0.1, 0.9)), "mid_on_pixel": bool(rng.random() < 0.5),
        "dp": {"max_angle": str(rng.choice(["full", "cutoff", "float"])), "grow": float(rng.uniform(1.0, 1.3)),
               "fftshift": bool(rng.random() < 0.5), "parity": str(rng.choice(["same", "odd", "even"]))},
        "seg": {"nr": int(rng.integers(1, 5)), "na": int(rng.integers(1, 7)),
                "rotation": float(rng.choice([0.0, 1e-9, -1e-9, float(rng.uniform(-np.pi, np.pi)), float(rng.uniform(0, 7))]))},
        "flex": {"step": step, "inner": str(rng.choice(["zero", "zero", "multiple", "random"])), "fin": float(rng.uniform(0.0, 0.3)),
                 "outer": str(rng.choice(["none", "none", "aligned", "random"])), "fout": float(rng.uniform(0.5, 1.0)),
                 "fa": float(rng.random()), "fb": float(rng.random())},
        # lazily stored pattern split along its base axes (x only / y only / both) for integrate_radial
        "dp_base_chunks": L.rand_base_chunks(rng, (nx, ny), p_split=0.4),
        # an (unjudged) call with a detector offset right before the judged centred call
        "prime_offset": bool(rng.random() < 0.25),
    }
    if rng.random() < 0.3:
        # history: the same detectors again in the same process with exactly one parameter changed; the limits in mrad
        # stay identical unless they are the changed parameter (state kept between calls must not leak)
        then = []
        for _ in range(int(rng.integers(1, 3))):
            k = int(rng.integers(0, 6))
            if k == 0:
                then.append({"energy": float(rng.choice([e for e in (40e3, 60e3, 100e3, 200e3, 300e3) if e != energy]))})
            elif k == 1:
                then.append({"fi": (0.0 if rng.random() < 0.3 else float(rng.uniform(0.0, 0.7))), "fo": float(rng.uniform(0.15, 1.0))})
            elif k == 2:
                f = float(rng.uniform(0.7, 1.4))
                then.append({"extent": [extent[0] * f, extent[1] * float(rng.uniform(0.7, 1.4))]})
            elif k == 3:
                then.append({"gpts": [int(rng.integers(12, 49)), int(rng.integers(12, 49))]})
            elif k == 4:
                then.append({"seed": int(rng.integers(0, 2 ** 31))})
            else:
                then.append({"precision": "float64" if case["precision"] == "float32" else "float32"})
        case["then"] = then
        if case["limits"] == "flex":
            case["limits"] = "frac"
    return case


# ------------------------------------------------------------------------------------------- waves
def build_waves(case):
    """Returns (waves, float64 reference array of the wave function, normalisation divisor)."""
    import abtem
    nx, ny = case["gpts"]
    spec = case["axes"]
    rng = np.random.default_rng(case["seed"])
    cdt = np.complex128 if case["precision"] == "float64" else np.complex64
    if case["wave"] == "random":
        ens = L.axes_shape(spec)
        spec_arr = rng.normal(size=ens + (nx, ny)) + 1j * rng.normal(size=ens + (nx, ny))
        if case["band"] < 1.0:
            fx = L.freq_index(nx, False) / (nx // 2)
            fy = L.freq_index(ny, False) / (ny // 2)
            spec_arr = spec_arr * (np.hypot(fx[:, None], fy[None, :]) <= case["band"])
        a = np.fft.ifft2(spec_arr).astype(cdt)
        arr = L.chunk_array(a, case["chunks"]) if case["lazy"] else a.copy()
        w = abtem.Waves(arr, energy=case["energy"], extent=tuple(case["extent"]), ensemble_axes_metadata=L.make_axes(spec))
        return w, a
    ext = tuple(case["extent"])
    probe = abtem.Probe(energy=case["energy"], semiangle_cutoff=float(0.35 * min(nx // 2 * _px(case)[0], ny // 2 * _px(case)[1])),
                        gpts=(nx, ny), extent=ext, defocus=float(rng.uniform(-40, 40)), Cs=float(rng.uniform(0, 2e5)))
    if len(spec) == 1:
        scan = abtem.LineScan(start=(0.1 * ext[0], 0.2 * ext[1]), end=(0.8 * ext[0], 0.6 * ext[1]), gpts=spec[0]["n"], endpoint=False)
    else:
        scan = abtem.GridScan(start=(0, 0), end=(0.7 * ext[0], 0.9 * ext[1]), gpts=(spec[0]["n"], spec[1]["n"]), endpoint=False)
    if case["wave"] == "probe":
        w = probe.build(scan=scan, lazy=False)
    else:
        from ase import Atoms
        pos = rng.random((3, 3)) * np.array([ext[0], ext[1], 4.0])
        atoms = Atoms("SiCAu", positions=pos, cell=[ext[0], ext[1], 4.0], pbc=True)
        pot = abtem.Potential(atoms, gpts=(nx, ny), slice_thickness=2.0)
        w = probe.multislice(pot, scan=scan, lazy=False)
    a = np.asarray(w.array)
    if case["lazy"]:
        w = abtem.Waves(L.chunk_array(a, case["chunks"]), energy=case["energy"], extent=ext,
                        ensemble_axes_metadata=list(w.ensemble_axes_metadata), metadata=dict(w.metadata))
    return w, a


def _px(case):
    lam = L.wavelength(case["energy"])
    return lam * 1e3 / case["extent"][0], lam * 1e3 / case["extent"][1]


def reference(case, a, metadata):
    nx, ny = case["gpts"]
    F = L.direct_dft2(a)
    if metadata.get("normalization") == "values":
        F = F / (nx * ny)
    I = (np.abs(F) ** 2).reshape(F.shape[:-2] + (nx * ny,))
    px, py = _px(case)
    r = np.hypot((L.freq_index(nx, False) * px)[:, None], (L.freq_index(ny, False) * py)[None, :]).reshape(-1)
    return I, r


def _detect(det, w):
    out = det.detect(w)
    if hasattr(out, "compute") and getattr(out, "is_lazy", False):
        out = out.compute()
    return out


# ------------------------------------------------------------------------------------------- check
def _range(step, abtem):
    """Upper end of the angular range a step draws its limits from (antialias cutoff or 0.98 of the grid)."""
    nx, ny = step["gpts"]
    px, py = _px(step)
    if step["range"] == "cutoff":
        return float(min(abtem.PlaneWave(energy=step["energy"], gpts=(nx, ny), extent=tuple(step["extent"])).cutoff_angles))
    return 0.98 * min(nx // 2 * px, ny // 2 * py)


def check(ctx, case):
    import abtem
    steps = L.steps_of(case)
    if len(steps) > 1:
        # all steps of a history draw their limits from the common part of the ranges, so that equal fractions give
        # numerically identical limits in mrad
        rmin = min(_range(st, abtem) for st in steps)
        for st in steps:
            st["_rmax"] = rmin
    for i, st in enumerate(steps):
        if i:
            ctx.monitor("history-steps")
            ctx.clauses["history"] += 1      # the step itself is judged by the regular clauses
        with abtem.config.set({"precision": st["precision"]}):
            _check(ctx, st, abtem)


def _check(ctx, case, abtem):
    nx, ny = case["gpts"]
    spec = case["axes"]
    w, a = build_waves(case)
    I, r = reference(case, a, w.metadata)
    px, py = _px(case)
    eps = EPS_PIXEL * min(px, py)
    f64 = case["precision"] == "float64"
    total = float(I.sum(-1).max())
    tol_native = (1e-11 if f64 else 5e-6) * total      # detectors that honour the configured precision
    tol_polar = 1e-5 * total                            # polar binning accumulates in float32 always
    rcut = float(min(w.cutoff_angles))
    rfull = 0.98 * min(nx // 2 * px, ny // 2 * py)
    rmax = rcut if case["range"] == "cutoff" else rfull
    if "_rmax" in case:
        rmax = min(rmax, case["_rmax"])
    lazy = case["lazy"]
    trailing = L.scan_is_trailing(spec)

    # ---- flexible detector first: its bins may define the limits of this case
    fx = case["flex"]
    step = fx["step"]
    inner_f = 0.0
    if fx["inner"] == "multiple":
        inner_f = step * int(fx["fin"] * rcut / step)
    elif fx["inner"] == "random":
        inner_f = fx["fin"] * rcut
    # abTEM creates int(floor(outer - inner) / step) bins: keep room for at least two of them
    if np.floor(rcut - inner_f) < 1:
        inner_f = 0.0
    avail = float(np.floor(rcut - inner_f))
    if avail < 2 * step:
        step = avail / 2.0
    if fx["outer"] == "none":
        outer_f = None
    elif fx["outer"] == "aligned":
        kmax = int(np.floor((rcut - inner_f) / step))
        outer_f = inner_f + step * max(1, int(np.ceil(fx["fout"] * kmax)))
    else:
        outer_f = inner_f + fx["fout"] * (rcut - inner_f)
    if outer_f is not None and (outer_f > rcut or np.floor(outer_f - inner_f) < step):
        outer_f = None
    fdet = abtem.FlexibleAnnularDetector(step_size=step, inner=inner_f, outer=outer_f)
    pm = _detect(fdet, w)
    ctx.monitor("flexible-detect")
    if lazy:
        ctx.expect(True, "lazy-detect")
    pmv = L.as_numpy(pm).astype(np.float64)
    rax = pm.axes_metadata[-2]
    off, samp = float(rax.offset), float(rax.sampling)
    nb = pmv.shape[-2]
    ctx.expect(pmv.shape[:-2] == I.shape[:-1] and pmv.shape[-1] == 1 and nb >= 1, "flexible-bin-width", what="shape",
               shape=list(pmv.shape))
    lo, hi = L.radial_bin_bounds(I, r, off, samp, nb, eps)
    L.within(ctx, pmv[..., 0], lo, hi, "flexible-bin-width", tol_polar, step=step, inner=inner_f, outer=outer_f,
             axis_offset=off, axis_sampling=samp, nbins=nb, cutoff=rcut)
    ctx.close([off, samp], [inner_f, step], "flexible-bin-width", rtol=1e-12, atol=1e-12, what="axis metadata vs request")

    # ---- the limits of this case
    mode = case["limits"]
    if mode == "flex":
        ai = min(int(case["flex"]["fa"] * nb), nb - 1)
        bi = ai + 1 + int(case["flex"]["fb"] * (nb - ai - 1) * 0.999999)
        inner, outer = off + ai * samp, off + bi * samp
    else:
        inner = case["fi"] * rmax
        outer = inner + case["fo"] * (rmax - inner)
        if mode == "int" and np.floor(outer) > np.floor(inner) and np.floor(outer) >= 1:
            inner, outer = float(np.floor(inner)), float(np.floor(outer))
    inner, outer = float(inner), float(outer)
    lo, hi, nband = L.annular_bounds(I, r, inner, outer, eps)
    n_in = int(((r >= inner) & (r < outer)).sum())
    detail = dict(inner=inner, outer=outer, pixel=[px, py], boundary_pixels=nband)

    # ---- AnnularDetector
    def annular(i, o):
        ctx.monitor("annular-detect")
        return _detect(abtem.AnnularDetector(inner=i, outer=o), w)

    prime = (2.0 * px, -1.0 * py) if case.get("prime_offset") else None
    if prime is not None:
        # not judged (detector offsets are outside the statement): only there to leave state behind
        try:
            _detect(abtem.AnnularDetector(inner=inner, outer=outer, offset=prime), w)
            ctx.monitor("offset-primed")
        except Exception as e:
            ctx.note("prime-offset-" + type(e).__name__)
    ann_ok = True
    if lazy and not trailing:
        # Lazy detection with main scan axes that are not the trailing ensemble axes: AnnularDetector declares the output as
        # (non-scan axes) + (scan axes) but the blockwise plumbing cannot move an axis across blocks.  Depending on the
        # chunking the call raises, returns a wrongly shaped array or puts correct blocks at transposed positions.  Known
        # finding, classified by the case parameters alone; a result that is right is judged as usual.
        verdict = None
        try:
            out = annular(inner, outer)
            got = L.as_numpy(out).astype(np.float64)
            want_lo, want_hi = L.to_reduced(lo, spec), L.to_reduced(hi, spec)
            if got.shape != want_lo.shape:
                verdict = "shape"
            elif np.maximum(np.maximum(want_lo - got, got - want_hi), 0).max(initial=0.0) > tol_native:
                verdict = "values"
        except (AssertionError, IndexError, RuntimeError, ValueError) as e:
            verdict = type(e).__name__
        if verdict is not None:
            ctx.clauses["lazy-detect"] += 1
            ctx.known("C12-lazy-annular-nontrailing-scan", "lazy AnnularDetector.detect with non-trailing scan axes")
            ctx.note("lazy-nontrailing-" + verdict)
            ann_ok = False
    else:
        out = annular(inner, outer)
    if ann_ok:
        got = L.as_numpy(out)
        L.within(ctx, got, L.to_reduced(lo, spec), L.to_reduced(hi, spec), "annular", tol_native, **detail)
        ctx.expect(type(out).__name__ == L.reduced_type_name(spec), "annular", what="type", got=type(out).__name__)
        if lazy:
            ctx.expect(True, "lazy-detect")
        # additivity over adjacent ranges (exact set identity: no sandwich)
        mid = inner + case["fm"] * (outer - inner)
        if case["mid_on_pixel"]:
            s0 = w.angular_sampling[0]
            freqs = np.fft.fftfreq(nx, 1 / s0 / nx)
            if not f64:
                freqs = freqs.astype(np.float32)
            cand = [float(v) for v in freqs[1: nx // 2] if inner < float(v) < outer]
            if cand:
                mid = cand[int(case["fm"] * len(cand)) % len(cand)]
                ctx.monitor("additive-mid-on-pixel")
        a1 = L.as_numpy(annular(inner, mid)).astype(np.float64)
        a2 = L.as_numpy(annular(mid, outer)).astype(np.float64)
        ctx.close(a1 + a2, got.astype(np.float64), "additive", rtol=0, atol=(1e-12 if f64 else 2e-6) * total, mid=mid, **detail)

    # ---- DiffractionPatterns.integrate_radial on shifted / unshifted, full / cropped patterns
    dpc = case["dp"]
    ma = dpc["max_angle"]
    if ma == "cutoff" and outer > rcut * (1 - 1e-6):
        ma = "full"
    if ma == "float":
        ma = min(outer * dpc["grow"], min(nx // 2 * px, ny // 2 * py))
        if ma < outer:
            ma = "full"
    for shifted in (dpc["fftshift"], not dpc["fftshift"]):
        dp = w.diffraction_patterns(max_angle=ma, parity=dpc["parity"], fftshift=shifted)
        if prime is not None:
            try:
                L.as_numpy(dp.integrate_radial(inner, outer, offset=prime))
            except Exception as e:
                ctx.note("prime-offset-" + type(e).__name__)
        out = dp.integrate_radial(inner, outer)
        got = L.as_numpy(out)
        for clause in ["integrate-radial"] + ([] if shifted else ["integrate-radial-unshifted"]):
            L.within(ctx, got, L.to_reduced(lo, spec), L.to_reduced(hi, spec), clause, tol_native, max_angle=ma,
                     fftshift=shifted, parity=dpc["parity"], shape=list(dp.shape[-2:]), **detail)

    # ---- the same integration on a lazily stored pattern whose base axes are split into several chunks
    bc = case.get("dp_base_chunks")
    if bc:
        from abtem.measurements import DiffractionPatterns
        full = w.diffraction_patterns(max_angle="full", parity="same", fftshift=dpc["fftshift"])
        fv = L.as_numpy(full)
        lz = DiffractionPatterns(L.chunk_array(fv, case["chunks"], base_chunks=bc), sampling=full.sampling, fftshift=dpc["fftshift"],
                                 ensemble_axes_metadata=list(full.ensemble_axes_metadata), metadata=dict(full.metadata))
        ctx.monitor("lazy-base-axes-chunked")
        got = L.as_numpy(lz.integrate_radial(inner, outer))
        L.within(ctx, got, L.to_reduced(lo, spec), L.to_reduced(hi, spec), "integrate-radial-base-chunked", tol_native,
                 base_chunks=bc, fftshift=dpc["fftshift"], **detail)
        got = L.as_numpy(lz.polar_binning(case["seg"]["nr"], case["seg"]["na"], inner, outer)).astype(np.float64)
        L.within(ctx, got.sum((-2, -1)), lo, hi, "integrate-radial-base-chunked", tol_polar, what="polar_binning", base_chunks=bc, **detail)

    # ---- SegmentedDetector: the segments together cover [inner, outer)
    sg = case["seg"]
    sdet = abtem.SegmentedDetector(nbins_radial=sg["nr"], nbins_azimuthal=sg["na"], inner=inner, outer=outer, rotation=sg["rotation"])
    ctx.monitor("segmented-detect")
    out = _detect(sdet, w)
    got = L.as_numpy(out).astype(np.float64)
    if ctx.expect(got.shape == I.shape[:-1] + (sg["nr"], sg["na"]), "segmented-sum", what="shape", shape=list(got.shape)):
        L.within(ctx, got.sum((-2, -1)), lo, hi, "segmented-sum", tol_polar, nr=sg["nr"], na=sg["na"], rotation=sg["rotation"], **detail)
        ctx.expect(bool((got >= -tol_polar).all()), "segmented-sum", what="negative segment")
    if lazy:
        ctx.expect(True, "lazy-detect")

    # ---- Flexible -> integrate_radial on bin edges
    if mode == "flex":
        out = pm.integrate_radial(inner, outer)
        got = L.as_numpy(out)
        L.within(ctx, got, L.to_reduced(lo, spec), L.to_reduced(hi, spec), "flexible-integrate", tol_polar, bins=[ai, bi],
                 nbins=nb, step=step, flex_inner=inner_f, flex_outer=outer_f, **detail)

    ctx.nontrivial(n_in >= 3 and (r.size - n_in) >= 3 and nb >= 2)


def fixed_cases(tier):
    lam = L.wavelength(100e3)
    base = {"gpts": [24, 21], "extent": [lam * 1e3 / 1.3, lam * 1e3 / 1.7], "energy": 100e3, "wave": "random", "band": 1.0,
            "axes": [{"k": "O", "n": 2}, {"k": "S", "n": 2}], "chunks": [1, 2], "lazy": False, "precision": "float32", "seed": 3,
            "range": "cutoff", "limits": "flex", "fi": 0.0, "fo": 0.8, "fm": 0.4, "mid_on_pixel": True,
            "dp": {"max_angle": "full", "grow": 1.1, "fftshift": False, "parity": "same"},
            "seg": {"nr": 2, "na": 3, "rotation": 0.0},
            "flex": {"step": 1.0, "inner": "zero", "fin": 0.0, "outer": "none", "fout": 1.0, "fa": 0.2, "fb": 0.6}}
    out = [base]
    out.append(dict(base, lazy=True, limits="int", precision="float64", seed=4))
    # lazy waves whose scan axis is not the trailing ensemble axis (known finding for the annular detector)
    out.append(dict(base, lazy=True, axes=[{"k": "S", "n": 2}, {"k": "O", "n": 3}], chunks=[1, 2], seed=6, limits="frac"))
    # energy series at equal grid, extent and limits (stale per-process state keyed without the energy), then other limits
    out.append(dict(base, limits="frac", seed=7, prime_offset=True, dp_base_chunks=[11, 0],
                    then=[{"energy": 300e3}, {"energy": 60e3}, {"fi": 0.2, "fo": 0.5}]))
    out.append(dict(base, limits="int", seed=8, lazy=True, dp_base_chunks=[5, 8],
                    then=[{"extent": [base["extent"][0] * 1.3, base["extent"][1]]}, {"gpts": [20, 27]}]))
    out.append(dict(base, wave="exit", axes=[{"k": "S", "n": 2}, {"k": "S", "n": 2}], chunks=[1, 1], seed=5,
                    flex={"step": 0.7, "inner": "multiple", "fin": 0.2, "outer": "random", "fout": 0.7, "fa": 0.1, "fb": 0.9}))
    return out
