"""C02 A frozen-phonon ensemble equals independent per-configuration simulations.

Decomposition oracle.  The displaced configurations are obtained through the public
iteration `list(frozen_phonons)`; every configuration is simulated *alone* (eager, a
`Potential` built from that single displaced `Atoms`, same grid / slicing / builder / scan /
detector / exit planes) and the ensemble result of the code under test (eager or lazy,
`FrozenPhonons`, `AtomsEnsemble`, list of `Atoms`, `SMatrix`) must have configuration k equal
to run k, or - with `ensemble_mean` and a detector - the float64 mean of the runs.

Seeds-only determinism.  The displaced positions are compared with an independent model
(`default_rng(seed_k).normal(size=(N, 3)) * sigma` on the selected directions) and must be the
same arrays however they are produced: `generate_blocks(chunks)` for every chunk size,
`ensemble_blocks(chunks).compute()` (synchronous and threaded), reversed / repeated order,
`to_atoms_ensemble()`, a fresh `FrozenPhonons(seed=fp.seed)`, and - monitor inside the real
pipeline - the output of every `FrozenPhonons.randomize` call made by abTEM itself while the
ensemble simulation runs (wrapper installed on the class before the workload is built).
"""
import warnings

import numpy as np

from vf import gen as G

PROPERTY = "C02"
TECHNIQUE = "runtime monitoring; decomposition oracle (ensemble vs independent single-configuration runs) + float64 displacement model + in-pipeline randomize monitor"
RULE = ("random orthogonal cells (1-5 atoms), grids 12-28 (odd/even/rectangular), 1-5 configurations, sigmas scalar/dict/per-atom/"
        "anisotropic tuple/anisotropic dict/anisotropic per-atom, seed int or explicit tuple, direction subsets of xyz, ensemble_mean "
        "T/F, source FrozenPhonons/AtomsEnsemble (list, to_atoms_ensemble, delayed)/list of Atoms/SMatrix, builder Probe/PlaneWave, "
        "scan none/custom/line/grid, detector none/annular/flexible/segmented/pixelated/list of two, exit planes none/int/tuple "
        "with entrance plane, projection infinite/finite, eager or lazy with max_batch auto/1/2, in a third of the cases a twin "
        "ensemble (same kind, seeds and shapes, other atoms or sigmas) evaluated lazily in the same dask.compute call; non-trivial = at least 2 "
        "configurations and at least 2 slices; distinct = distinct case signature")
CLAUSES = ["member:values", "member:axes", "mean:values", "config-axis", "displacement-model", "seeds-determine",
           "chunk-independence", "order-independence", "mode-independence", "pipeline-displacements",
           "atoms-ensemble-order", "joint-compute:values"]
QUICK = dict(n=22, time=34)
THOROUGH = dict(n=2470, time=480, shards=16)

POS_ATOL = 2e-6     # sigmas are stored in float32 by abTEM: |sigma*r| rounding <= 0.3*6*6e-8 ~ 1e-7
RTOL = 2e-5
ATOL_REL = 4e-6


# --------------------------------------------------------------------------- generator
def _gen_sigmas(rng, cell):
    n = len(cell["symbols"])
    syms = sorted(set(cell["symbols"]))
    kind = str(rng.choice(["scalar", "scalar", "dict", "per_atom", "aniso", "aniso_dict", "aniso_per_atom"]))
    u = lambda *s: rng.uniform(0.02, 0.3, size=s).round(4)
    if kind == "scalar":
        v = float(u())
    elif kind == "dict":
        v = {s: float(u()) for s in syms}
    elif kind == "per_atom":
        v = u(n).tolist()
    elif kind == "aniso":
        v = u(3).tolist()
    elif kind == "aniso_dict":
        v = {s: u(3).tolist() for s in syms}
    else:
        v = u(n, 3).tolist()
    return kind, v


def gen(rng, tier):
    cell = G.rand_cell_case(rng, max_atoms=5, max_xy=6.0, max_z=6.0, min_z=2.0)
    source = str(rng.choice(["fp", "fp", "fp", "fp", "atoms_ensemble", "atoms_list", "to_atoms_ensemble", "delayed",
                             "smatrix" if (tier == "thorough" or rng.random() < 0.5) else "fp"]))
    n = int(rng.choice([1, 2, 2, 3, 3, 4, 5]))
    sk, sv = _gen_sigmas(rng, cell)
    if rng.random() < 0.5:
        seed = int(rng.integers(0, 2 ** 31 - 1))
    else:
        seed = [int(s) for s in rng.choice(2 ** 20, size=n, replace=False)]
    nominal = float(rng.uniform(0.5, 1.6))
    nz = int(np.ceil(cell["cell"][2] / nominal))
    r = rng.random()
    if r < 0.55:
        ep = None
    elif r < 0.75:
        ep = int(rng.integers(1, nz + 1))
    else:
        k = int(rng.integers(1, min(nz, 3) + 1))
        planes = sorted(rng.choice(nz, size=k, replace=False).tolist())
        if rng.random() < 0.5:
            planes = [-1] + planes
        ep = [int(p) for p in planes]
    builder = str(rng.choice(["probe", "probe", "plane"]))
    if source == "smatrix":
        builder = "smatrix"
        ep = None
    scan_kind = str(rng.choice(["none", "custom", "custom", "line", "grid"]))
    scan = {"kind": scan_kind, "pos": rng.random((int(rng.integers(1, 4)), 2)).round(4).tolist(),
            "gpts": [int(rng.integers(1, 4)), int(rng.integers(1, 4))], "endpoint": bool(rng.random() < 0.5)}
    if 1 in scan["gpts"]:
        scan["endpoint"] = False        # one-point scans with endpoint have zero extent (not judged here, see C20)
    detector = str(rng.choice(["none", "annular", "flexible", "pixelated", "segmented", "two"]))
    if source == "smatrix" and detector == "none":
        detector = "annular"
    max_batch = ["auto", "auto", 1, 2][int(rng.integers(0, 4))]
    if source == "smatrix" and max_batch == 1:
        max_batch = "auto"              # one plane wave per task: minutes of dask overhead, nothing new for this property
    return {
        "cell": cell, "gpts": G.rand_gpts(rng, 12, 28), "slice_thickness": nominal, "source": source, "num_configs": n,
        "sigma_kind": sk, "sigmas": sv, "seed": seed,
        "directions": str(rng.choice(["xyz", "xyz", "xy", "x", "y", "z", "yx", "zx", "zyx"])),
        "ensemble_mean": bool(rng.random() < 0.5), "exit_planes": ep, "builder": builder, "scan": scan,
        "detector": detector, "lazy": bool(rng.random() < 0.5), "max_batch": max_batch,
        "energy": float(rng.choice([60e3, 100e3, 200e3, 300e3])),
        "projection": str(rng.choice(["infinite", "infinite", "infinite", "finite"])),
        "defocus": float(rng.uniform(-50, 80)), "semiangle": float(rng.uniform(12, 28)),
        "traj_seed": int(rng.integers(0, 2 ** 31 - 1)),
        "joint": [None, None, None, None, "atoms", "sigmas"][int(rng.integers(0, 6))],
        "joint_scheduler": ["threads", "synchronous"][int(rng.integers(0, 2))],
    }


def fixed_cases(tier):
    cell = {"cell": [4.0, 5.0, 4.0], "symbols": ["Si", "C", "Au"],
            "positions": [[1.0, 1.0, 1.0], [2.0, 3.0, 2.5], [3.0, 1.2, 3.5]]}
    base = {"cell": cell, "gpts": [16, 21], "slice_thickness": 1.0, "source": "fp", "num_configs": 3, "sigma_kind": "scalar",
            "sigmas": 0.1, "seed": 7, "directions": "xyz", "ensemble_mean": False, "exit_planes": None, "builder": "probe",
            "scan": {"kind": "custom", "pos": [[0.2, 0.3], [0.6, 0.5]], "gpts": [2, 2], "endpoint": False},
            "detector": "none", "lazy": False, "max_batch": "auto", "energy": 100e3, "projection": "infinite",
            "defocus": 30.0, "semiangle": 20.0, "traj_seed": 1}
    out = [dict(base)]                                                          # eager, waves, 3 configs (defect row 1)
    out.append(dict(base, lazy=True))
    out.append(dict(base, builder="plane", detector="pixelated", ensemble_mean=True, exit_planes=[-1, 1, 3]))
    out.append(dict(base, detector="annular", ensemble_mean=True, scan=dict(base["scan"], kind="grid")))
    out.append(dict(base, source="atoms_ensemble", detector="two", ensemble_mean=True, exit_planes=2))
    out.append(dict(base, source="smatrix", builder="smatrix", detector="annular", num_configs=2))
    out.append(dict(base, sigma_kind="aniso_dict", sigmas={"Si": [0.05, 0.1, 0.2], "C": [0.2, 0.02, 0.1], "Au": [0.03, 0.03, 0.3]},
                    seed=[5, 99, 1234, 77], num_configs=4, directions="zx", detector="flexible", ensemble_mean=True,
                    lazy=True, max_batch=1))
    # two lazy ensembles of the same kind / seeds / shapes in one dask graph
    out.append(dict(base, builder="plane", joint="atoms", seed=[3, 4], num_configs=2))
    out.append(dict(base, detector="annular", ensemble_mean=True, joint="sigmas", joint_scheduler="synchronous"))
    out.append(dict(base, source="atoms_ensemble", detector="pixelated", joint="atoms", lazy=True))
    # one interior exit plane: every lazy block / a one-configuration ensemble holds exactly one (configuration, plane) pair
    out.append(dict(base, lazy=True, exit_planes=[1], detector="pixelated"))
    out.append(dict(base, num_configs=1, exit_planes=[2], detector="annular", ensemble_mean=True))
    out.append(dict(base, lazy=True, exit_planes=[-1], builder="plane"))
    # averaged SMatrix measurement without base axes (annular detector on explicit positions), eager
    out.append(dict(base, source="smatrix", builder="smatrix", detector="annular", ensemble_mean=True))
    return out


# --------------------------------------------------------------------------- case -> objects
def _sigmas_arg(case):
    k, v = case["sigma_kind"], case["sigmas"]
    if k == "scalar":
        return float(v)
    if k == "dict":
        return {s: float(x) for s, x in v.items()}
    if k == "per_atom":
        return np.array(v, dtype=float)
    if k == "aniso":
        return tuple(float(x) for x in v)
    if k == "aniso_dict":
        return {s: tuple(float(x) for x in t) for s, t in v.items()}
    return np.array(v, dtype=float).reshape(-1, 3)


def _sigma_model(case, symbols):
    """(N, 3) float64 array of standard deviations per atom and direction (model of the documented semantics)."""
    k, v = case["sigma_kind"], case["sigmas"]
    n = len(symbols)
    if k == "scalar":
        return np.full((n, 3), float(v))
    if k == "dict":
        return np.array([[v[s]] * 3 for s in symbols], dtype=float)
    if k == "per_atom":
        return np.repeat(np.array(v, dtype=float)[:, None], 3, axis=1)
    if k == "aniso":
        return np.tile(np.array(v, dtype=float), (n, 1))
    if k == "aniso_dict":
        return np.array([v[s] for s in symbols], dtype=float)
    return np.array(v, dtype=float).reshape(n, 3)


def displaced_model(case, atoms, seeds):
    """Independent re-implementation of the displaced configurations: one generator per seed."""
    sig = _sigma_model(case, list(atoms.get_chemical_symbols()))
    axes = sorted({"xyz".index(c) for c in case["directions"].lower()})
    out = []
    for s in seeds:
        r = np.random.default_rng(int(s)).normal(size=(len(atoms), 3))
        p = np.array(atoms.positions, dtype=np.float64)
        for a in axes:
            p[:, a] += sig[:, a] * r[:, a]
        out.append(p)
    return out


def _frozen_phonons(case, atoms):
    import abtem
    seed = case["seed"]
    seed = int(seed) if isinstance(seed, int) else tuple(int(s) for s in seed)
    n = case["num_configs"] if isinstance(seed, int) else len(seed)
    return abtem.FrozenPhonons(atoms, num_configs=n, sigmas=_sigmas_arg(case), directions=case["directions"],
                               ensemble_mean=case["ensemble_mean"], seed=seed)


def _trajectory(case, atoms):
    rng = np.random.default_rng(case["traj_seed"])
    out = []
    for _ in range(case["num_configs"]):
        a = atoms.copy()
        a.positions += rng.normal(scale=0.15, size=a.positions.shape)
        out.append(a)
    return out


def _pot_kwargs(case, exit_planes=True):
    kw = dict(gpts=tuple(case["gpts"]), slice_thickness=case["slice_thickness"], projection=case["projection"])
    ep = case["exit_planes"]
    if exit_planes and ep is not None:
        kw["exit_planes"] = ep if isinstance(ep, int) else tuple(ep)
    return kw


def _builder(case):
    import abtem
    if case["builder"] == "plane":
        return abtem.PlaneWave(energy=case["energy"])
    return abtem.Probe(energy=case["energy"], semiangle_cutoff=case["semiangle"], defocus=case["defocus"])


def _scan(case, extent):
    import abtem
    s = case["scan"]
    if s["kind"] == "none":
        return None
    if s["kind"] == "custom":
        return abtem.CustomScan(np.array(s["pos"]) * np.array(extent))
    if s["kind"] == "line":
        return abtem.LineScan(start=(0.1 * extent[0], 0.2 * extent[1]), end=(0.8 * extent[0], 0.6 * extent[1]),
                              gpts=max(s["gpts"][0], 2), endpoint=s["endpoint"])
    return abtem.GridScan(start=(0.0, 0.0), end=(0.7 * extent[0], 0.9 * extent[1]), gpts=tuple(s["gpts"]),
                          endpoint=s["endpoint"])


def _detectors(case, cutoff):
    import abtem
    d = case["detector"]
    amax = 0.95 * cutoff

    def ann():
        return abtem.AnnularDetector(inner=0.2 * amax, outer=0.9 * amax)

    def pix():
        return abtem.PixelatedDetector(max_angle="valid")
    if d == "annular":
        return ann()
    if d == "flexible":
        return abtem.FlexibleAnnularDetector(step_size=amax / 6.0)
    if d == "pixelated":
        return pix()
    if d == "segmented":
        return abtem.SegmentedDetector(nbins_radial=2, nbins_azimuthal=3, inner=0.1 * amax, outer=0.8 * amax)
    if d == "two":
        return [ann(), pix()]
    return None


def _simulate(case, potential, lazy, max_batch="auto", compute=True):
    """Run the case's pipeline through `potential`; returns a list of (computed) array objects."""
    import abtem
    with warnings.catch_warnings():
        warnings.simplefilter("ignore")
        if case["builder"] == "smatrix":
            s = abtem.SMatrix(potential=potential, energy=case["energy"], semiangle_cutoff=case["semiangle"])
            cutoff = min(s.cutoff_angles)
            scan = _scan(case, potential.extent)
            if scan is None:
                scan = abtem.CustomScan(np.array([[0.3, 0.4]]) * np.array(potential.extent))
            out = s.scan(scan=scan, detectors=_detectors(case, cutoff), lazy=lazy, max_batch_multislice=max_batch)
        else:
            b = _builder(case)
            b.grid.match(potential)
            det = _detectors(case, min(b.cutoff_angles))
            if case["builder"] == "plane":
                out = b.multislice(potential, detectors=det, lazy=lazy, max_batch=max_batch)
            else:
                out = b.multislice(potential, scan=_scan(case, potential.extent), detectors=det, lazy=lazy,
                                   max_batch=max_batch)
        if lazy and compute:
            out = out.compute(scheduler="synchronous" if case.get("max_batch") == 1 else "threads")
    return list(out) if isinstance(out, (list, tuple)) else [out]


# --------------------------------------------------------------------------- seeds-only determinism
def _positions(seq):
    return [np.array(a.positions, dtype=np.float64) for a in seq]


def _same(ctx, got, want, clause, **detail):
    if not ctx.expect(len(got) == len(want), clause, reason="count", got=len(got), want=len(want), **detail):
        return False
    ok = True
    for k, (g, w) in enumerate(zip(got, want)):
        ok &= ctx.expect(g.shape == w.shape and np.array_equal(g, w), clause, config=k,
                         maxdiff=float(np.abs(g - w).max()) if g.shape == w.shape else None, **detail)
    return ok


def check_determinism(ctx, case, atoms, fp, configs):
    import abtem
    import dask
    n = len(fp)
    want = _positions(configs)
    seeds = [int(s) for s in fp.seed]
    ctx.expect(len(set(seeds)) == n == len(configs), "seeds-determine", seeds=seeds, n=n)
    if isinstance(case["seed"], list):
        ctx.equal(seeds, [int(s) for s in case["seed"]], "seeds-determine")

    # independent model of `randomize`
    model = displaced_model(case, atoms, seeds)
    for k in range(n):
        ctx.close(want[k], model[k], "displacement-model", rtol=0, atol=POS_ATOL, config=k)
        ctx.expect(np.array_equal(configs[k].numbers, atoms.numbers) and np.allclose(configs[k].cell.array, atoms.cell.array),
                   "displacement-model", config=k, what="numbers/cell changed")
    # directions not selected do not move at all
    fixed_axes = [a for a in range(3) if "xyz"[a] not in case["directions"].lower()]
    for k in range(n):
        for a in fixed_axes:
            ctx.expect(np.array_equal(want[k][:, a], atoms.positions[:, a]), "displacement-model", config=k, axis=a,
                       what="unselected direction displaced")

    # a fresh object with the same seeds (and nothing else shared) gives the same configurations
    fresh = abtem.FrozenPhonons(atoms.copy(), num_configs=n, sigmas=_sigmas_arg(case), directions=case["directions"],
                                ensemble_mean=not case["ensemble_mean"], seed=tuple(fp.seed))
    _same(ctx, _positions(list(fresh)), want, "seeds-determine", how="fresh-object")
    _same(ctx, _positions(list(fp)), want, "seeds-determine", how="second-iteration")
    _same(ctx, _positions(list(fp.copy())), want, "seeds-determine", how="copy")

    # chunking
    for c in sorted({1, 2, n, max(n - 1, 1)}):
        got, order = [], []
        for idx, sl, block in fp.generate_blocks(c):
            block = block.item()
            order.append((sl[0].start, sl[0].stop, len(block)))
            got += _positions(list(block))
        _same(ctx, got, want, "chunk-independence", how="generate_blocks", chunks=c)
        ctx.expect(all(b - a == m for a, b, m in order) and [o[0] for o in order] == sorted(o[0] for o in order)
                   and order[-1][1] == n, "chunk-independence", how="block-slices", chunks=c, order=order)
    chunk_sets = [1, n] if n < 3 else [1, 2, (1, n - 1)]
    for c in chunk_sets:
        for sched in ("synchronous", "threads"):
            blocks = fp.ensemble_blocks(c if isinstance(c, int) else (c,))
            with dask.config.set(scheduler=sched):
                objs = blocks.compute()
            got = []
            for o in objs:
                got += _positions(list(o))
            _same(ctx, got, want, "mode-independence", how="ensemble_blocks", chunks=c, scheduler=sched)
    # order of processing: reversed, repeated, interleaved single blocks (eager and lazy)
    single = [b.item() for _, _, b in fp.generate_blocks(1)]
    if ctx.expect(len(single) == n, "order-independence", got=len(single), want=n):
        got = {}
        for k in list(reversed(range(n))) + [0, n - 1, 0]:
            got[k] = np.array(single[k].randomize(single[k].atoms).positions, dtype=np.float64)
        _same(ctx, [got[k] for k in range(n)], want, "order-independence", how="reversed+repeated")
        lazy_blocks = fp.ensemble_blocks(1)
        got = {}
        for k in reversed(range(n)):
            o = lazy_blocks[k].compute(scheduler="synchronous")
            o = o.item() if hasattr(o, "item") else o
            got[k] = _positions(list(o))[0]
        _same(ctx, [got[k] for k in range(n)], want, "order-independence", how="lazy-reversed")
    # conversion keeps order and values
    _same(ctx, _positions(list(fp.to_atoms_ensemble())), want, "mode-independence", how="to_atoms_ensemble")
    # base atoms untouched
    ctx.expect(np.array_equal(fp.atoms.positions, atoms.positions), "seeds-determine", what="base atoms mutated")


def check_atoms_ensemble_order(ctx, ens, traj):
    want = _positions(traj)
    _same(ctx, _positions(list(ens)), want, "atoms-ensemble-order", how="iteration")
    n = len(traj)
    for c in sorted({1, 2, n}):
        got = []
        for _, _, block in ens.generate_blocks(c):
            got += _positions(list(block.item()))
        _same(ctx, got, want, "atoms-ensemble-order", how="generate_blocks", chunks=c)
        objs = ens.ensemble_blocks(c).compute(scheduler="synchronous")
        got = []
        for o in objs:
            got += _positions(list(o))
        _same(ctx, got, want, "atoms-ensemble-order", how="ensemble_blocks", chunks=c)


# --------------------------------------------------------------------------- comparison
def _axes_wo(obj, drop):
    ax = G.axes_dicts(obj)
    return [a for i, a in enumerate(ax) if i not in drop]


def compare_ensemble(ctx, case, got, refs, mean_expected):
    """got: computed array object of the ensemble run; refs: list (per configuration) of reference objects."""
    from abtem.core.axes import FrozenPhononsAxis
    n = len(refs)
    garr = G.to_numpy(got)
    r0 = G.to_numpy(refs[0])
    if not ctx.expect(type(got) is type(refs[0]), "member:axes", what="type", got=type(got).__name__,
                      want=type(refs[0]).__name__):
        return
    fax = [i for i, a in enumerate(got.axes_metadata) if isinstance(a, FrozenPhononsAxis)]
    scale = max(float(max(np.abs(G.to_numpy(r)).max() for r in refs)), 1e-30)
    if mean_expected:
        if not ctx.expect(len(fax) == 0 and garr.shape == r0.shape, "config-axis", what="mean must remove the axis",
                          shape=list(garr.shape), want=list(r0.shape), axes=[type(a).__name__ for a in got.axes_metadata]):
            return
        want = np.mean(np.stack([G.to_numpy(r).astype(np.complex128 if np.iscomplexobj(r0) else np.float64)
                                 for r in refs]), axis=0)
        ctx.close(garr, want, "mean:values", rtol=RTOL, atol=ATOL_REL * scale, n=n)
        ctx.expect(G.approx_struct(G.axes_dicts(got), G.axes_dicts(refs[0])), "member:axes", got=G.axes_dicts(got),
                   want=G.axes_dicts(refs[0]))
        ctx.monitor("mean-compared")
        return
    if not ctx.expect(len(fax) == 1 and fax[0] == 0 and garr.shape == (n,) + r0.shape, "config-axis",
                      shape=list(garr.shape), want=[n] + list(r0.shape),
                      axes=[type(a).__name__ for a in got.axes_metadata]):
        return
    ctx.expect(G.approx_struct(_axes_wo(got, {0}), G.axes_dicts(refs[0])), "member:axes", got=_axes_wo(got, {0}),
               want=G.axes_dicts(refs[0]))
    ctx.expect(garr.dtype == r0.dtype, "member:axes", what="dtype", got=str(garr.dtype), want=str(r0.dtype))
    for k in range(n):
        ctx.close(garr[k], G.to_numpy(refs[k]), "member:values", rtol=RTOL, atol=ATOL_REL * scale, config=k, n=n)
        ctx.monitor("members-compared")


# --------------------------------------------------------------------------- several lazy ensembles in one dask graph
def _twin_ensemble(case, atoms, fp, n):
    """A second ensemble of the same kind, shape and seeds over *different* atoms (same species and cell)."""
    import abtem
    import dask
    rng = np.random.default_rng(case["traj_seed"] + 17)
    source = case["source"]
    how = case.get("joint", "atoms")
    if fp is not None and source != "to_atoms_ensemble":
        atoms2 = atoms.copy()
        sig = _sigmas_arg(case)
        if how == "sigmas" and isinstance(sig, float):
            sig = 2.5 * sig                                   # same atoms and seeds, other displacements
        else:
            atoms2.positions += rng.normal(scale=0.4, size=atoms2.positions.shape)
        return abtem.FrozenPhonons(atoms2, num_configs=n, sigmas=sig, directions=case["directions"],
                                   ensemble_mean=case["ensemble_mean"], seed=tuple(fp.seed))
    traj = []
    for _ in range(n):
        a = atoms.copy()
        a.positions += rng.normal(scale=0.4, size=a.positions.shape)
        traj.append(a)
    if source == "atoms_list":
        return traj
    if source == "delayed":
        return abtem.AtomsEnsemble([dask.delayed(a) for a in traj], ensemble_mean=case["ensemble_mean"])
    return abtem.AtomsEnsemble(traj, ensemble_mean=case["ensemble_mean"])


def check_joint_compute(ctx, case, atoms, fp, ens, refs, ens_mean, kw, n):
    """Two lazy ensemble simulations evaluated in ONE dask.compute call (and their lazy difference) must equal their
    separate evaluation; the separately evaluated primary is also held against the per-configuration runs."""
    import abtem
    import dask
    twin = _twin_ensemble(case, atoms, fp, n)
    pots = [abtem.Potential(ens, **kw), abtem.Potential(twin, **kw)]
    mb = "auto" if case["builder"] == "smatrix" else case["max_batch"]     # per-plane-wave S-matrix graphs are huge
    lazy = [_simulate(case, p, True, mb, compute=False) for p in pots]
    if not ctx.expect(len(lazy[0]) == len(lazy[1]) and all(getattr(o, "is_lazy", False) for l in lazy for o in l),
                      "joint-compute:values", what="lazy outputs"):
        return
    with warnings.catch_warnings():
        warnings.simplefilter("ignore")
        arrays = [o.array for l in lazy for o in l]
        diffs = [b.array - a.array for a, b in zip(lazy[0], lazy[1]) if a.shape == b.shape]
        if not ctx.expect(all(hasattr(a, "dask") for a in arrays), "joint-compute:values", what="dask arrays"):
            return
        joint = dask.compute(*(arrays + diffs), scheduler=str(case.get("joint_scheduler", "threads")))
        # (abTEM's compute() works in place, so the separate evaluation comes after the joint one, one graph per call)
        separate = [[o.compute(scheduler="synchronous") for o in l] for l in lazy]
    m = len(lazy[0])
    flat_sep = [G.to_numpy(o) for l in separate for o in l]
    for k, (j, s_) in enumerate(zip(joint[:2 * m], flat_sep)):
        scale = max(float(np.abs(s_).max()), 1e-30)
        ctx.close(np.asarray(j), s_, "joint-compute:values", rtol=RTOL, atol=ATOL_REL * scale, which="primary" if k < m else "twin",
                  output=k % m)
    for k, d in enumerate(joint[2 * m:]):
        want = flat_sep[m + k] - flat_sep[k]
        scale = max(float(np.abs(flat_sep[k]).max()), 1e-30)
        ctx.close(np.asarray(d), want, "joint-compute:values", rtol=RTOL, atol=2 * ATOL_REL * scale, which="lazy difference", output=k)
    differs = any(a.shape == b.shape and np.abs(a - b).max() > 1e-3 * max(np.abs(a).max(), 1e-30)
                  for a, b in zip(flat_sep[:m], flat_sep[m:]))
    ctx.monitor("joint-computes")
    if not differs:
        ctx.note("joint-twin-indistinguishable")
    # anchor: the separately evaluated lazy primary against the independent single-configuration runs
    for jx, g in enumerate(separate[0]):
        is_meas = not isinstance(g, abtem.Waves) and type(g).__name__ != "SMatrixArray"
        compare_ensemble(ctx, case, g, [r[jx] for r in refs], mean_expected=ens_mean and is_meas)


# --------------------------------------------------------------------------- check
def check(ctx, case):
    import abtem
    import dask
    from abtem.inelastic import phonons as ph
    atoms = G.atoms_from(case["cell"])
    source = case["source"]
    kw = _pot_kwargs(case)
    fp = None

    if source in ("fp", "smatrix", "to_atoms_ensemble"):
        fp = _frozen_phonons(case, atoms)
        configs = list(fp)
        check_determinism(ctx, case, atoms, fp, configs)
        ens = fp.to_atoms_ensemble() if source == "to_atoms_ensemble" else fp
        if source == "to_atoms_ensemble":
            ens = abtem.AtomsEnsemble(ens.trajectory, ensemble_mean=case["ensemble_mean"])
    else:
        configs = _trajectory(case, atoms)
        if source == "atoms_list":
            ens = [c.copy() for c in configs]            # Potential wraps a list into an AtomsEnsemble (mean=True)
        elif source == "delayed":
            ens = abtem.AtomsEnsemble([dask.delayed(c.copy()) for c in configs], ensemble_mean=case["ensemble_mean"])
        else:
            ens = abtem.AtomsEnsemble([c.copy() for c in configs], ensemble_mean=case["ensemble_mean"])
        if source != "atoms_list":
            check_atoms_ensemble_order(ctx, ens, configs)
    n = len(configs)
    ens_mean = True if source == "atoms_list" else case["ensemble_mean"]

    pot = abtem.Potential(ens, **kw)
    ctx.expect(pot.num_configurations == n, "config-axis", what="num_configurations", got=pot.num_configurations, want=n)
    ctx.nontrivial(n >= 2 and pot.num_slices >= 2)

    # ---- the ensemble run, with a monitor on every randomize call abTEM makes inside it
    seen = []
    with G.Wrapped() as w:
        if fp is not None and source != "to_atoms_ensemble":
            def make(orig):
                def randomize(self, atoms_in):
                    out = orig(self, atoms_in)
                    seen.append((tuple(int(s) for s in self.seed), np.array(atoms_in.positions), np.array(out.positions)))
                    return out
                return randomize
            w.patch(ph.FrozenPhonons, "randomize", make)
        got = _simulate(case, pot, case["lazy"], case["max_batch"])

    if fp is not None and source != "to_atoms_ensemble":
        ctx.monitor("randomize-calls-in-pipeline", len(seen))
        seeds = [int(s) for s in fp.seed]
        want = _positions(configs)
        used = set()
        for sd, pin, pout in seen:
            if len(sd) != 1 or sd[0] not in seeds:
                ctx.expect(False, "pipeline-displacements", what="pipeline randomized a block that is not one configuration",
                           seeds=list(sd))
                continue
            k = seeds.index(sd[0])
            used.add(k)
            if pin.shape == want[k].shape and np.array_equal(pin, atoms.positions):
                ctx.expect(np.array_equal(pout, want[k]), "pipeline-displacements", config=k,
                           maxdiff=float(np.abs(pout - want[k]).max()))
            else:
                ctx.note("pipeline-randomize-on-transformed-atoms")
        if seen:
            ctx.expect(used == set(range(n)), "pipeline-displacements", what="configurations generated in the pipeline",
                       used=sorted(used), n=n)

    # ---- decomposition: every configuration alone, eager, from the same incident wave
    refs = []
    for k in range(n):
        single = abtem.Potential(configs[k].copy(), **kw)
        refs.append(_simulate(case, single, False))
    if not ctx.expect(all(len(r) == len(got) for r in refs), "config-axis", what="number of outputs", got=len(got),
                      want=len(refs[0])):
        return
    for j, g in enumerate(got):
        is_meas = not isinstance(g, abtem.Waves) and type(g).__name__ != "SMatrixArray"
        compare_ensemble(ctx, case, g, [r[j] for r in refs], mean_expected=ens_mean and is_meas)

    if case.get("joint"):
        check_joint_compute(ctx, case, atoms, fp, ens if source != "atoms_list" else [c.copy() for c in configs], refs,
                            ens_mean, kw, n)

    # ---- SMatrix: the built scattering matrices themselves carry the configuration axis
    if case["builder"] == "smatrix":
        with warnings.catch_warnings():
            warnings.simplefilter("ignore")
            s = abtem.SMatrix(potential=pot, energy=case["energy"], semiangle_cutoff=case["semiangle"])
            sa = s.build(lazy=case["lazy"])
            sa = sa.compute() if case["lazy"] else sa
            srefs = [abtem.SMatrix(potential=abtem.Potential(configs[k].copy(), **kw), energy=case["energy"],
                                   semiangle_cutoff=case["semiangle"]).build(lazy=False) for k in range(n)]
        compare_ensemble(ctx, case, sa, srefs, mean_expected=False)
        ctx.monitor("smatrix-cases")
