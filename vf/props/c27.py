"""C27 Structure factors respect crystal symmetry.

A case builds a crystal = (lattice translations of a true centering P/I/F/A/B/C, or a doubled cell) x (random basis)
in a cubic / orthorhombic / hexagonal / triclinic cell with thermal sigmas (isotropic, anisotropic, per element, per
atom), occupancies, parametrization, cut-off and g_max, and runs the real `abtem.StructureFactor` with
centering "P", "auto" and the explicit centering.  Monitors:

  * friedel                      F(-h) == conj F(h) for every reflection of the built StructureFactorArray;
  * forbidden-reflections-zero   every reflection that abTEM *omits* because of the (detected or given) centering has
                                 |F| <= tol in the complete (centering "P") calculation, the reflections it keeps carry
                                 the same values, and the reflections forbidden by the true centering (standard
                                 conditions: I h+k+l odd, F mixed parity, A k+l odd, B h+l odd, C h+k odd, evaluated
                                 here) vanish in the complete calculation;
  * reflection-condition         `get_reflection_condition(hkl, X)` == the standard condition evaluated here;
  * potential-real / -fourier-sum / -periodic
                                 Im ifftn(F_3d) == 0; `get_potential_3d` (eager and lazy) == direct Fourier synthesis
                                 (1/kappa) sum_h F_h exp(2 pi i h.x) with the *complete* set of reflections, up to the
                                 constant abTEM subtracts; the structure factors of an n1 x n2 x n3 supercell are those of
                                 the cell at (n1 h, n2 k, n3 l) and zero elsewhere (periodicity with the primitive period);
  * lattice-translation          adding an integer lattice vector to all atoms (and different lattice vectors to
                                 individual atoms) leaves hkl and F unchanged;
  * structure-factor-model       (auxiliary) F == float64 reference (1/V) sum_j occ_j f_j(g) DWF_j(g) w(g) exp(-2 pi i h.x_j)
                                 assembled here (catches phase sign, volume, Debye-Waller and cut-off errors);
  * lazy-build                   (auxiliary) build(lazy=True).compute() == build(lazy=False).
  * atom-order-invariance        F of the same crystal with the atom list (and per-atom sigmas/occupancies) permuted is
                                 unchanged; per-element / per-atom values contain exact zeros, ones and repeated values;
  * joint-compute                2-4 lazy results (this crystal, a rigidly displaced copy, a copy with other elements, the
                                 translated copy; structure factors and 3-D potentials) evaluated in ONE dask.compute call
                                 == their separate evaluation (no dask key collisions between objects).
"""
import math

import numpy as np

from vf import gen as G

PROPERTY = "C27"
TECHNIQUE = "runtime monitoring; symmetry relations on StructureFactorArray values + differential runs (centering P vs auto vs explicit, translated atoms, supercell) + float64 direct Fourier-sum reference"
RULE = ("cell cubic/orthorhombic/hexagonal/triclinic (2.5-7 A); true centering P/I/F/A/B/C (standard translations) or a cell "
        "doubled along a/b/c; basis 1-3 random atoms of 1-2 elements; sigma none/scalar/per-element/anisotropic/per-atom "
        "(repeated by the lattice translations or free); occupancy 1/scalar/per-element/per-atom; parametrization lobato/kirkland/peng; cut-off taper/hard; g_max for 300-5000 "
        "reflections; centering argument auto/explicit/P; lattice translation in [-3,3]^3 or up to 12; float64 (75%) or "
        "float32; non-trivial = >= 2 atoms or a centred lattice, >= 100 reflections; distinct = distinct case signature")
CLAUSES = ["friedel", "forbidden-reflections-zero", "reflection-condition", "potential-real", "potential-fourier-sum",
           "potential-periodic", "lattice-translation", "structure-factor-model", "lazy-build", "centered-lattices-exercised",
           "atom-order-invariance", "joint-compute", "zero-sigma-mixed-exercised"]
QUICK = dict(n=64, time=45)
THOROUGH = dict(n=31250, time=480, shards=16)
ASSUMPTIONS = ["centring names follow the International Tables (A: (0,1/2,1/2), B: (1/2,0,1/2), C: (1/2,1/2,0))",
               "a lattice whose translation-related atoms carry different per-atom sigmas/occupancies is primitive"]

H, ME, E = 6.626070040e-34, 9.10938356e-31, 1.6021766208e-19
KAPPA = 1.0 / (H ** 2 / (2 * np.pi * ME * E) * 1e20)

TRANSLATIONS = {
    "P": [(0, 0, 0)],
    "I": [(0, 0, 0), (.5, .5, .5)],
    "F": [(0, 0, 0), (0, .5, .5), (.5, 0, .5), (.5, .5, 0)],
    "A": [(0, 0, 0), (0, .5, .5)],
    "B": [(0, 0, 0), (.5, 0, .5)],
    "C": [(0, 0, 0), (.5, .5, 0)],
    # doubled cells (not centrings): the second atom set is half a cell edge away
    "2a": [(0, 0, 0), (.5, 0, 0)],
    "2b": [(0, 0, 0), (0, .5, 0)],
    "2c": [(0, 0, 0), (0, 0, .5)],
}
ELEMENTS = ["C", "Si", "O", "Au", "Ti", "Sr", "N", "Cu", "Al", "Mo", "S", "Fe"]


def allowed(hkl, name):
    """Standard reflection conditions (International Tables) / exact condition of the doubled cells."""
    h, k, l = hkl[:, 0], hkl[:, 1], hkl[:, 2]
    if name == "P":
        return np.ones(len(hkl), dtype=bool)
    if name == "I":
        return (h + k + l) % 2 == 0
    if name == "F":
        return ((h % 2) == (k % 2)) & ((k % 2) == (l % 2))
    if name == "A":
        return (k + l) % 2 == 0
    if name == "B":
        return (h + l) % 2 == 0
    if name == "C":
        return (h + k) % 2 == 0
    return {"2a": h, "2b": k, "2c": l}[name] % 2 == 0


def gen(rng, tier):
    kind = str(rng.choice(["cubic", "ortho", "ortho", "hex", "triclinic"]))
    a = float(rng.uniform(2.5, 6.0))
    if kind == "cubic":
        cell = [[a, 0, 0], [0, a, 0], [0, 0, a]]
    elif kind == "ortho":
        cell = [[a, 0, 0], [0, float(rng.uniform(2.5, 7.0)), 0], [0, 0, float(rng.uniform(2.5, 7.0))]]
    elif kind == "hex":
        cell = [[a, 0, 0], [-a / 2, a * math.sqrt(3) / 2, 0], [0, 0, a * float(rng.uniform(1.4, 1.8))]]
    else:
        cell = [[a, 0, 0], [float(rng.uniform(-1, 1)), float(rng.uniform(2.5, 6.0)), 0],
                [float(rng.uniform(-1, 1)), float(rng.uniform(-1, 1)), float(rng.uniform(2.5, 6.0))]]
    lattice = str(rng.choice(["P", "I", "F", "A", "B", "C", "2a", "2b", "2c"]))
    els = [str(e) for e in rng.choice(ELEMENTS, size=2, replace=False)]
    nb = int(rng.integers(1, 4))
    basis = [[int(rng.integers(0, 2)), rng.random(3).round(4).tolist()] for _ in range(nb)]
    used = sorted({els[i] for i, _ in basis})
    sk = str(rng.choice(["none", "scalar", "element", "aniso", "aniso-element", "atom", "atom-aniso", "atom-free"]))
    nt = len(TRANSLATIONS[lattice])

    def sig(size=None):
        """sigmas with exact zeros (atoms at rest) and repeated values mixed in"""
        v = np.atleast_1d(rng.uniform(0.02, 0.2, size=size)).round(4)
        v = np.where(rng.random(v.shape) < 0.35, 0.0, v)
        if v.ndim == 2:                          # whole atoms at rest as well as single components
            v[rng.random(len(v)) < 0.3] = 0.0
        if v.size > 1 and rng.random() < 0.2:
            v.flat[-1] = v.flat[0]
        return v.tolist()
    if sk == "none":
        sigma = 0.0
    elif sk == "scalar":
        sigma = float(rng.uniform(0.03, 0.2))
    elif sk == "element":
        sigma = {e: sig()[0] for e in els}
    elif sk == "aniso":
        sigma = ["tuple", rng.uniform(0.02, 0.2, size=3).round(4).tolist()]
    elif sk == "aniso-element":
        sigma = dict(zip(els, sig((2, 3))))
    elif sk == "atom":
        sigma = ["basis", sig(nb)]
    elif sk == "atom-aniso":
        sigma = ["basis", sig((nb, 3))]
    else:       # one value per atom, not repeated by the lattice translations: the decorated crystal is primitive
        sigma = ["atoms", sig(nb * nt)]
    ok = str(rng.choice(["one", "one", "scalar", "element", "atom", "atom-free"]))
    if ok == "one":
        occ = 1.0
    elif ok == "scalar":
        occ = float(rng.uniform(0.3, 1.0))
    elif ok == "element":
        occ = {e: float(rng.choice([1.0, 0.0, float(rng.uniform(0.3, 1.0))])) for e in els}
        if not any(occ[e] > 0 for e in used):
            occ[used[0]] = 1.0
    elif ok == "atom":
        occ = ["basis", np.where(rng.random(nb) < 0.3, 1.0, rng.uniform(0.3, 1.0, size=nb)).round(4).tolist()]
    else:
        occ = ["atoms", rng.uniform(0.3, 1.0, size=nb * nt).round(4).tolist()]
    vol = abs(float(np.linalg.det(np.array(cell))))
    target = float(10 ** rng.uniform(math.log10(300), math.log10(5000 if tier == "thorough" else 2500)))
    g_max = float(np.clip((target * 3 / (4 * math.pi * vol)) ** (1 / 3), 0.6, 6.0))
    big = rng.random() < 0.2
    shift = [int(v) for v in rng.integers(-12 if big else -3, (12 if big else 3) + 1, size=3)]
    if not any(shift):
        shift[int(rng.integers(0, 3))] = 1
    return {
        "cell_kind": kind, "cell": cell, "lattice": lattice, "elements": els, "basis": basis, "used": used,
        "sigma": sigma, "occupancy": occ, "parametrization": str(rng.choice(["lobato", "lobato", "kirkland", "peng"])),
        "cutoff": str(rng.choice(["taper", "taper", "hard"])), "g_max": g_max,
        "centering_arg": str(rng.choice(["auto", "auto", "explicit"])),
        "shift": shift, "per_atom_shift": bool(rng.random() < 0.4), "shuffle_seed": int(rng.integers(0, 2 ** 31)),
        "supercell": [int(v) for v in rng.permutation([1, 1, int(rng.integers(2, 4))])] if rng.random() < 0.35 else None,
        "lazy": bool(rng.random() < 0.5), "precision": "float32" if rng.random() < 0.25 else "float64",
    }


def fixed_cases(tier):
    out = []
    for i, lattice in enumerate(["P", "I", "F", "A", "B", "C", "2a", "2b", "2c"]):
        for arg in (("explicit", "auto") if lattice in "IFABC" else ("auto",)):
            out.append({
                "cell_kind": "ortho", "cell": [[3.1, 0, 0], [0, 3.9, 0], [0, 0, 4.6]], "lattice": lattice,
                "elements": ["Si", "O"], "basis": [[0, [0.11, 0.23, 0.07]], [1, [0.41, 0.67, 0.29]]], "used": ["O", "Si"],
                "sigma": 0.07 if i % 2 else 0.0, "occupancy": 1.0, "parametrization": "lobato", "cutoff": "taper",
                "g_max": 2.2, "centering_arg": arg, "shift": [1, -2, 3], "per_atom_shift": False, "shuffle_seed": i,
                "supercell": [2, 1, 1] if lattice == "P" else None, "lazy": bool(i % 2), "precision": "float64"})
    # rocksalt with one sub-lattice at rest: per-element / per-atom / anisotropic sigmas containing exact zeros, in three
    # different atom orders (an atom at rest listed after a vibrating one and vice versa)
    nacl = {"cell_kind": "cubic", "cell": [[5.64, 0, 0], [0, 5.64, 0], [0, 0, 5.64]], "lattice": "F", "elements": ["Na", "Cl"],
            "basis": [[0, [0.0, 0.0, 0.0]], [1, [0.5, 0.5, 0.5]]], "used": ["Cl", "Na"], "occupancy": 1.0,
            "parametrization": "lobato", "cutoff": "taper", "g_max": 2.0, "shift": [2, 0, -1], "per_atom_shift": True,
            "supercell": None, "precision": "float64"}
    for j, sg in enumerate([{"Na": 0.0, "Cl": 0.12}, {"Na": 0.1, "Cl": 0.0}, ["basis", [0.0, 0.12]], ["basis", [0.09, 0.0]],
                            {"Na": [0.0, 0.0, 0.0], "Cl": [0.1, 0.05, 0.02]}, ["basis", [[0.1, 0.0, 0.03], [0.0, 0.0, 0.0]]]]):
        out.append(dict(nacl, sigma=sg, shuffle_seed=100 + j, centering_arg="auto" if j % 2 else "explicit", lazy=bool(j % 2)))
    return out


# ------------------------------------------------------------------------------------------ builders
def build(case):
    """atoms, per-atom sigma (n,) or (n,3) array, per-atom occupancy, kwargs for StructureFactor."""
    from ase import Atoms
    trans = np.array(TRANSLATIONS[case["lattice"]], dtype=float)
    els = case["elements"]
    nb = len(case["basis"])
    sym, pos, bidx = [], [], []
    for t in trans:
        for j, (ei, p) in enumerate(case["basis"]):
            sym.append(els[ei])
            pos.append((np.array(p) + t) % 1.0)
            bidx.append(j)
    order = np.random.default_rng(case["shuffle_seed"]).permutation(len(sym))
    sym = [sym[i] for i in order]
    pos = np.array(pos)[order]
    bidx = np.array(bidx)[order]
    atoms = Atoms(sym, scaled_positions=pos, cell=np.array(case["cell"], dtype=float), pbc=True)
    n = len(atoms)

    s = case["sigma"]
    if isinstance(s, float):
        s_arg, s_arr = s, np.full(n, s)
    elif isinstance(s, dict):
        s_arg = {k: (tuple(v) if isinstance(v, list) else v) for k, v in s.items() if k in sym}
        s_arr = np.array([s[e] for e in sym], dtype=float)
    elif s[0] == "tuple":
        s_arg, s_arr = tuple(float(v) for v in s[1]), np.tile(np.array(s[1], dtype=float), (n, 1))
    elif s[0] == "basis":
        s_arr = np.array(s[1], dtype=float)[bidx]
        s_arg = s_arr.copy()
    else:
        s_arr = np.array(s[1], dtype=float)
        s_arg = s_arr.copy()
    o = case["occupancy"]
    if isinstance(o, float):
        o_arg, o_arr = o, np.full(n, o)
    elif isinstance(o, dict):
        o_arg = {k: v for k, v in o.items() if k in sym}
        o_arr = np.array([o[e] for e in sym], dtype=float)
    elif o[0] == "basis":
        o_arr = np.array(o[1], dtype=float)[bidx]
        o_arg = o_arr.copy()
    else:
        o_arr = np.array(o[1], dtype=float)
        o_arg = o_arr.copy()
    kw = dict(g_max=case["g_max"], parametrization=case["parametrization"], thermal_sigma=s_arg, occupancy=o_arg,
              cutoff=case["cutoff"])
    return atoms, s_arr, o_arr, kw


def reference_F(atoms, hkl, s_arr, o_arr, case):
    """float64 structure factors assembled here; only the radial scattering-factor callable is abTEM's (see C25)."""
    from abtem.parametrizations import validate_parametrization
    par = validate_parametrization(case["parametrization"])
    cell = np.asarray(atoms.cell.array, dtype=np.float64)
    rec = np.linalg.inv(cell).T
    hkl = np.asarray(hkl, dtype=np.float64)
    g = hkl @ rec
    g2 = (g ** 2).sum(1)
    gl = np.sqrt(g2)
    x = np.linalg.solve(cell.T, np.asarray(atoms.positions, dtype=np.float64).T).T
    vol = abs(np.linalg.det(cell))
    if case["cutoff"] == "taper":
        with np.errstate(over="ignore"):
            w = 1.0 / (1.0 + np.exp((gl / case["g_max"] - 0.95) / 0.005))
    else:
        w = (gl <= case["g_max"]).astype(np.float64)
    F = np.zeros(len(hkl), dtype=np.complex128)
    fcache = {}
    for j, sym in enumerate(atoms.get_chemical_symbols()):
        if sym not in fcache:
            fcache[sym] = np.asarray(par.scattering_factor(sym)(g2), dtype=np.float64)
        sj = s_arr[j]
        if np.ndim(sj) == 0:
            dwf = np.exp(-2 * np.pi ** 2 * float(sj) ** 2 * g2)
        else:
            dwf = np.exp(-2 * np.pi ** 2 * ((g ** 2) @ (np.asarray(sj) ** 2)))
        F += o_arr[j] * fcache[sym] * dwf * np.exp(-2j * np.pi * (hkl @ x[j]))
    return F * w / vol


def values(sfa):
    a = sfa.array
    if hasattr(a, "compute"):
        a = a.compute(scheduler="synchronous")
    return np.asarray(a)


def as_dict(hkl, F):
    return {tuple(int(v) for v in h): complex(f) for h, f in zip(np.asarray(hkl), F)}


# ------------------------------------------------------------------------------------------ check
def check(ctx, case):
    import warnings
    with warnings.catch_warnings():
        warnings.simplefilter("ignore")
        with G.precision(case["precision"]):
            _check(ctx, case)


def attempt(ctx, name, fn):
    """Run one stage of the workload; an exception inside the property's domain is a violation of that stage."""
    from vf.harness import CaseTimeout, Refuted
    import traceback
    try:
        return True, fn()
    except (CaseTimeout, Refuted):
        raise
    except Exception as e:
        ctx.expect(False, "no-exception:" + name, error=repr(e)[:300], tb=traceback.format_exc()[-900:])
        return False, None


def _check(ctx, case):
    from abtem.bloch import StructureFactor
    from abtem.bloch.utils import get_reflection_condition
    f32 = case["precision"] == "float32"
    atoms, s_arr, o_arr, kw = build(case)
    lattice = case["lattice"]
    # per-atom values that are not repeated by the lattice translations make the decorated crystal primitive
    broken = lattice != "P" and any(isinstance(case[k], list) and case[k][0] == "atoms" for k in ("sigma", "occupancy"))
    true_lattice = "P" if broken else lattice
    true_centering = true_lattice if true_lattice in "PIFABC" else "P"

    # ---------------- complete calculation (centering "P"): Friedel, model, true extinctions
    sfP = StructureFactor(atoms, centering="P", **kw)
    aP = sfP.build(lazy=False)
    hklP = np.asarray(aP.hkl)
    FP = values(aP).astype(np.complex128)
    dP = as_dict(hklP, FP)
    fmax = float(np.abs(FP).max())
    hsum = float(np.abs(hklP).sum(1).max())
    nmax = float(max(abs(v) for v in case["shift"]))
    rel = (8 * 2 * np.pi * 6e-8 * (hsum + 1)) if f32 else 1e-11
    tol = rel * fmax
    ctx.nontrivial((len(atoms) >= 2) and len(hklP) >= 100)

    neg = np.array([dP.get((-h[0], -h[1], -h[2]), np.nan) for h in hklP])
    ctx.expect(not np.isnan(neg).any(), "friedel", what="-h missing from the reflection list",
               missing=int(np.isnan(neg).sum()))
    ctx.close(np.nan_to_num(neg), np.conj(FP), "friedel", rtol=0, atol=tol, n=len(hklP))

    Fref = reference_F(atoms, hklP, s_arr, o_arr, case)
    ctx.close(FP, Fref, "structure-factor-model", rtol=0, atol=(4 * tol if f32 else 1e-9 * fmax), n=len(hklP))

    # ---------------- the atom order is immaterial (per-atom values move with their atoms)
    flat = np.asarray(s_arr, dtype=float).reshape(len(atoms), -1)
    at_rest = (flat == 0).all(axis=1)
    if at_rest.any() and not at_rest.all():
        first_moving = int(np.argmax(~at_rest))
        ctx.expect(True, "zero-sigma-mixed-exercised")
        ctx.monitor("rest-atom-after-vibrating-atom", int(at_rest[first_moving:].any()))

    def permuted():
        prng = np.random.default_rng(case["shuffle_seed"] + 7)
        for perm in (np.arange(len(atoms))[::-1], prng.permutation(len(atoms))):
            kwp = dict(kw)
            for key in ("thermal_sigma", "occupancy"):
                if isinstance(kw[key], np.ndarray):
                    kwp[key] = kw[key][perm]
            aQ = StructureFactor(atoms[perm], centering="P", **kwp).build(lazy=False)
            ctx.expect(np.array_equal(np.asarray(aQ.hkl), hklP), "atom-order-invariance", what="hkl differ")
            ctx.close(values(aQ), FP, "atom-order-invariance", rtol=0, atol=(4 * tol if f32 else 1e-9 * fmax),
                      perm=perm.tolist())
    if len(atoms) > 1:
        attempt(ctx, "permuted", permuted)
    else:
        ctx.clauses["atom-order-invariance"] += 0

    forb = ~allowed(hklP, true_lattice)
    if true_lattice != "P":
        ctx.expect(forb.any(), "centered-lattices-exercised", what="no forbidden reflection within g_max")
        ctx.close(FP[forb], np.zeros(int(forb.sum())), "forbidden-reflections-zero", rtol=0, atol=tol,
                  what="true extinctions in the complete calculation", lattice=lattice)
        ctx.monitor("forbidden-reflections-checked", int(forb.sum()))

    # ---------------- abTEM's own notion of forbidden reflections
    if lattice in ("I", "F", "A", "B", "C"):
        def cond():
            mask = np.asarray(get_reflection_condition(hklP, lattice))
            good = mask.shape == (len(hklP),)
            ctx.expect(good and np.array_equal(mask.astype(bool), allowed(hklP, lattice)), "reflection-condition",
                       centering=lattice, shape=list(mask.shape))
            lower = np.asarray(get_reflection_condition(hklP, lattice.lower()))
            ctx.expect(np.array_equal(lower, mask), "reflection-condition", what="lower-case centering differs")
        attempt(ctx, "get_reflection_condition", cond)

    arg = true_centering if case["centering_arg"] == "explicit" else "auto"

    def with_centering():
        sf = StructureFactor(atoms, centering=arg, **kw)
        return sf, sf.build(lazy=case["lazy"])
    ok, res = attempt(ctx, "StructureFactor(centering=%s)" % ("auto" if arg == "auto" else "explicit"), with_centering)
    if not ok:
        return
    sfX, aX = res
    ctx.note("detected-%s-for-%s%s" % (sfX.centering, lattice, "-broken" if broken else ""))
    hklX = np.asarray(aX.hkl)
    FX = values(aX).astype(np.complex128)
    keep = np.array([tuple(int(v) for v in h) in dP for h in hklX], dtype=bool)
    ctx.expect(keep.all(), "forbidden-reflections-zero", what="reflection outside the complete list", n=int((~keep).sum()))
    dX = as_dict(hklX, FX)
    dropped = np.array([tuple(int(v) for v in h) not in dX for h in hklP], dtype=bool)
    ctx.close(FP[dropped], np.zeros(int(dropped.sum())), "forbidden-reflections-zero", rtol=0, atol=tol,
              what="reflections omitted by StructureFactor(centering=%r) [detected %r]" % (arg, sfX.centering),
              lattice=lattice, omitted=int(dropped.sum()), per_atom_values_break_centering=broken)
    ctx.close(FX[keep], np.array([dP[tuple(int(v) for v in h)] for h in hklX[keep]]), "forbidden-reflections-zero",
              rtol=0, atol=tol, what="kept reflections differ from the complete calculation")
    if dropped.any():
        ctx.monitor("omitted-reflections-checked", int(dropped.sum()))
        ctx.expect(True, "centered-lattices-exercised")

    # lazy build == eager build
    aL = sfX.build(lazy=not case["lazy"])
    ctx.expect(np.array_equal(np.asarray(aL.hkl), hklX), "lazy-build", what="hkl differ")
    ctx.close(values(aL), FX, "lazy-build", rtol=0, atol=(tol if f32 else 1e-13 * fmax))

    # ---------------- potential: real, equals the Fourier synthesis of the complete reflection set
    F3 = np.asarray(aX.to_3d_array().compute(scheduler="synchronous") if aX.is_lazy else aX.to_3d_array())
    ctx.expect(F3.shape == tuple(aX.gpts) and all(n % 2 == 1 for n in F3.shape), "potential-real", shape=list(F3.shape))
    raw = np.fft.ifftn(F3.astype(np.complex128)) * F3.size / KAPPA
    scale = float(np.abs(raw).max())
    ctx.close(raw.imag, np.zeros(raw.shape), "potential-real", rtol=0, atol=(rel * 10 if f32 else 1e-11) * scale)
    pot = sfX.get_potential_3d(lazy=case["lazy"])
    if hasattr(pot, "compute"):
        pot = pot.compute(scheduler="synchronous")
    pot = np.asarray(pot)
    ctx.expect(pot.shape == F3.shape and not np.iscomplexobj(pot) and np.isfinite(pot).all(), "potential-real",
               shape=list(pot.shape), dtype=str(pot.dtype))
    prng = np.random.default_rng(case["shuffle_seed"] + 1)
    npts = 160
    idx = np.stack([prng.integers(0, n, size=npts) for n in pot.shape], axis=1)
    frac = idx / np.array(pot.shape, dtype=np.float64)
    hf = hklP.T.astype(np.float64)
    vref = (np.exp(2j * np.pi * (frac @ hf)) @ FP) / KAPPA
    ctx.close(vref.imag, np.zeros(npts), "potential-real", rtol=0, atol=(rel * 10 if f32 else 1e-11) * scale,
              what="direct Fourier synthesis")
    got = pot[idx[:, 0], idx[:, 1], idx[:, 2]].astype(np.float64)
    ctx.close(got - got[0], vref.real - vref.real[0], "potential-fourier-sum", rtol=0,
              atol=(rel * 20 if f32 else 1e-10) * scale, detected=sfX.centering, lattice=lattice)
    ctx.close(float(pot.min()), 0.0, "potential-fourier-sum", rtol=0, atol=1e-12 + (1e-5 if f32 else 0) * scale,
              what="minimum is the zero level")
    # periodic images of the sample points give the same value (Fourier synthesis with integer hkl)
    img = frac + prng.integers(-3, 4, size=frac.shape)
    vimg = (np.exp(2j * np.pi * (img @ hf)) @ FP) / KAPPA
    ctx.close(vimg, vref, "potential-periodic", rtol=0, atol=1e-9 * scale, what="periodic images")

    # ---------------- supercell: primitive periodicity
    if case["supercell"]:
        rep = tuple(case["supercell"])

        def supercell():
            sup = atoms * rep          # ase stacks whole copies, so per-atom arrays are tiled the same way
            kws = dict(kw)
            for key, per_atom in (("thermal_sigma", s_arr), ("occupancy", o_arr)):
                if isinstance(kw[key], np.ndarray):
                    kws[key] = np.concatenate([per_atom] * int(np.prod(rep)), axis=0)
            cen = str(np.random.default_rng(case["shuffle_seed"]).choice(["auto", "P"]))
            sfS = StructureFactor(sup, centering=cen, **kws)
            aS = sfS.build(lazy=False)
            hklS = np.asarray(aS.hkl)
            FS = values(aS).astype(np.complex128)
            dS = as_dict(hklS, FS)
            r = np.array(rep)
            mult = (hklS % r == 0).all(axis=1)
            want = np.array([dP.get(tuple(int(v) for v in (h // r)), 0.0) if m else 0.0 for h, m in zip(hklS, mult)])
            ctx.close(FS, want, "potential-periodic", rtol=0, atol=4 * tol, what="supercell structure factors",
                      rep=list(rep), detected=sfS.centering)
            missing = [h for h in hklP if tuple(int(v) for v in h * r) not in dS and abs(dP[tuple(int(v) for v in h)]) > 4 * tol]
            if case["cell_kind"] in ("cubic", "ortho"):
                ctx.expect(len(missing) == 0, "potential-periodic", what="cell reflections missing from the supercell list",
                           n=len(missing), detected=sfS.centering, rep=list(rep))
            elif missing:
                # make_hkl_grid derives the index range from the Cartesian bounding box of the cell; for non-orthogonal
                # cells this truncates the g_max sphere differently for cell and supercell.  The statement does not
                # fix the reflection list, so this is recorded, not judged.
                ctx.note("nonorthogonal-cell-reflection-list-truncated")
        attempt(ctx, "supercell", supercell)

    # ---------------- lattice translations
    def translated():
        cellm = np.asarray(atoms.cell.array, dtype=np.float64)
        moved = atoms.copy()
        if case["per_atom_shift"]:
            srng = np.random.default_rng(case["shuffle_seed"] + 2)
            n_int = srng.integers(-3, 4, size=(len(atoms), 3))
            n_int[0] = case["shift"]
        else:
            n_int = np.tile(np.array(case["shift"]), (len(atoms), 1))
        moved.positions = moved.positions + n_int @ cellm
        sfT = StructureFactor(moved, centering=arg, **kw)
        aT = sfT.build(lazy=False)
        same = np.array_equal(np.asarray(aT.hkl), hklX)
        ctx.expect(same, "lattice-translation", what="reflection list changed", before=len(hklX), after=len(aT.hkl),
                   detected_before=sfX.centering, detected_after=sfT.centering)
        if same:
            ctx.close(values(aT), FX, "lattice-translation", rtol=0, atol=tol * (1 + nmax) * (4 if f32 else 10),
                      shift=case["shift"], per_atom=case["per_atom_shift"])
    attempt(ctx, "translated", translated)


    # ---------------- several lazy objects in one dask computation
    def joint():
        import dask
        cellm = np.asarray(atoms.cell.array, dtype=np.float64)
        displaced = atoms.copy()
        displaced.positions = displaced.positions + np.array([0.31, 0.17, 0.05]) @ cellm
        swapped = atoms.copy()
        swapped.symbols = [{case["elements"][0]: case["elements"][1], case["elements"][1]: case["elements"][0]}[x]
                           for x in atoms.get_chemical_symbols()]
        moved = atoms.copy()
        moved.positions = moved.positions + np.array(case["shift"]) @ cellm
        swap = {case["elements"][0]: case["elements"][1], case["elements"][1]: case["elements"][0]}
        kw_swapped = {k: ({swap[e]: v for e, v in val.items()} if isinstance(val, dict) else val) for k, val in kw.items()}
        builders = [StructureFactor(a, centering="P", **(kw_swapped if a is swapped else kw))
                    for a in (atoms, displaced, swapped, moved)]
        builders = builders[: 2 + case["shuffle_seed"] % 3]
        lazies = [b.build(lazy=True) for b in builders]
        ctx.expect(all(x.is_lazy for x in lazies), "joint-compute", what="lazy build returned eager arrays")
        together = dask.compute(*[x.array for x in lazies], scheduler="synchronous")
        pots = dask.compute(*[x.get_potential_3d() for x in lazies[:2]], scheduler="synchronous")
        for i, (b, got) in enumerate(zip(builders, together)):
            sep = values(b.build(lazy=False))
            ctx.close(np.asarray(got), sep, "joint-compute", rtol=0, atol=(tol if f32 else 1e-13 * fmax), member=i,
                      n_objects=len(builders))
        for i, (b, got) in enumerate(zip(builders[:2], pots)):
            sep = np.asarray(b.build(lazy=False).get_potential_3d())
            ctx.close(np.asarray(got), sep, "joint-compute", rtol=0, atol=(1e-4 if f32 else 1e-10) * float(np.abs(sep).max()),
                      member=i, what="potential")
        ctx.monitor("joint-computations")
    attempt(ctx, "joint-compute", joint)
