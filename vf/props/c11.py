"""C11 A potential reused after changing its grid behaves like a fresh one.

History monitor.  One long-lived Potential is driven through a random history of
    build (eager / lazy) | set gpts | set sampling | use in a plane-wave multislice | project | generate a few slices
and after every step that produces a result, the same result is computed from a newly constructed Potential (same
atoms / thickness / projection / parametrization, a new integrator, the *current* grid of the reused object) and compared.
The fresh object is the sequential model of the reused one.

Cache monitor (inside the real pipeline).  The integrator caches are observed by wrappers installed on
ScatteringFactorProjectionIntegrals._calculate_scattering_factor / get_scattering_factor and
QuadratureProjectionIntegrals._calculate_integral_table / get_integral_table before the objects are created: the fill
wrapper remembers for which (symbol, gpts, sampling) an entry was computed, the use wrapper looks the returned object up
and compares with the (symbol, gpts, sampling) it is about to be used for.  A use on another grid than the fill is the
refuting event even if the values happen to agree.  Zero observed uses make the run INCONCLUSIVE.

A third scenario shares one user-supplied integrator between two potentials built alternately: either a stretched cell with
the same gpts (the sampling differs while gpts do not) or a repeated cell with the grid repeated accordingly (gpts differ
while the sampling does not).
"""
import threading

import numpy as np

from vf import gen as G
from vf import lib_potopts as P

PROPERTY = "C11"
TECHNIQUE = ("runtime monitoring; history monitor with a freshly constructed Potential as sequential model + wrapper monitor "
             "recording (symbol, gpts, sampling) at fill and at use of the integrator caches")
RULE = ("histories of 2-6 operations (build eager/lazy, set gpts, set sampling, multislice use, project, partial slice "
        "generation) on one Potential: cells 3-6 A with 1-5 atoms of 1-3 elements (elements may first occur in a later slice), "
        "infinite and finite projection, lobato/kirkland/peng, grids 8-64 given initially as gpts or sampling, single atoms or "
        "frozen phonons; about half of the cases with parametrization objects carrying sigmas and / or custom Quadrature / "
        "ScatteringFactor integrators (non-default cutoff_tolerance, taper, integration_step, quad_order, "
        "inner_cutoff_factor); plus two potentials sharing one integrator; non-trivial = at least one result is produced after a "
        "grid change that followed an earlier use of the object; distinct = distinct case signature")
CLAUSES = ["rebuild-equals-fresh", "grid-follows-assignment", "cache-use-matches-fill-infinite", "cache-use-matches-fill-finite",
           "multislice-equals-fresh", "shared-integrator"]
QUICK = dict(n=46, time=45)
THOROUGH = dict(n=11300, time=480, shards=16)


def setup(ctx):
    # imports and numba compilation outside the per-case watchdog
    import abtem
    from ase import Atoms
    one = Atoms("C", positions=[[1.0, 1.0, 1.0]], cell=[3.0, 3.0, 2.0], pbc=True)
    for precision in ("float32", "float64"):
        with G.precision(precision):
            pot = abtem.Potential(one, gpts=(8, 8), slice_thickness=1.0, projection="finite")
            pot.build(lazy=False)
            abtem.Potential(one, gpts=(8, 8), slice_thickness=1.0).build(lazy=True).compute(progress_bar=False)
            abtem.PlaneWave(energy=100e3).multislice(pot, lazy=False)


# --------------------------------------------------------------------------- generation
def _grid_value(rng, cell, what):
    if what == "gpts":
        g = G.rand_gpts(rng, 8, 64)
        return g if rng.random() < 0.8 else int(g[0])
    lo = max(cell[0], cell[1]) / 64.0
    hi = min(cell[0], cell[1]) / 8.0
    s = [float(rng.uniform(lo, hi)), float(rng.uniform(lo, hi))]
    return s if rng.random() < 0.5 else float(s[0])


def _ops(rng, cell, length):
    ops = []
    for _ in range(length):
        r = rng.random()
        if r < 0.3:
            ops.append({"op": "build", "lazy": bool(rng.random() < 0.4)})
        elif r < 0.5:
            ops.append({"op": "gpts", "value": _grid_value(rng, cell, "gpts")})
        elif r < 0.65:
            ops.append({"op": "sampling", "value": _grid_value(rng, cell, "sampling")})
        elif r < 0.78:
            ops.append({"op": "multislice", "energy": float(rng.choice([80e3, 200e3]))})
        elif r < 0.88:
            ops.append({"op": "project"})
        else:
            ops.append({"op": "slices", "first": 0, "count": int(rng.integers(1, 3))})
    # every history ends with a result, and contains at least one grid change after a use
    if not any(o["op"] in ("gpts", "sampling") for o in ops[1:]):
        ops.insert(int(rng.integers(1, len(ops) + 1)), {"op": "gpts", "value": _grid_value(rng, cell, "gpts")})
    if ops[0]["op"] in ("gpts", "sampling"):
        ops.insert(0, {"op": "build", "lazy": False})
    if ops[-1]["op"] in ("gpts", "sampling"):
        ops.append({"op": "build", "lazy": bool(rng.random() < 0.4)})
    return ops


def gen(rng, tier):
    proj = str(rng.choice(["infinite", "finite"]))
    cell = [float(rng.uniform(3.0, 6.0)), float(rng.uniform(3.0, 6.0)), float(rng.uniform(2.0, 6.0))]
    els = [str(e) for e in rng.choice(["C", "O", "Si", "N", "Al", "Cu", "S"] if proj == "finite" else G.ELEMENTS,
                                      size=int(rng.integers(1, 4)), replace=False)]
    n = int(rng.integers(1, 6))
    desc = {"cell": cell, "symbols": [str(rng.choice(els)) for _ in range(n)],
            "positions": (rng.random((n, 3)) * np.array(cell)).tolist()}
    first = "gpts" if rng.random() < 0.6 else "sampling"
    common = {"cell": desc, "projection": proj, "parametrization": str(rng.choice(["lobato", "kirkland", "peng"])),
              "slice_thickness": float(rng.uniform(0.5, 2.0)), "precision": "float64" if rng.random() < 0.8 else "float32",
              "opts": P.gen(rng, proj, desc["symbols"], allow=("sigmas", "integrator"), cheap=True)}
    if P.single_precision(common["opts"]):
        common["opts"] = {}        # the Gaussian integrator keeps no grid-dependent cache
    if rng.random() < 0.12:
        scale = [float(rng.uniform(1.1, 1.6)), float(rng.uniform(0.6, 0.9))]
        return dict(common, kind="shared", gpts=G.rand_gpts(rng, 8, 40), scale=scale, rounds=int(rng.integers(2, 4)),
                    repeat=[int(v) for v in rng.permutation([1, int(rng.integers(2, 4))])] if rng.random() < 0.5 else None)
    return dict(common, kind="history", init={"what": first, "value": _grid_value(rng, cell, first)},
                frozen=int(rng.integers(2, 4)) if rng.random() < 0.25 else 0, fp_seed=int(rng.integers(0, 1000)),
                ops=_ops(rng, cell, int(rng.integers(2, 7))))


def fixed_cases(tier):
    cell = {"cell": [4.0, 5.0, 4.0], "symbols": ["Si", "C", "O"], "positions": [[1, 1, 0.5], [2, 2.5, 1.7], [3, 4, 3.2]]}
    out = []
    for proj in ("infinite", "finite"):
        base = {"kind": "history", "cell": cell, "projection": proj, "parametrization": "lobato", "slice_thickness": 1.0,
                "precision": "float64", "init": {"what": "gpts", "value": [16, 20]}, "frozen": 0, "fp_seed": 1}
        out.append(dict(base, ops=[{"op": "build", "lazy": False}, {"op": "gpts", "value": [24, 18]}, {"op": "build", "lazy": False},
                                   {"op": "sampling", "value": 0.13}, {"op": "build", "lazy": True}]))
        # only the first slice (Si) is generated before the change: the other elements are cached afterwards
        out.append(dict(base, ops=[{"op": "slices", "first": 0, "count": 1}, {"op": "gpts", "value": [20, 16]},
                                   {"op": "multislice", "energy": 100e3}, {"op": "build", "lazy": False}]))
        sig = {"Si": 0.3, "O": 0.15}
        custom = ({"type": "quadrature", "cutoff_tolerance": 1e-3, "taper": 0.7, "integration_step": 0.05, "quad_order": 4,
                   "inner_cutoff_factor": 3.0} if proj == "finite" else {"type": "scattering"})
        out.append(dict(base, opts={"sigmas": sig, "integrator": custom},
                        ops=[{"op": "build", "lazy": True}, {"op": "sampling", "value": [0.21, 0.17]},
                             {"op": "multislice", "energy": 100e3}, {"op": "gpts", "value": 18}, {"op": "build", "lazy": False}]))
        out.append({"kind": "shared", "cell": cell, "projection": proj, "parametrization": "kirkland", "slice_thickness": 1.0,
                    "precision": "float64", "gpts": [16, 20], "scale": [1.3, 0.7], "rounds": 2, "repeat": None,
                    "opts": {"sigmas": sig, "integrator": custom}})
        for repeat in (None, [1, 2]):
            out.append({"kind": "shared", "cell": cell, "projection": proj, "parametrization": "lobato", "slice_thickness": 1.0,
                        "precision": "float64", "gpts": [16, 20], "scale": [1.5, 0.8], "rounds": 2, "repeat": repeat})
    return out


# --------------------------------------------------------------------------- cache monitor
class CacheMonitor:
    """Records fills and uses of the integrator caches (thread safe: lazy builds run in dask threads)."""

    def __init__(self):
        self.lock = threading.Lock()
        self.filled = {}      # id(entry) -> (entry, kind, symbol, gpts, sampling)
        self.events = []      # (kind, symbol, fill grid, use grid, known)
        self.missing = []

    @staticmethod
    def _grid(gpts, sampling):
        g = None if gpts is None else tuple(int(v) for v in np.atleast_1d(gpts))
        s = None if sampling is None else tuple(float(v) for v in np.atleast_1d(sampling))
        return g, s

    def install(self, w):
        from abtem import integrals
        mon = self

        def bound(args, kwargs, names):
            vals = dict(zip(names, args))
            vals.update(kwargs)
            return vals

        def fill_sf(orig):
            def f(self, *args, **kwargs):
                out = orig(self, *args, **kwargs)
                v = bound(args, kwargs, ("symbol", "gpts", "sampling", "device"))
                with mon.lock:
                    mon.filled[id(out)] = (out, "infinite", v.get("symbol")) + mon._grid(v.get("gpts"), v.get("sampling"))
                return out
            return f

        def use_sf(orig):
            def f(self, *args, **kwargs):
                out = orig(self, *args, **kwargs)
                v = bound(args, kwargs, ("symbol", "gpts", "sampling", "device"))
                mon._use(out, "infinite", v.get("symbol"), mon._grid(v.get("gpts"), v.get("sampling")))
                return out
            return f

        def fill_table(orig):
            def f(self, *args, **kwargs):
                out = orig(self, *args, **kwargs)
                v = bound(args, kwargs, ("symbol", "sampling"))
                with mon.lock:
                    mon.filled[id(out)] = (out, "finite", v.get("symbol")) + mon._grid(None, v.get("sampling"))
                return out
            return f

        def use_table(orig):
            def f(self, *args, **kwargs):
                out = orig(self, *args, **kwargs)
                v = bound(args, kwargs, ("symbol", "sampling"))
                mon._use(out, "finite", v.get("symbol"), mon._grid(None, v.get("sampling")))
                return out
            return f

        for cls, name, make in ((integrals.ScatteringFactorProjectionIntegrals, "_calculate_scattering_factor", fill_sf),
                                (integrals.ScatteringFactorProjectionIntegrals, "get_scattering_factor", use_sf),
                                (integrals.QuadratureProjectionIntegrals, "_calculate_integral_table", fill_table),
                                (integrals.QuadratureProjectionIntegrals, "get_integral_table", use_table)):
            if name in cls.__dict__:
                w.patch(cls, name, make)
            else:
                self.missing.append(cls.__name__ + "." + name)

    def _use(self, entry, kind, symbol, grid):
        with self.lock:
            rec = self.filled.get(id(entry))
            if rec is None or rec[0] is not entry:
                self.events.append((kind, symbol, None, grid, False))
            else:
                self.events.append((kind, symbol, (rec[3], rec[4]), grid, True))

    def drain(self, ctx, step):
        with self.lock:
            events, self.events = self.events, []
        for kind, symbol, fill, use, known in events:
            ctx.monitor("cache-uses-" + kind)
            if not known:
                ctx.note("cache-entry-of-unknown-origin")
                continue
            same_g = fill[0] == use[0] or fill[0] is None or use[0] is None
            same_s = fill[1] is not None and use[1] is not None and len(fill[1]) == len(use[1]) and all(
                abs(a - b) <= 1e-12 * max(abs(a), abs(b)) for a, b in zip(fill[1], use[1]))
            ctx.expect(same_g and same_s, "cache-use-matches-fill-" + kind, symbol=symbol, filled_for=fill, used_for=use, step=step)


# --------------------------------------------------------------------------- workload
def _atoms_arg(case):
    import abtem
    atoms = G.atoms_from(case["cell"])
    if case.get("frozen"):
        return abtem.FrozenPhonons(atoms, num_configs=case["frozen"], sigmas=0.1, seed=case["fp_seed"])
    return atoms


def _new(case, atoms=None, integrator=None, **grid):
    import abtem
    kw = dict(slice_thickness=case["slice_thickness"], **grid)
    if integrator is not None:
        kw["integrator"] = integrator
    else:
        # case["opts"]: non-default constructor arguments (parametrization object with sigmas, custom integrator);
        # every call creates new parametrization / integrator objects
        kw.update(P.kwargs(case.get("opts"), case["projection"], case["parametrization"]))
    return abtem.Potential(_atoms_arg(case) if atoms is None else atoms, **kw)


def _val(v):
    return tuple(v) if isinstance(v, list) else v


def _np(x):
    a = x.array
    if hasattr(a, "compute"):
        a = a.compute()
    return np.asarray(a)


def _tol(case):
    return 1e-10 if case["precision"] == "float64" else 2e-5


def _result(ctx, clause, step, op, fn_reused, fn_fresh, case):
    """Compute a result from the reused object and from the fresh model and compare them."""
    try:
        want = fn_fresh()
    except Exception as e:  # the model itself must work: otherwise the case is outside the domain
        ctx.note("fresh-model-raised-" + type(e).__name__)
        return
    try:
        got = fn_reused()
    except Exception as e:  # noqa
        ctx.expect(False, clause, step=step, op=op, raised=repr(e)[:300])
        return
    ctx.close(got, want, clause, rtol=_tol(case), step=step, op=op)


def check(ctx, case):
    mon = CacheMonitor()
    with G.precision(case["precision"]), G.Wrapped() as w:
        mon.install(w)
        for m in mon.missing:
            ctx.note("cache-hook-missing:" + m)
        if case["kind"] == "shared":
            check_shared(ctx, case, mon)
        else:
            check_history(ctx, case, mon)


def check_history(ctx, case, mon):
    import abtem
    init = case["init"]
    pot = _new(case, **{init["what"]: _val(init["value"])})
    used = False             # the object has produced something (its caches may be filled)
    changed_after_use = False
    judged_after_change = 0
    for step, op in enumerate(case["ops"]):
        name = op["op"]
        if name in ("gpts", "sampling"):
            before = (pot.gpts, pot.sampling)
            try:
                setattr(pot, name, _val(op["value"]))
            except Exception as e:  # noqa
                ctx.expect(False, "grid-follows-assignment", step=step, op=op, raised=repr(e)[:200])
                continue
            # the grid after the assignment is the grid a new potential gets from the same argument
            ref = _new(case, **{name: _val(op["value"])})
            ctx.equal(tuple(pot.gpts), tuple(ref.gpts), "grid-follows-assignment", step=step, op=op)
            ctx.close(pot.sampling, ref.sampling, "grid-follows-assignment", rtol=1e-12, step=step, op=op)
            ctx.close(pot.extent, ref.extent, "grid-follows-assignment", rtol=1e-12, step=step, op=op)
            if used and (tuple(pot.gpts), tuple(pot.sampling)) != before:
                changed_after_use = True
            continue

        def fresh():
            f = _new(case, gpts=tuple(pot.gpts))
            if not np.allclose(f.sampling, pot.sampling, rtol=1e-12):
                raise RuntimeError("model grid differs")
            return f

        if name == "build":
            lazy = op["lazy"]

            def built(p):
                b = p.build(lazy=lazy)
                return _np(b.compute(progress_bar=False) if lazy else b)
            # same mode on both sides: eager-vs-lazy agreement is C10's subject
            _result(ctx, "rebuild-equals-fresh", step, op, lambda: built(pot), lambda: built(fresh()), case)
        elif name == "project":
            _result(ctx, "rebuild-equals-fresh", step, op, lambda: _np(pot.project()), lambda: _np(fresh().project()), case)
        elif name == "slices":
            k = min(op["count"], len(pot))

            def gen_slices(p):
                return np.concatenate([np.asarray(s.array) for s in p.generate_slices(0, k)], axis=0)
            _result(ctx, "rebuild-equals-fresh", step, op, lambda: gen_slices(pot), lambda: gen_slices(fresh()), case)
        else:
            def run(p):
                return _np(abtem.PlaneWave(energy=op["energy"]).multislice(p, lazy=False))
            _result(ctx, "multislice-equals-fresh", step, op, lambda: run(pot), lambda: run(fresh()), case)
        mon.drain(ctx, step)
        used = True
        if changed_after_use:
            judged_after_change += 1
    mon.drain(ctx, len(case["ops"]))
    ctx.nontrivial(judged_after_change >= 1)


def check_shared(ctx, case, mon):
    """Two potentials with different cells and the same gpts share one integrator object."""
    from abtem.integrals import QuadratureProjectionIntegrals, ScatteringFactorProjectionIntegrals
    cls = QuadratureProjectionIntegrals if case["projection"] == "finite" else ScatteringFactorProjectionIntegrals
    integrator = P.integrator(case.get("opts"), case["projection"], case["parametrization"])
    if integrator is None:
        integrator = cls(parametrization=P.parametrization(case["parametrization"], (case.get("opts") or {}).get("sigmas")))
    a1 = G.atoms_from(case["cell"])
    gpts = tuple(case["gpts"])
    if case.get("repeat"):
        # the same sampling on a larger grid: the supercell with the grid repeated accordingly
        rep = case["repeat"]
        a2 = a1 * (rep[0], rep[1], 1)
        gpts2 = (gpts[0] * rep[0], gpts[1] * rep[1])
    else:
        # the same gpts with another sampling: the cell stretched
        a2 = a1.copy()
        a2.set_cell(np.array(case["cell"]["cell"]) * np.array(case["scale"] + [1.0]), scale_atoms=True)
        gpts2 = gpts
    n = 0
    for r in range(case["rounds"]):
        for which, atoms, g in (("first", a1, gpts), ("second", a2, gpts2)):
            def reused():
                return _np(_new(case, atoms=atoms, integrator=integrator, gpts=g).build(lazy=False))
            _result(ctx, "shared-integrator", 2 * r + (which == "second"), {"op": "build", "cell": which}, reused,
                    lambda: _np(_new(case, atoms=atoms, gpts=g).build(lazy=False)), case)
            mon.drain(ctx, 2 * r + (which == "second"))
            n += 1
    ctx.nontrivial(n >= 2)
