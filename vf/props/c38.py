"""C38 Results do not depend on the FFT backend or precision setting.

Differential monitor over configurations: every pipeline / measurement transform is run
under abtem.config.set for (fft in {numpy, fftw}) x (planning effort in {ESTIMATE, MEASURE,
PATIENT}) x (precision in {float32, float64}); the (numpy, float64) run is the reference.
float64 runs must agree to 1e-9 relative, float32 runs to single-precision accuracy, and
the dtype actually returned is recorded (not judged: the statement does not fix dtypes).  A wrapper on the FFT entry points
counts which backend actually executed, so a configuration that silently falls back to the
other backend is visible (zero fftw executions under fft=fftw would make the run INCONCLUSIVE).
"""
import numpy as np

from vf import gen as G
from vf import pipelines as P

PROPERTY = "C38"
TECHNIQUE = "runtime monitoring; differential oracle across FFT backend / planning effort / precision with backend reach counters"
RULE = ("random pipelines (vf/pipelines.py: Probe/PlaneWave x potentials x detectors x scans x CTF) and random measurement transforms "
        "(fft_interpolate, fft_shift, Images.interpolate(fft), gaussian filter, diffraction patterns, Waves.downsample), each run under "
        "4-7 configurations; non-trivial = at least one fftw and one numpy execution were observed by the backend counters and both "
        "precisions ran; distinct = distinct case signature")
CLAUSES = ["float64-agree:values", "float32-agree:values", "configured-dtype", "fftw-backend-reached", "numpy-backend-reached",
           "transform-float64-agree", "transform-float32-agree", "reuse-float64-agree", "reuse-float32-agree"]
QUICK = dict(n=18, time=45)
THOROUGH = dict(n=2850, time=480, shards=16)

EFFORTS = ["FFTW_ESTIMATE", "FFTW_MEASURE", "FFTW_PATIENT"]
NO_FFT_OPS = ("gaussian_filter",)


def gen(rng, tier):
    if rng.random() < 0.35:
        shape = [int(rng.integers(1, 4))] * int(rng.integers(0, 2)) + [int(rng.integers(6, 40)), int(rng.integers(6, 40))]
        return {"kind": "transform", "shape": shape, "seed": int(rng.integers(0, 2 ** 31)),
                "op": str(rng.choice(["fft_interpolate", "fft_shift", "images_interpolate", "gaussian_filter",
                                      "diffraction_patterns", "downsample", "fft2_convolve"])),
                "new": [int(rng.integers(6, 50)), int(rng.integers(6, 50))],
                "shift": rng.uniform(-5, 5, 2).round(3).tolist(), "sigma": float(rng.uniform(0.2, 2.0)),
                "efforts": [str(e) for e in rng.choice(EFFORTS, size=2, replace=False)]}
    if rng.random() < 0.2:
        # one exit wave consumed several times (second CTF, intensity, diffraction pattern after a transform)
        d = P.gen_pipeline(rng, small=True, allow_ctf=False, allow_dists=False)
        d["builder"] = "plane"
        d.setdefault("normalize", False)
        d.setdefault("tilt", [0.0, 0.0])
        for k in ("scan", "semiangle", "aberrations", "defocus_dist", "tilt_dist"):
            d.pop(k, None)
        d["detectors"] = [{"type": "waves"}]
        d["exit_planes"] = None
        d["kind"] = "reuse"
        d["lazy"] = bool(rng.random() < 0.4)
        d["defoci"] = rng.uniform(-300, 300, int(rng.integers(2, 4))).round(2).tolist()
        d["order"] = [int(i) for i in rng.permutation(4)]
        d["incident"] = bool(rng.random() < 0.4)   # reciprocal-space incident waves reused for two runs
        d["efforts"] = [str(e) for e in rng.choice(EFFORTS, size=2, replace=False)]
        return d
    d = P.gen_pipeline(rng, small=True)
    d["kind"] = "pipeline"
    d["lazy"] = bool(rng.random() < 0.4)
    d["efforts"] = [str(e) for e in rng.choice(EFFORTS, size=2, replace=False)]
    return d


class BackendCounter:
    """Counts executions of the numpy and fftw code paths in abtem.core.fft."""

    def __init__(self, ctx):
        self.ctx = ctx
        self.w = G.Wrapped()

    def __enter__(self):
        import abtem.core.fft as fft
        ctx = self.ctx

        def count(name):
            def make(orig):
                def wrapper(*a, **k):
                    ctx.monitor(name)
                    return orig(*a, **k)
                return wrapper
            return make

        if hasattr(fft, "_new_fftw_object"):
            self.w.patch(fft, "_new_fftw_object", count("fftw-plan-created"))
        if hasattr(fft, "get_fftw_object"):
            self.w.patch(fft, "get_fftw_object", count("fftw-plan-created"))
        import numpy.fft as nf
        for n in ("fft2", "ifft2", "fftn", "ifftn"):
            self.w.patch(nf, n, count("numpy-fft-called"))
        return self

    def __exit__(self, *a):
        return self.w.__exit__(*a)


def _configs(case):
    cfgs = [("numpy", None, "float64"), ("numpy", None, "float32")]
    for e in case["efforts"]:
        cfgs.append(("fftw", e, "float32"))
        cfgs.append(("fftw", e, "float64"))
    return cfgs


def _set(cfg):
    import abtem
    fft, effort, prec = cfg
    d = {"fft": fft, "precision": prec}
    if effort:
        d["fftw.planning_effort"] = effort
    return abtem.config.set(d)


def _extra(shape):
    from abtem.core.axes import OrdinalAxis
    return [OrdinalAxis(values=tuple(range(n))) for n in shape[:-2]]


def _transform(case, prec):
    import abtem
    from abtem.core import fft as F
    rng = np.random.default_rng(case["seed"])
    shape = tuple(case["shape"])
    real = rng.normal(size=shape)
    cplx = real + 1j * rng.normal(size=shape)
    cdt = np.complex64 if prec == "float32" else np.complex128
    rdt = np.float32 if prec == "float32" else np.float64
    op = case["op"]
    if op == "fft_interpolate":
        return F.fft_interpolate(cplx.astype(cdt), tuple(case["new"]))
    if op == "fft_shift":
        return F.fft_shift(cplx.astype(cdt), np.array(case["shift"]))
    if op == "fft2_convolve":
        k = np.exp(-1j * rng.normal(size=shape[-2:])).astype(cdt)
        return F.fft2_convolve(cplx.astype(cdt), k, overwrite_x=False)
    if op == "images_interpolate":
        im = abtem.Images(np.abs(real).astype(rdt), sampling=0.1, ensemble_axes_metadata=_extra(shape))
        return im.interpolate(gpts=tuple(case["new"]), method="fft").array
    if op == "gaussian_filter":
        im = abtem.Images(np.abs(real).astype(rdt), sampling=0.1, ensemble_axes_metadata=_extra(shape))
        return im.gaussian_filter(case["sigma"] * 0.1).array
    from abtem.core.axes import OrdinalAxis
    extra = [OrdinalAxis(values=tuple(range(n))) for n in shape[:-2]]
    w = abtem.Waves(cplx.astype(cdt), energy=100e3, sampling=0.1, ensemble_axes_metadata=extra)
    if op == "diffraction_patterns":
        return w.diffraction_patterns(max_angle="valid").array
    return w.downsample(max_angle="valid").array


def _reuse_incident(case):
    """Incident waves stored in reciprocal space, used for two multislice runs and then inspected again."""
    import abtem
    pot = P._potential(case)
    pw = abtem.Probe(energy=case["energy"], semiangle_cutoff=20.0, defocus=40.0)
    pw.grid.match(pot)
    ext = pot.extent
    inc = pw.build(scan=abtem.CustomScan([[0.3 * ext[0], 0.6 * ext[1]], [0.7 * ext[0], 0.2 * ext[1]]]), lazy=False)
    inc = inc.ensure_reciprocal_space()
    if case["lazy"]:
        inc = inc.ensure_lazy()
    first = inc.multislice(pot)
    second = inc.multislice(pot)
    third = inc.ensure_real_space().intensity()
    res = [first, second, third]
    if case["lazy"]:
        res = [r.compute(progress_bar=False, scheduler="synchronous") for r in res]
    return res


def _reuse(case):
    """Exit wave used by several consumers, in a case-defined order; returns the list of results."""
    if case.get("incident"):
        return _reuse_incident(case)
    w = P.run(case, lazy=case["lazy"])
    if isinstance(w, list):
        w = w[0]
    outs = {}
    for step in case["order"]:
        if step == 0:
            outs[0] = w.apply_ctf(defocus=case["defoci"][0], semiangle_cutoff=25.0).intensity()
        elif step == 1:
            outs[1] = w.apply_ctf(defocus=case["defoci"][-1], Cs=-5e4, semiangle_cutoff=30.0).intensity()
        elif step == 2:
            outs[2] = w.intensity()
        else:
            outs[3] = w.diffraction_patterns(max_angle="valid")
    res = [outs[k] for k in sorted(outs)]
    if case["lazy"]:
        import dask
        res = [r.compute(progress_bar=False, scheduler="synchronous") for r in res]
    return res


def check(ctx, case):
    results = {}
    before = dict(ctx.monitors)
    with BackendCounter(ctx):
        for cfg in _configs(case):
            with _set(cfg):
                n0 = ctx.monitors.get("fftw-plan-created", 0)
                m0 = ctx.monitors.get("numpy-fft-called", 0)
                if case["kind"] == "pipeline":
                    out = P.run(case, lazy=case["lazy"])
                    out = P.compute(out, scheduler="synchronous") if case["lazy"] else out
                elif case["kind"] == "reuse":
                    out = _reuse(case)
                else:
                    out = _transform(case, cfg[2])
                dn = ctx.monitors.get("fftw-plan-created", 0) - n0
                dm = ctx.monitors.get("numpy-fft-called", 0) - m0
                if case["kind"] == "transform" and case["op"] in NO_FFT_OPS:
                    # real-space filters do not call an FFT: nothing to reach, only the results are compared
                    ctx.note("transform-without-fft:" + case["op"])
                elif cfg[0] == "fftw":
                    ctx.expect(dn > 0, "fftw-backend-reached", cfg=cfg)
                else:
                    ctx.expect(dm > 0 and dn == 0, "numpy-backend-reached", cfg=cfg, fftw=dn, numpy=dm)
            results[cfg] = out
    ref = results[("numpy", None, "float64")]

    def arrays(o):
        if isinstance(o, np.ndarray):
            return [o]
        objs = o if isinstance(o, list) else [o]
        return [G.to_numpy(x) for x in objs]

    ra = arrays(ref)
    gscale = max([float(np.abs(r).max()) for r in ra if r.size] + [0.0])
    if gscale == 0.0:
        gscale = 1.0
    for cfg, out in results.items():
        oa = arrays(out)
        want_real = np.float32 if cfg[2] == "float32" else np.float64
        want_cplx = np.complex64 if cfg[2] == "float32" else np.complex128
        for r, o in zip(ra, oa):
            # the statement does not fix output dtypes: an output that is not of the configured precision is
            # recorded (evidence notes) and judged with the tolerance of the precision it actually has
            if o.dtype not in (want_real, want_cplx):
                ctx.note("output-dtype-differs-from-configured-precision:%s-under-%s" % (o.dtype, cfg[2]))
            ctx.clauses["configured-dtype"] += 1
            if cfg == ("numpy", None, "float64"):
                continue
            # an output that is numerically empty (e.g. an annulus that contains no pixel of a tiny grid: values ~1e-33)
            # is judged against the scale of the pipeline's other outputs, not against its own rounding noise
            scale = max(float(np.abs(r).max()), 1e-9 * gscale, 1e-30)
            pre = "transform-" if case["kind"] == "transform" else ("reuse-" if case["kind"] == "reuse" else "")
            single = cfg[2] == "float32" or o.dtype in (np.float32, np.complex64) or r.dtype in (np.float32, np.complex64)
            if not single:
                ctx.close(o, r, pre + "float64-agree" + ("" if pre else ":values"), rtol=1e-9, atol=1e-10 * scale, cfg=cfg)
            else:
                ctx.close(o, r, pre + "float32-agree" + ("" if pre else ":values"), rtol=3e-4, atol=3e-5 * scale, cfg=cfg)
    ctx.nontrivial(True)


def fixed_cases(tier):
    cell = {"cell": [5.43, 5.43, 5.43], "symbols": ["Si", "Si", "Si", "Si"],
            "positions": [[0, 0, 0], [2.7, 2.7, 0], [1.35, 1.35, 1.35], [4.0, 4.0, 4.0]]}
    out = []
    for lazy in (False, True):
        out.append({"kind": "reuse", "builder": "plane", "cell": cell, "gpts": [24, 20], "energy": 100e3, "slice_thickness": 1.5,
                    "projection": "infinite", "potential": {"kind": "atoms"}, "exit_planes": None,
                    "detectors": [{"type": "waves"}], "normalize": False, "tilt": [0.0, 0.0], "lazy": lazy,
                    "defoci": [0.0, 120.0, -250.0], "order": [0, 1, 2, 3], "efforts": ["FFTW_ESTIMATE", "FFTW_MEASURE"]})
    for lazy in (False, True):
        c = dict(out[0])
        c.update({"lazy": lazy, "incident": True, "potential": {"kind": "frozen", "num_configs": 2, "sigma": 0.08, "seed": 3,
                                                              "ensemble_mean": False}})
        out.append(c)
    return out
