"""C36 Distributions have the values and weights they advertise.

Oracle: closed forms in float64, written from the documentation of
abtem.distributions (`uniform`, `gaussian`, `from_values`, negation, `divide`):

  uniform   values = low + i*(high-low)/(n-1)   (endpoint)  or  /n (no endpoint), weights = 1
  gaussian  values symmetric about the centre: v[i] + v[n-1-i] = 2c, |v-c| <= limit*sigma, equally
            spaced (n>=2: spanning exactly +-limit*sigma); weights = exp(-(v-c)^2/(2 sigma^2)) scaled to
            sqrt(sum w^2) = 1 ('intensity') or sum w = 1 ('amplitude'); in k dimensions the values are the
            'ij' mesh of the axes, the weights their outer product on the same grid
  -d        values negated, weights / ensemble_mean / type / shape untouched
  divide    concatenation of the block values (weights) is the original values (weights), block
            lengths are the requested chunks (or differ by <= 1 for an int number of chunks), eager
            and lazy.
The weights clause is judged at the *observed* values so that a misplaced value and a wrong
weight are reported separately.
"""
import numpy as np

PROPERTY = "C36"
TECHNIQUE = "runtime monitoring; closed-form float64 oracle on values/weights returned by the real constructors, negation and divide"
RULE = ("uniform: limits of either sign and order, 1-50 samples, endpoint on/off; gaussian: 1-3 dimensions, 1-50 samples per "
        "axis (1 and 2 over-represented), centres of either sign, sigma 1e-3..1e3, sampling limit 0.5-8, both normalisations, "
        "scalar or per-axis parameters; from_values with random values/weights; every 1-D distribution is negated and divided "
        "(int number of chunks and explicit compositions, eager and lazy); non-trivial = at least 2 samples on some axis; "
        "distinct = distinct case signature")
CLAUSES = ["uniform:values", "uniform:weights", "gaussian:symmetric", "gaussian:within-limit", "gaussian:values-formula",
           "gaussian:weights-profile", "gaussian:norm", "gaussian:grid", "negation:values", "negation:weights-untouched",
           "divide:partition-values", "divide:partition-weights", "divide:block-sizes", "divide:lazy-equals-eager",
           "unpack:values-weights"]
QUICK = dict(n=2500, time=30)
THOROUGH = dict(n=800000, time=480, shards=16)

RT = 1e-12


def _nsamp(rng):
    r = rng.random()
    if r < 0.12:
        return 1
    if r < 0.22:
        return 2
    if r < 0.3:
        return 3
    return int(rng.integers(4, 51))


def _signed(rng, lo, hi):
    return float(rng.choice([-1, 1]) * 10 ** rng.uniform(lo, hi))


def _chunking(rng, n):
    """int number of chunks or explicit composition of n."""
    if rng.random() < 0.5:
        return int(rng.integers(1, n + 1))
    k = int(rng.integers(1, min(n, 6) + 1))
    cuts = np.sort(rng.choice(np.arange(1, n), size=k - 1, replace=False)) if k > 1 else np.array([], dtype=int)
    return [int(x) for x in np.diff(np.concatenate([[0], cuts, [n]]))]


def gen(rng, tier):
    k = rng.random()
    if k < 0.3:
        n = _nsamp(rng)
        low = 0.0 if rng.random() < 0.1 else _signed(rng, -2, 3)
        high = low + _signed(rng, -3, 3) if rng.random() < 0.9 else low
        return {"kind": "uniform", "low": low, "high": float(high), "n": n, "endpoint": bool(rng.random() < 0.6),
                "ensemble_mean": bool(rng.random() < 0.5), "chunks": [_chunking(rng, n) for _ in range(2)],
                "lazy": bool(rng.random() < 0.5)}
    if k < 0.9:
        dim = int(rng.choice([1, 1, 1, 2, 2, 3]))
        scalar = rng.random() < 0.35

        def per_axis(f):
            if scalar:
                return f()
            return [f() for _ in range(dim)]
        n = per_axis(lambda: _nsamp(rng)) if dim == 1 or rng.random() < 0.8 else per_axis(lambda: int(rng.integers(1, 9)))
        if dim == 3:
            n = per_axis(lambda: int(rng.choice([1, 2, 3, 4, 5, 7])))
        c = {"kind": "gaussian", "dim": dim, "n": n,
             "sigma": per_axis(lambda: float(10 ** rng.uniform(-3, 3))),
             "center": per_axis(lambda: 0.0 if rng.random() < 0.25 else _signed(rng, -2, 3)),
             "limit": per_axis(lambda: float(rng.choice([3.0, 1.0, 0.5, 2.0, 4.0, 8.0, float(rng.uniform(0.5, 8))]))),
             "normalize": str(rng.choice(["intensity", "amplitude"])),
             "ensemble_mean": bool(rng.random() < 0.5), "lazy": bool(rng.random() < 0.5)}
        n0 = n if isinstance(n, int) else n[0]
        c["chunks"] = [_chunking(rng, n0) for _ in range(2)]
        return c
    n = _nsamp(rng)
    vals = [_signed(rng, -2, 3) for _ in range(n)]
    wts = None if rng.random() < 0.3 else [float(rng.uniform(0.01, 2)) for _ in range(n)]
    return {"kind": "values", "values": vals, "weights": wts, "ensemble_mean": bool(rng.random() < 0.5),
            "chunks": [_chunking(rng, n) for _ in range(2)], "lazy": bool(rng.random() < 0.5),
            "as_array": bool(rng.random() < 0.5)}


def fixed_cases(tier):
    out = []
    for norm in ("intensity", "amplitude"):
        for n in (1, 2, 3, 4, 9):
            out.append({"kind": "gaussian", "dim": 1, "n": n, "sigma": 2.0, "center": 5.0, "limit": 3.0, "normalize": norm,
                        "ensemble_mean": True, "lazy": False, "chunks": [1, [n]]})
    out.append({"kind": "gaussian", "dim": 2, "n": [1, 4], "sigma": [1.0, 0.5], "center": [0.0, -3.0], "limit": 2.0,
                "normalize": "intensity", "ensemble_mean": False, "lazy": False, "chunks": [1, [1]]})
    out.append({"kind": "gaussian", "dim": 3, "n": [2, 3, 4], "sigma": 1.5, "center": [1.0, 2.0, 3.0], "limit": 3.0,
                "normalize": "amplitude", "ensemble_mean": True, "lazy": False, "chunks": [2, [1, 1]]})
    for ep in (True, False):
        for n in (1, 2, 5):
            out.append({"kind": "uniform", "low": -1.5, "high": 4.0, "n": n, "endpoint": ep, "ensemble_mean": False,
                        "chunks": [n, [n]], "lazy": True})
    return out


# --------------------------------------------------------------------------- shared judges
def judge_negation(ctx, dist):
    neg = -dist
    ctx.expect(type(neg) is type(dist), "negation:weights-untouched", reason="type", got=type(neg).__name__)
    ctx.close(np.asarray(neg.values, dtype=float), -np.asarray(dist.values, dtype=float), "negation:values", rtol=0, atol=0)
    ctx.expect(np.array_equal(np.asarray(neg.weights, dtype=float), np.asarray(dist.weights, dtype=float)),
               "negation:weights-untouched", got=np.asarray(neg.weights), want=np.asarray(dist.weights))
    ctx.expect(neg.ensemble_mean == dist.ensemble_mean and tuple(neg.shape) == tuple(dist.shape),
               "negation:weights-untouched", reason="ensemble_mean/shape changed")
    back = -neg
    ctx.close(np.asarray(back.values, dtype=float), np.asarray(dist.values, dtype=float), "negation:values", rtol=0, atol=0)


def judge_divide(ctx, dist, chunks, lazy):
    import dask.array as da
    n = len(dist)
    vals = np.asarray(dist.values, dtype=float)
    wts = np.asarray(dist.weights, dtype=float)
    arg = chunks if isinstance(chunks, int) else tuple(chunks)
    eager = dist.divide(arg, lazy=False)
    results = [("eager", eager)]
    if lazy:
        lz = dist.divide(arg, lazy=True)
        ctx.expect(isinstance(lz, da.Array) and lz.shape == eager.shape and all(c == 1 for cc in lz.chunks for c in cc),
                   "divide:lazy-equals-eager", reason="lazy blocks are not a dask array with one block per chunk",
                   got=repr(lz))
        results.append(("lazy", lz.compute()))
    for mode, blocks in results:
        blocks = list(blocks)
        sizes = [len(b) for b in blocks]
        if isinstance(chunks, int):
            ok = len(sizes) == chunks and sum(sizes) == n and max(sizes) - min(sizes) <= 1 and min(sizes) >= 1
        else:
            ok = sizes == list(chunks)
        ctx.expect(ok, "divide:block-sizes", mode=mode, chunks=chunks, sizes=sizes, n=n)
        bv = np.concatenate([np.asarray(b.values, dtype=float).reshape(-1) for b in blocks]) if blocks else np.array([])
        bw = np.concatenate([np.asarray(b.weights, dtype=float).reshape(-1) for b in blocks]) if blocks else np.array([])
        ctx.expect(np.array_equal(bv, vals), "divide:partition-values", mode=mode, chunks=chunks, got=bv, want=vals)
        ctx.expect(np.array_equal(bw, wts), "divide:partition-weights", mode=mode, chunks=chunks, got=bw, want=wts)
        ctx.expect(all(len(np.asarray(b.weights)) == len(b) for b in blocks), "divide:partition-weights", mode=mode,
                   reason="block weights and values differ in length")
        ctx.expect(all(b.ensemble_mean == dist.ensemble_mean and b.dimensions == 1 for b in blocks), "divide:block-sizes",
                   mode=mode, reason="ensemble_mean/dimension of a block changed")
    if lazy:
        a, b = list(results[0][1]), list(results[1][1])
        same = len(a) == len(b) and all(np.array_equal(np.asarray(x.values), np.asarray(y.values)) and
                                        np.array_equal(np.asarray(x.weights), np.asarray(y.weights)) for x, y in zip(a, b))
        ctx.expect(same, "divide:lazy-equals-eager", chunks=chunks)


def judge_unpack(ctx, dists):
    """_unpack_distributions is how every consumer reads values and weights (float32 by default)."""
    from abtem.distributions import _unpack_distributions
    shape = (2, 3)
    args = []
    for i, d in enumerate(dists):
        args.append(d)
        if i == 0:
            args.append(1.5)       # plain numbers pass through untouched
    unpacked, weights = _unpack_distributions(*args, shape=shape)
    k = len(dists)
    want_w = np.ones((1,) * (k + len(shape)))
    ok = len(unpacked) == len(args)
    j = 0
    for a, u in zip(args, unpacked):
        if isinstance(a, float):
            ok &= u == a
            continue
        want_shape = [1] * (k + len(shape))
        want_shape[j] = len(a)
        v = np.asarray(a.values, dtype=float).reshape(want_shape)
        w = np.asarray(a.weights, dtype=float).reshape(want_shape)
        want_w = want_w * w
        ctx.close(np.asarray(u), v, "unpack:values-weights", rtol=3e-7, atol=1e-30, what="values")
        j += 1
    ctx.expect(ok, "unpack:values-weights", reason="numbers not passed through / wrong arity")
    ctx.close(np.asarray(weights), want_w, "unpack:values-weights", rtol=1e-6, atol=1e-30, what="weights")


# --------------------------------------------------------------------------- kinds
def check_uniform(ctx, case):
    from abtem import distributions as D
    low, high, n, ep = case["low"], case["high"], case["n"], case["endpoint"]
    d = D.uniform(low, high, n, endpoint=ep, ensemble_mean=case["ensemble_mean"])
    v = np.asarray(d.values)
    scale = max(abs(low), abs(high), 1e-300)
    if not ctx.expect(v.shape == (n,) and v.dtype == np.float64 and len(d) == n and d.shape == (n,), "uniform:values",
                      reason="shape/dtype", shape=list(v.shape), dtype=str(v.dtype)):
        return
    step = (high - low) / ((n - 1) if ep else n) if (n > 1 or not ep) else 0.0
    want = low + step * np.arange(n)
    ctx.close(v, want, "uniform:values", rtol=0, atol=4 * RT * scale, what="formula")
    ctx.close(v[0], low, "uniform:values", rtol=0, atol=0, what="first==low")
    if ep and n > 1:
        ctx.close(v[-1], high, "uniform:values", rtol=0, atol=RT * scale, what="last==high")
    if n > 2:
        dv = np.diff(v)
        ctx.close(dv, np.full(n - 1, step), "uniform:values", rtol=0, atol=8 * RT * scale, what="equal spacing")
    w = np.asarray(d.weights)
    ctx.expect(w.shape == (n,) and bool(np.all(w == 1.0)), "uniform:weights", weights=w)
    ctx.expect(d.ensemble_mean == case["ensemble_mean"] and d.dimensions == 1, "uniform:weights", reason="flags")
    judge_negation(ctx, d)
    for ch in case["chunks"]:
        judge_divide(ctx, d, ch, case["lazy"])
    judge_unpack(ctx, [d])
    ctx.nontrivial(n >= 2)


def _axis(x, i, dim):
    return x[i] if isinstance(x, list) else x


def check_gaussian(ctx, case):
    from abtem import distributions as D
    dim = case["dim"]

    def arg(x):
        return tuple(x) if isinstance(x, list) else x
    d = D.gaussian(standard_deviation=arg(case["sigma"]), num_samples=arg(case["n"]), dimension=dim,
                   center=arg(case["center"]), ensemble_mean=case["ensemble_mean"], sampling_limit=arg(case["limit"]),
                   normalize=case["normalize"])
    ns = [int(_axis(case["n"], i, dim)) for i in range(dim)]
    if not ctx.expect(d.dimensions == dim and tuple(d.shape) == tuple(ns) and len(d.distributions) == dim, "gaussian:grid",
                      reason="dimensions/shape", shape=list(d.shape), want=ns):
        return
    axis_w = []
    for i, f in enumerate(d.distributions):
        n, s, c, lim = ns[i], float(_axis(case["sigma"], i, dim)), float(_axis(case["center"], i, dim)), \
            float(_axis(case["limit"], i, dim))
        v = np.asarray(f.values, dtype=float)
        w = np.asarray(f.weights, dtype=float)
        if not ctx.expect(v.shape == (n,) and w.shape == (n,), "gaussian:grid", reason="axis shape", axis=i,
                          v=list(v.shape), w=list(w.shape)):
            return
        scale = abs(c) + lim * s
        # the single-sample witness (finding C36 #19) shows up here: v = c - lim*s, mirror image c + lim*s
        ctx.close(v + v[::-1], np.full(n, 2 * c), "gaussian:symmetric", rtol=0, atol=8 * RT * scale, axis=i, n=n, values=v,
                  center=c)
        ctx.expect(bool(np.all(np.abs(v - c) <= lim * s * (1 + 1e-9) + 8 * RT * scale)), "gaussian:within-limit", axis=i,
                   values=v, center=c, half_width=lim * s)
        if n >= 2:
            want = c + lim * s * (2 * np.arange(n) - (n - 1)) / (n - 1)
            ctx.close(v, want, "gaussian:values-formula", rtol=0, atol=8 * RT * scale, axis=i)
        # weights follow the Gaussian profile *at the values the distribution has*, with the advertised norm
        r = np.exp(-0.5 * ((v - c) / s) ** 2)
        r = r / (np.sqrt((r ** 2).sum()) if case["normalize"] == "intensity" else r.sum())
        ctx.close(w, r, "gaussian:weights-profile", rtol=1e-9, atol=1e-300, axis=i)
        if n >= 3:
            # shape of the profile independent of the normalisation: ratios to the largest weight
            r0 = np.exp(-0.5 * ((v - c) / s) ** 2)
            ctx.close(w / w.max(), r0 / r0.max(), "gaussian:weights-profile", rtol=1e-9, atol=1e-300, axis=i, what="ratios")
        nrm = float(np.sqrt((w ** 2).sum())) if case["normalize"] == "intensity" else float(w.sum())
        ctx.close(nrm, 1.0, "gaussian:norm", rtol=1e-12, normalize=case["normalize"], axis=i)
        ctx.expect(bool(np.all(w > 0)), "gaussian:norm", reason="non-positive weight", axis=i)
        axis_w.append(w)
    # the k-dimensional object: mesh of values, outer product of weights on the same grid
    vals = np.asarray(d.values, dtype=float)
    wts = np.asarray(d.weights, dtype=float)
    if dim == 1:
        ctx.expect(vals.shape == (ns[0],) and wts.shape == (ns[0],), "gaussian:grid", reason="1-d shape")
        ctx.close(wts, axis_w[0], "gaussian:grid", rtol=0, atol=0)
    else:
        mesh = np.stack(np.meshgrid(*[np.asarray(f.values, dtype=float) for f in d.distributions], indexing="ij"), axis=-1)
        ctx.close(vals, mesh, "gaussian:grid", rtol=0, atol=0, what="values mesh")
        want_w = axis_w[0]
        for w in axis_w[1:]:
            want_w = np.multiply.outer(want_w, w)
        ctx.close(wts, want_w, "gaussian:grid", rtol=1e-12, atol=1e-300, what="weights on the value grid",
                  shape_got=list(wts.shape), shape_want=list(want_w.shape))
        nrm = float(np.sqrt((wts ** 2).sum())) if case["normalize"] == "intensity" else float(wts.sum())
        ctx.close(nrm, 1.0, "gaussian:norm", rtol=1e-11, normalize=case["normalize"], what="joint")
    ctx.expect(d.ensemble_mean == case["ensemble_mean"], "gaussian:grid", reason="ensemble_mean")
    # negation: of the whole object and of every axis
    neg = -d
    ctx.expect(type(neg) is type(d) and neg.dimensions == dim, "negation:weights-untouched", reason="type")
    ctx.close(np.asarray(neg.values, dtype=float), -vals, "negation:values", rtol=0, atol=0)
    ctx.expect(np.array_equal(np.asarray(neg.weights, dtype=float), wts) and neg.ensemble_mean == d.ensemble_mean,
               "negation:weights-untouched")
    for f in d.distributions:
        judge_negation(ctx, f)
    if dim == 1:
        for ch in case["chunks"]:
            judge_divide(ctx, d, ch, case["lazy"])
    else:
        try:
            d.divide(1)
        except NotImplementedError:
            ctx.note("multidimensional-divide-refused")
        for ch in case["chunks"]:
            judge_divide(ctx, d.distributions[0], ch, case["lazy"])
    judge_unpack(ctx, list(d.distributions))
    ctx.nontrivial(max(ns) >= 2)


def check_values(ctx, case):
    from abtem import distributions as D
    vals = np.array(case["values"]) if case["as_array"] else list(case["values"])
    wts = case["weights"]
    if wts is not None and case["as_array"]:
        wts = np.array(wts)
    d = D.from_values(vals, None if wts is None else wts, ensemble_mean=case["ensemble_mean"])
    n = len(case["values"])
    ctx.expect(np.array_equal(np.asarray(d.values, dtype=float), np.asarray(case["values"], dtype=float)) and len(d) == n,
               "divide:partition-values", reason="from_values changed the values")
    want_w = np.ones(n) if case["weights"] is None else np.asarray(case["weights"], dtype=float)
    ctx.expect(np.array_equal(np.asarray(d.weights, dtype=float), want_w), "divide:partition-weights",
               reason="from_values changed the weights")
    judge_negation(ctx, d)
    for ch in case["chunks"]:
        judge_divide(ctx, d, ch, case["lazy"])
    if case["as_array"]:
        judge_unpack(ctx, [d])
    ctx.nontrivial(n >= 2)


def check(ctx, case):
    {"uniform": check_uniform, "gaussian": check_gaussian, "values": check_values}[case["kind"]](ctx, case)
