"""C04 Wave propagation never creates intensity; vacuum propagation is reversible.

Hook invariant (kind "pipeline"): `abtem.multislice.conventional_multislice_step`,
`FresnelPropagator.propagate`, `PotentialArray.transmission_function` and `AntialiasAperture.get_array`
are wrapped *before* the workload is built.  Every call made by abTEM itself inside real pipelines
(Probe / PlaneWave / SMatrix / Waves multislice; eager and lazy; frozen phonons; base tilt, per-axis tilt
axes and Nx2 tilt axes; propagator order 1/2; conjugate / transpose; thickness series; fftw and numpy FFT;
float32 and float64) records the float64 sum |psi|^2 of every ensemble member before and after the call:

  step-non-increase        after <= before*(1+tol) for every member of every multislice step
  propagate-non-increase   the same for every FresnelPropagator.propagate call
  propagate-intensity-budget  for every propagate call (incident wave <= 4 MB) the outgoing intensity of every member equals
                           sum_k |K|^2 |FFT(psi_in)|^2 / N, with psi_in a copy of the wave that entered *this* call and a
                           numpy complex128 DFT: intensity can only leave through the kernel modulus, and the result must
                           belong to the wave that was passed in (not to a buffer remembered from an earlier call)
  kernel-modulus           the kernel the propagator actually used has |K| <= 1 and |K| == anti-alias aperture
                           (i.e. the Fresnel phase and every tilt factor have unit modulus), incl. tilt axes
  transmission-unit-modulus  ||t|-1| <= tol for every transmission function abTEM computed
  aperture-range           every anti-alias aperture abTEM computed lies in [0,1], is exactly 1 in the flat zone
                           |k| < cutoff-taper and exactly 0 for |k| > cutoff (zones from the config values)

Building blocks (kind "blocks") evaluate the same predicates directly on `_fresnel_propagator_array`,
`_apply_tilt_to_fresnel_propagator_array`, `FresnelPropagator._calculate_array`, `antialias_aperture` and
`PotentialArray.transmission_function` (eager and dask-backed) over hostile parameters (size-1 axes, anisotropic
sampling, negative / mixed-sign / huge potentials, several anti-alias configurations incl. taper 0).

Reversibility (kind "reversible"): random waves with Fourier support strictly inside the flat part of the
anti-alias aperture (computed from `antialias.cutoff`/`antialias.taper`) are propagated by +dz and then -dz
(fresh and shared propagator object, in place or not) and sent forwards then conjugate-backwards through a
zero potential with the real multislice code:

  vacuum-preserves-intensity   sum|psi|^2 unchanged by every vacuum step
  reversible                   propagate(-dz) o propagate(+dz) = identity

Object reuse (kind "reuse"): one FresnelPropagator and one AntialiasAperture object serve a whole sequence of
*different* band-limited waves (different array objects and intensities; same shape, then another shape / lead shape, then
the first shape again; constant or per-call propagator order; in place or not; propagate or full vacuum multislice step; forward-back per wave or all forwards
first and all backs afterwards; fftw and numpy), as the multislice loop does for slices and frozen-phonon configurations:

  reuse-preserves-intensity    every wave keeps its own intensity
  reuse-reversible             -dz through the same objects returns each wave to its own original

Known finding C04-bandlimited-transmission-overshoot: the transmission function is band limited *after*
exponentiation, so |t_bl(r)| exceeds 1 next to sharp features (Gibbs overshoot).  A step may then increase
sum|psi|^2, but never by more than max_r |t_bl(r)|^2, where t_bl is rebuilt here in float64 from the potential
slice, an independent interaction constant and the config's anti-alias zones.  A step that gains intensity is
classified as the known finding only if (a) its ratio is at most max|t_bl|^2 and (b) - whenever the incident wave
could be kept (<= 4 MB, not transposed) - the gain of every ensemble member equals, within float tolerance, the
gain a float64 re-computation of "multiply by t_bl, then lose what the aperture removes" predicts for that very
wave and slice.  Any other gain is a violation.  Kind "hostile" builds such inputs on purpose (sharp-edged phase
objects, wave focused on the overshoot).
"""
import threading

import numpy as np

from vf import gen as G
from vf import lib_wave as L

PROPERTY = "C04"
TECHNIQUE = "runtime monitoring; hook invariant (float64 intensity before/after every multislice step and propagation inside real pipelines) + direct building-block monitors + reversibility on band-limited waves"
RULE = ("mixture of (a) real pipelines: random cells 1-4 atoms incl. heavy elements or random PotentialArray (positive/negative/"
        "mixed sign, smooth or white), grids 10-48 odd/even/rectangular, scalar or per-slice thicknesses, Probe/PlaneWave/SMatrix/"
        "Waves, eager/lazy, frozen phonons, no/base/per-axis/Nx2 tilt, order 1/2, conjugate, transpose, exit planes, fftw/numpy, "
        "float32/float64; (b) building blocks on grids 1-96 with anisotropic sampling, energies 20-1000 keV, dz +-0.2-50, tilts "
        "+-30 mrad, anti-alias (cutoff,taper) variants; (c) reversibility of band-limited random waves; (c2) sequences of 4-8 "
        "different waves (two grid shapes, distinct intensities) through one shared propagator/aperture object; (d) hostile sharp-edged "
        "phase objects with the wave focused on the Gibbs overshoot; non-trivial = >=2 monitored steps through a potential with "
        "max|sigma V| > 0.1 rad, or a reversibility case with >= 5 populated Fourier pixels; distinct = distinct case signature")
CLAUSES = ["step-non-increase", "propagate-non-increase", "kernel-modulus", "transmission-unit-modulus", "aperture-range",
           "aperture-flat-zone", "vacuum-preserves-intensity", "reversible", "pipeline-reach", "propagate-intensity-budget",
           "reuse-preserves-intensity", "reuse-reversible"]
QUICK = dict(n=400, time=35)
THOROUGH = dict(n=45930, time=480, shards=16)

TOL = {"float32": dict(inc=2e-5, mod=2e-5, rev=2e-4, vac=2e-5), "float64": dict(inc=1e-11, mod=1e-12, rev=1e-10, vac=1e-11)}
# |observed after/before - float64 model of the band-limited step|; the float64 value is limited by the 5e-9 relative
# difference between the CODATA-2018 interaction constant used here and the CODATA-2014 one in ase/abTEM
MODEL_TOL = {"float32": 1e-5, "float64": 5e-8}
AA_VARIANTS = [None, None, None, [0.5, 0.01], [0.8, 0.05], [2.0 / 3.0, 0.0], [0.6, 0.1], [0.9, 0.02]]
ELEMENTS = ["Au", "Au", "Si", "C", "O", "Sr", "Ti", "Mo", "Cu", "N"]


# ------------------------------------------------------------------------------------------------ generation
def _tilt_spec(rng, allow_axes=True):
    r = rng.random()
    t = lambda: float(np.round(rng.uniform(-30, 30), 3))  # noqa: E731
    if r < 0.3:
        return {"kind": "none"}
    if r < 0.55 or not allow_axes:
        return {"kind": "base", "t": [t(), t()]}
    if r < 0.8:
        nx, ny = int(rng.integers(1, 4)), int(rng.integers(0, 3))
        return {"kind": "axes", "x": [t() for _ in range(nx)], "y": [t() for _ in range(ny)] if ny else t()}
    return {"kind": "pairs", "t": [[t(), t()] for _ in range(int(rng.integers(1, 4)))]}


def _aa(rng):
    v = AA_VARIANTS[int(rng.integers(0, len(AA_VARIANTS)))]
    return None if v is None else list(v)


def _gpts(rng, lo, hi):
    g = G.rand_gpts(rng, lo, hi)
    if rng.random() < 0.3:
        g = [n | 1 for n in g]
    return g


def gen_pipeline(rng):
    cell = G.rand_cell_case(rng, max_atoms=4, max_xy=7.0, max_z=6.0, min_z=1.5, elements=ELEMENTS)
    nominal = float(rng.choice([0.5, 1.0, 2.0, float(rng.uniform(0.3, 3.0))]))
    if rng.random() < 0.3:
        w = rng.uniform(0.5, 1.5, size=int(rng.integers(2, 6)))
        st = (w / w.sum() * cell["cell"][2]).tolist()
    else:
        st = nominal
    builder = str(rng.choice(["probe", "probe", "plane", "plane", "smatrix", "waves"]))
    potkind = str(rng.choice(["atoms", "atoms", "frozen", "array"]))
    case = {
        "kind": "pipeline", "cell": cell, "gpts": _gpts(rng, 10, 48), "slice_thickness": st, "builder": builder,
        "potkind": potkind, "projection": str(rng.choice(["infinite", "finite"])),
        "energy": float(rng.choice([20e3, 30e3, 60e3, 100e3, 200e3, 300e3, 1000e3])),
        "tilt": _tilt_spec(rng) if builder != "smatrix" else {"kind": "none"},
        "lazy": bool(rng.random() < 0.45), "order": int(rng.choice([1, 1, 2])),
        "conjugate": bool(rng.random() < 0.2), "transpose": bool(rng.random() < 0.2),
        "precision": str(rng.choice(["float32", "float32", "float64"])), "fft": str(rng.choice(["fftw", "fftw", "numpy"])),
        "num_configs": int(rng.integers(1, 4)), "seed": int(rng.integers(0, 2 ** 31)),
        "exit_planes": None if rng.random() < 0.6 else int(rng.integers(1, 4)),
        "cutoff": float(rng.choice([8.0, 15.0, 30.0, 60.0])),
        "positions": (rng.random((int(rng.integers(1, 4)), 2)) * 1.4 - 0.2).round(4).tolist(),
        "on_atom": bool(rng.random() < 0.5),
        "array": {"sign": str(rng.choice(["pos", "neg", "mixed"])), "corr": float(rng.choice([0.0, 1.0, 3.0])),
                  "phase": float(rng.choice([0.3, 1.0, 3.0, 10.0])), "nslices": int(rng.integers(1, 5))},
        "lead": [int(n) for n in rng.integers(1, 4, size=int(rng.integers(0, 3)))],
    }
    if builder == "smatrix":
        # SMatrix.build takes no algorithm argument; S-matrix thickness series are not part of this property
        case["conjugate"] = case["transpose"] = False
        case["order"] = 1
        case["exit_planes"] = None
    return case


def gen_blocks(rng):
    def n():
        return int(rng.choice([1, 2, 3, 5, 8, 16, 17, 31, 32, 64, int(rng.integers(1, 97))]))
    s0 = float(rng.uniform(0.02, 0.4))
    samp = [s0, s0] if rng.random() < 0.4 else [s0, float(s0 * rng.uniform(0.3, 3.0))]
    dz = float(rng.choice([-1, 1]) * rng.choice([0.2, 0.5, 2.0, 5.0, 50.0, float(rng.uniform(0.2, 5.0))]))
    return {"kind": "blocks", "gpts": [n(), n()], "sampling": samp, "energy": float(np.exp(rng.uniform(np.log(2e4), np.log(1e6)))),
            "dz": dz, "order": int(rng.choice([1, 2])), "tilt": _tilt_spec(rng), "aa": _aa(rng),
            "precision": str(rng.choice(["float32", "float64"])),
            "pot": {"sign": str(rng.choice(["pos", "neg", "mixed"])), "amp": float(10 ** rng.uniform(-2, 5)),
                    "nslices": int(rng.integers(1, 4)), "lazy": bool(rng.random() < 0.3)},
            "seed": int(rng.integers(0, 2 ** 31))}


def gen_reversible(rng):
    s0 = float(rng.uniform(0.03, 0.3))
    samp = [s0, s0] if rng.random() < 0.5 else [s0, float(s0 * rng.uniform(0.5, 2.0))]
    return {"kind": "reversible", "gpts": _gpts(rng, 8, 72), "sampling": samp,
            "energy": float(np.exp(rng.uniform(np.log(2e4), np.log(1e6)))),
            "dz": [float(rng.choice([-1, 1]) * rng.uniform(0.2, 5.0)) for _ in range(int(rng.integers(1, 5)))],
            "order": int(rng.choice([1, 2])), "tilt": _tilt_spec(rng), "aa": _aa(rng),
            "precision": str(rng.choice(["float32", "float64", "float64"])), "fft": str(rng.choice(["fftw", "numpy"])),
            "lead": [int(n) for n in rng.integers(1, 4, size=int(rng.integers(0, 3)))],
            "fill": float(rng.choice([1.0, 0.5, 0.1])), "in_place": bool(rng.random() < 0.5),
            "shared": bool(rng.random() < 0.6), "transpose": bool(rng.random() < 0.3), "seed": int(rng.integers(0, 2 ** 31))}


def gen_hostile(rng):
    return {"kind": "hostile", "gpts": _gpts(rng, 12, 40), "sampling": [float(rng.uniform(0.05, 0.3))] * 2,
            "energy": float(rng.choice([60e3, 100e3, 300e3])), "pattern": str(rng.choice(["half", "square", "binary", "stripe"])),
            "phase": float(rng.choice([-1, 1]) * rng.uniform(1.0, np.pi)), "dz": float(rng.uniform(0.2, 3.0)),
            "order": int(rng.choice([1, 2])), "precision": str(rng.choice(["float32", "float64"])),
            "seed": int(rng.integers(0, 2 ** 31))}


def gen_reuse(rng):
    s0 = float(rng.uniform(0.03, 0.3))
    shapes = []
    for _ in range(2):
        shapes.append({"gpts": _gpts(rng, 8, 56), "lead": [int(n) for n in rng.integers(1, 4, size=int(rng.integers(0, 3)))]})
    if rng.random() < 0.3:
        shapes[1]["gpts"] = list(shapes[0]["gpts"])        # same grid, different ensemble shape (or identical shape)
    # same shape twice, another shape, the first shape again, then anything
    order = [0, 0, 1, 0] + [int(i) for i in rng.integers(0, 2, size=int(rng.integers(0, 5)))]
    items = [{"shape": i, "amp": float(np.round(2.0 ** rng.uniform(-3, 3), 4)), "in_place": bool(rng.random() < 0.7),
              "op": str(rng.choice(["propagate", "propagate", "step"])), "dz": float(rng.uniform(0.2, 5.0)),
              "fill": float(rng.choice([1.0, 0.5])), "order": int(rng.choice([1, 2]))} for i in order]
    return {"kind": "reuse", "sampling": [s0, s0] if rng.random() < 0.5 else [s0, float(s0 * rng.uniform(0.5, 2.0))],
            "energy": float(np.exp(rng.uniform(np.log(2e4), np.log(1e6)))), "shapes": shapes, "items": items,
            "same_dz": bool(rng.random() < 0.5), "interleave": bool(rng.random() < 0.5), "order": int(rng.choice([1, 2])),
            "mixed_order": bool(rng.random() < 0.35), "back_reversed": bool(rng.random() < 0.5),
            "tilt": _tilt_spec(rng), "aa": _aa(rng), "precision": str(rng.choice(["float32", "float64"])),
            "fft": str(rng.choice(["fftw", "fftw", "numpy"])), "seed": int(rng.integers(0, 2 ** 31))}


def gen(rng, tier):
    r = rng.random()
    if r < 0.07:
        return gen_pipeline(rng)
    if r < 0.42:
        return gen_blocks(rng)
    if r < 0.78:
        return gen_reversible(rng)
    if r < 0.93:
        return gen_reuse(rng)
    return gen_hostile(rng)


def fixed_cases(tier):
    rng = np.random.default_rng(4)
    out = []
    # one pipeline per builder x tilt kind, eager and lazy, so every hook is reached in every run
    combos = [("probe", "axes", True), ("plane", "pairs", False), ("smatrix", "none", True), ("waves", "base", False),
              ("probe", "base", False), ("plane", "axes", True)]
    for k, (b, tk, lazy) in enumerate(combos):
        c = gen_pipeline(rng)
        c["builder"], c["lazy"] = b, lazy
        c["potkind"] = ["atoms", "frozen", "atoms", "array", "frozen", "array"][k]
        while c["tilt"]["kind"] != tk:
            c["tilt"] = _tilt_spec(rng)
        if b == "smatrix":
            c["conjugate"] = c["transpose"] = False
            c["order"] = 1
            c["exit_planes"] = None
        else:
            c["order"], c["conjugate"], c["transpose"] = [(2, False, False), (1, True, False), (1, False, True),
                                                           (2, True, True), (1, False, False), (2, False, True)][k]
        c["gpts"] = [min(n, 32) for n in c["gpts"]]
        if c["potkind"] == "frozen" and not lazy:
            # eager loop over several configurations: every configuration is a new wave array through the same
            # propagator / aperture objects, with the default (fftw, cached plans) convolution
            c["num_configs"], c["fft"] = 3, "fftw"
        out.append(c)
    out.append(gen_hostile(rng))
    out.append(dict(gen_hostile(rng), pattern="half", phase=float(np.pi), precision="float64"))
    for prec, inter in (("float32", False), ("float64", True)):
        c = gen_reuse(rng)
        c.update(precision=prec, fft="fftw", interleave=inter, same_dz=True, tilt={"kind": "none"})
        c["mixed_order"] = False
        for it in c["items"][:4]:
            it["in_place"], it["op"] = True, "propagate"
        out.append(c)
    # same grid and tilt axes, different number of ensemble axes through one propagator
    c = gen_reuse(rng)
    c.update(precision="float64", fft="fftw", interleave=True, same_dz=True, mixed_order=False, back_reversed=False,
             tilt={"kind": "axes", "x": [12.5, -20.0], "y": 7.0})
    c["shapes"] = [{"gpts": [24, 18], "lead": []}, {"gpts": [24, 18], "lead": [3]}]
    c["items"] = c["items"][:4]
    for it in c["items"]:
        it["op"] = "propagate"
    out.append(c)
    # same waves shape and distance, propagator order changing from call to call
    c = gen_reuse(rng)
    c.update(precision="float64", fft="fftw", interleave=True, same_dz=True, mixed_order=True, back_reversed=True,
             energy=30e3, tilt={"kind": "none"}, aa=None)
    c["shapes"][1] = dict(c["shapes"][0])
    c["items"] = c["items"][:4]
    for it, o in zip(c["items"], (1, 2, 2, 1)):
        it["order"], it["op"], it["dz"] = o, "propagate", 4.0
    out.append(c)
    # every clause is evaluated even when a loaded machine leaves no time for random cases
    for prec in ("float32", "float64"):
        out.append(dict(gen_reversible(rng), precision=prec, tilt={"kind": "axes", "x": [12.5, -20.0], "y": 7.0}))
        out.append(dict(gen_blocks(rng), precision=prec, tilt={"kind": "pairs", "t": [[25.0, -30.0], [-3.0, 4.0]]}))
    return out


# ------------------------------------------------------------------------------------------------ hooks
class Recorder:
    """Collects what the wrapped abTEM functions saw.  Appends only (safe under the dask thread pool)."""

    def __init__(self):
        self.steps = []        # (max ratio, bound or None, n members, max|sigma V|, precision)
        self.props = []        # (max ratio, kernel max modulus, max ||K|-A|, n members, vacuum info)
        self.trans = []        # max ||t|-1|
        self.apert = []        # (min, max, flat residual, outside residual, n flat, n outside)
        self.lock = threading.Lock()
        self.depth = threading.local()


def _prec_of(arr):
    return "float64" if np.asarray(arr).dtype in (np.complex128, np.float64) else "float32"


def _ratio(before, after):
    """max over members of after/before; members with before==0 must stay (numerically) 0."""
    b = np.atleast_1d(before).ravel()
    a = np.atleast_1d(after).ravel()
    if a.shape != b.shape:          # the call changed the ensemble shape of the waves
        return float("inf")
    pos = b > 0
    r = float((a[pos] / b[pos]).max()) if pos.any() else 0.0
    if (~pos).any() and float(a[~pos].max()) > 0:
        r = float("inf")
    return r


def model_tbl_bound(v, energy, sampling, conjugate=False):
    """max_r |t_bl(r)|^2 for t = exp(i sigma V), band limited by *an* aperture that is 1 in the flat zone, 0 outside
    and a raised cosine in between (the property does not fix the taper shape; the bound is insensitive to it at the
    10^-3 level, which is absorbed below by evaluating both the widest and the narrowest admissible aperture)."""
    v = np.asarray(v, dtype=np.float64)
    t = np.exp(1j * L.sigma(energy) * v)
    flat, outside = L.aa_zones(v.shape, sampling, margin=0.0)
    spec = np.fft.fft2(t)
    c, tp = L.aa_config()
    smax = max(sampling)
    cutoff, taper = c / smax / 2.0, tp / smax
    r = L.kradius(v.shape, sampling)
    best = 0.0
    apertures = [flat.astype(float), (~outside).astype(float)]
    if taper > 0:
        cosine = np.where(flat, 1.0, np.where(outside, 0.0, 0.5 * (1 + np.cos(np.pi * (r - cutoff + taper) / taper))))
        apertures.append(cosine)
    for a in apertures:
        best = max(best, float((np.abs(np.fft.ifft2(spec * a)) ** 2).max()))
    return best


def model_step_ratios(psi, v, energy, sampling, conjugate):
    """after/before of one (non-transposed) multislice step per member, re-computed in float64: the wave is multiplied by
    the band-limited transmission function t_bl = IFFT(A FFT(exp(+-i sigma V))) and then loses what the propagator kernel
    (|K| = A, checked by the kernel-modulus clause) removes.  A is abTEM's own aperture array (its range / flat zone / zero
    zone are judged by the aperture clauses; the shape of the taper is not fixed by the property)."""
    from abtem.antialias import antialias_aperture
    v = np.asarray(v, dtype=np.float64)
    a = np.asarray(antialias_aperture(v.shape, tuple(sampling), np), dtype=np.float64)
    t = np.exp((-1j if conjugate else 1j) * L.sigma(energy) * v)
    tbl = np.fft.ifft2(np.fft.fft2(t) * a)
    flat = np.asarray(psi).reshape((-1,) + v.shape)
    out = np.empty(len(flat))
    for i, m in enumerate(flat):
        m = m.astype(np.complex128)
        b = float((m.real ** 2 + m.imag ** 2).sum())
        f = np.fft.fft2(m * tbl) * a
        out[i] = float((f.real ** 2 + f.imag ** 2).sum()) / v.size / b if b > 0 else 0.0
    return out


def _budget_residual(psi0, kmod, before, after):
    """max over members of |after - sum_k |K|^2 |FFT(psi_in)|^2 / N| / before: what leaves a propagation is exactly what the
    kernel modulus lets through of the wave that *entered this call* (numpy complex128 DFT of a copy of the input)."""
    n = psi0.shape[-2] * psi0.shape[-1]
    k2 = np.broadcast_to(kmod ** 2, psi0.shape).reshape((-1,) + psi0.shape[-2:])
    flat = psi0.reshape((-1,) + psi0.shape[-2:])
    b = np.atleast_1d(before).ravel()
    a = np.atleast_1d(after).ravel()
    worst = 0.0
    for i, m in enumerate(flat):
        f = np.fft.fft2(m.astype(np.complex128))
        want = float(((f.real ** 2 + f.imag ** 2) * k2[i]).sum()) / n
        scale = b[i] if b[i] > 0 else 1.0
        worst = max(worst, abs(a[i] - want) / scale)
    return worst


def make_hooks(rec):
    import abtem

    def wrap_step(orig):
        def step(waves, potential_slice, *args, **kwargs):
            arr = waves._array
            before = L.intensity(arr)
            prec = _prec_of(arr)
            names = ("propagator", "antialias_aperture", "conjugate", "transpose", "order")
            opts = dict(zip(names, args))
            opts.update(kwargs)
            conj, transpose = bool(opts.get("conjugate", False)), bool(opts.get("transpose", False))
            # the step works in place: keep the incident wave (when small) so that a gain can be pinned to its mechanism
            psi0 = np.array(arr, copy=True) if (np.asarray(arr).nbytes <= 4e6 and not transpose) else None
            out = orig(waves, potential_slice, *args, **kwargs)
            after = L.intensity(out._array)
            ratio = _ratio(before, after)
            bound = model = phase = None
            try:
                from abtem.potentials.iam import TransmissionFunction
                a0 = np.asarray(potential_slice.array[0])
                gain = ratio > 1 + TOL[prec]["inc"]
                if isinstance(potential_slice, TransmissionFunction):
                    phase = float("nan")
                    if gain:
                        bound = float((np.abs(a0.astype(np.complex128)) ** 2).max())
                else:
                    phase = float(np.abs(a0).max()) * L.sigma(waves._valid_energy)
                    if gain:
                        bound = model_tbl_bound(a0, waves._valid_energy, potential_slice.sampling)
                        if psi0 is not None:
                            want = model_step_ratios(psi0, a0, waves._valid_energy, potential_slice.sampling, conj)
                            b = np.atleast_1d(before).ravel()
                            got = np.atleast_1d(after).ravel() / np.where(b > 0, b, 1.0)
                            model = float(np.abs(got - want.ravel())[b > 0].max()) if (b > 0).any() else 0.0
            except Exception as e:  # the model could not be evaluated: leave unclassified (-> violation if ratio > 1)
                bound = model = None
                phase = repr(e)
            rec.steps.append((ratio, bound, int(np.size(before)), phase, prec, model))
            return out
        return step

    def wrap_propagate(orig):
        def propagate(self, waves, thickness, in_place=False, order=1):
            arr = waves._array
            before = L.intensity(arr)
            prec = _prec_of(arr)
            # the call may work in place (and on cached FFT plans): keep the incident wave when it is small
            psi0 = np.array(arr, copy=True) if np.asarray(arr).nbytes <= 4e6 else None
            out = orig(self, waves, thickness, in_place=in_place, order=order)
            after = L.intensity(out._array)
            ratio = _ratio(before, after)
            kmax = kres = budget = None
            try:
                k = np.asarray(self._array)
                from abtem.antialias import antialias_aperture
                a = np.asarray(antialias_aperture(out._valid_gpts, out._valid_sampling, np), dtype=np.float64)
                mod = np.abs(k.astype(np.complex128))
                kmax = float(mod.max())
                kres = float(np.abs(mod - a).max())
                if psi0 is not None and np.shape(after) == np.shape(before):
                    budget = _budget_residual(psi0, mod, before, after)
            except Exception as e:
                kres = repr(e)
            rec.props.append((ratio, kmax, kres, int(np.size(before)), prec, float(thickness), budget))
            return out
        return propagate

    def wrap_transmission(orig):
        def transmission_function(self, energy):
            t = orig(self, energy)
            try:
                a = t.array
                if hasattr(a, "compute"):
                    a = a.compute()
                a = np.asarray(a)
                rec.trans.append((float(np.abs(np.abs(a.astype(np.complex128)) - 1.0).max()), _prec_of(a),
                                  bool(np.iscomplexobj(a))))
            except Exception as e:
                rec.trans.append((repr(e), "float32", False))
            return t
        return transmission_function

    def wrap_aperture(orig):
        def get_array(self, x):
            a = orig(self, x)
            try:
                rec.apert.append(_aperture_stats(np.asarray(a), x._valid_gpts, x._valid_sampling))
            except Exception as e:
                rec.apert.append(repr(e))
            return a
        return get_array

    import abtem.multislice as ms
    from abtem.antialias import AntialiasAperture
    from abtem.potentials.iam import PotentialArray
    return [(ms, "conventional_multislice_step", wrap_step), (ms.FresnelPropagator, "propagate", wrap_propagate),
            (PotentialArray, "transmission_function", wrap_transmission), (AntialiasAperture, "get_array", wrap_aperture)]


def _aperture_stats(a, gpts, sampling):
    a = np.asarray(a, dtype=np.float64)
    flat, outside = L.aa_zones(gpts, sampling)
    fres = float(np.abs(a[flat] - 1.0).max()) if flat.any() else 0.0
    ores = float(np.abs(a[outside]).max()) if outside.any() else 0.0
    return (float(a.min()), float(a.max()), fres, ores, int(flat.sum()), int(outside.sum()))


def judge(ctx, rec, case, vacuum=False):
    """Evaluate everything the hooks recorded during one case."""
    for ratio, bound, n, phase, prec, model in rec.steps:
        tol = TOL[prec]["inc"]
        ctx.monitor("step-hook-evaluations")
        ctx.monitor("step-hook-members", n)
        if ratio <= 1 + tol:
            ctx.expect(True, "step-non-increase")
            r = (ratio - 1) / tol
            if r > ctx.residuals.get("step-non-increase", -1):
                ctx.residuals["step-non-increase"] = r
            continue
        # a gain: known finding only if it is exactly the gain the band-limited transmission function predicts
        # (tight float64 model, per member) or - when the incident wave was too large to keep / the step was transposed -
        # at least below the rigorous bound max|t_bl|^2
        within_bound = bound is not None and bound > 1 + tol and ratio <= bound * (1 + 10 * tol)
        matches_model = model is None or model <= MODEL_TOL[prec]
        if within_bound and matches_model:
            ctx.clauses["step-non-increase"] += 1
            ctx.note("overshoot-steps" + ("-model-matched" if model is not None else "-bound-only"))
            ctx.known("C04-bandlimited-transmission-overshoot")
            if model is not None:
                r = model / MODEL_TOL[prec]
                if r > ctx.residuals.get("overshoot-gain-vs-model", -1):
                    ctx.residuals["overshoot-gain-vs-model"] = r
            if ratio - 1 > ctx.raw_residuals.get("largest-step-gain", -1):
                ctx.raw_residuals["largest-step-gain"] = ratio - 1
        else:
            ctx.expect(False, "step-non-increase", ratio=ratio, model_bound=bound, gain_minus_model=model, max_phase=phase,
                       precision=prec)
    for ratio, kmax, kres, n, prec, dz, budget in rec.props:
        ctx.monitor("propagate-hook-evaluations")
        ctx.expect(ratio <= 1 + TOL[prec]["inc"], "propagate-non-increase", ratio=ratio, precision=prec, dz=dz)
        ok = isinstance(kres, float) and kmax <= 1 + TOL[prec]["mod"] and kres <= 5 * TOL[prec]["mod"]
        ctx.expect(ok, "kernel-modulus", where="pipeline", kernel_max=kmax, modulus_minus_aperture=kres, precision=prec, dz=dz)
        if budget is not None:
            ctx.close(budget, 0.0, "propagate-intensity-budget", rtol=0, atol=TOL[prec]["vac"], precision=prec, dz=dz, ratio=ratio)
    for res, prec, is_complex in rec.trans:
        ctx.monitor("transmission-hook-evaluations")
        ctx.expect(isinstance(res, float) and is_complex and res <= TOL[prec]["mod"], "transmission-unit-modulus",
                   where="pipeline", residual=res, precision=prec)
    for st in rec.apert:
        ctx.monitor("aperture-hook-evaluations")
        _judge_aperture(ctx, st, "pipeline")


def _judge_aperture(ctx, st, where):
    if not isinstance(st, tuple):
        ctx.expect(False, "aperture-range", where=where, error=st)
        return
    lo, hi, fres, ores, nflat, nout = st
    ctx.expect(lo >= 0.0 and hi <= 1.0, "aperture-range", where=where, min=lo, max=hi)
    ctx.expect(fres == 0.0 and ores == 0.0, "aperture-flat-zone", where=where, flat_residual=fres, outside_residual=ores,
               n_flat=nflat, n_outside=nout)


# ------------------------------------------------------------------------------------------------ workloads
def _tilt_arg(spec):
    from abtem import distributions as D
    k = spec["kind"]
    if k == "none":
        return (0.0, 0.0)
    if k == "base":
        return tuple(spec["t"])
    if k == "axes":
        x = D.from_values(spec["x"])
        y = D.from_values(spec["y"]) if isinstance(spec["y"], list) else spec["y"]
        return (x, y)
    return np.array(spec["t"], dtype=float)


def _tilted_waves(array_fn, gpts, sampling, energy, tilt, lead=()):
    """Waves with the tilt metadata / tilt axes abTEM itself attaches (taken from a built PlaneWave), carrying the
    array returned by array_fn(lead_shape)."""
    import abtem
    pw = abtem.PlaneWave(energy=energy, gpts=tuple(gpts), sampling=tuple(sampling), tilt=_tilt_arg(tilt)).build(lazy=False)
    from abtem.core.axes import OrdinalAxis
    lead_axes = [OrdinalAxis(values=tuple(range(n))) for n in lead]
    shape = tuple(pw.shape[:-2]) + tuple(lead)
    arr = array_fn(shape).astype(pw.array.dtype)
    meta = {k: v for k, v in pw.metadata.items() if k.startswith("base_tilt")}
    return abtem.Waves(arr, energy=energy, sampling=tuple(sampling), metadata=meta,
                       ensemble_axes_metadata=list(pw.ensemble_axes_metadata) + lead_axes)


def _potential(case, rng):
    import abtem
    gpts = tuple(case["gpts"])
    st = case["slice_thickness"]
    st_arg = st if isinstance(st, float) else tuple(st)
    ep = case["exit_planes"]
    atoms = G.atoms_from(case["cell"])
    pk = case["potkind"]
    if pk == "array":
        a = case["array"]
        extent = case["cell"]["cell"][:2]
        sig = L.sigma(case["energy"])
        slices = []
        for _ in range(a["nslices"]):
            f = L.smooth_field(rng, gpts, a["corr"])
            if a["sign"] == "pos":
                f = np.abs(f)
            elif a["sign"] == "neg":
                f = -np.abs(f)
            slices.append(f * a["phase"] / sig)
        thick = tuple(np.resize(np.atleast_1d(st_arg), a["nslices"]).tolist())
        dtype = np.float64 if case["precision"] == "float64" else np.float32
        kw = {} if ep is None else {"exit_planes": ep}
        return abtem.PotentialArray(np.array(slices, dtype=dtype), slice_thickness=thick, extent=tuple(extent), **kw), 1
    kw = {} if ep is None else {"exit_planes": ep}
    if pk == "frozen":
        src = abtem.FrozenPhonons(atoms, num_configs=case["num_configs"], sigmas=0.1, seed=case["seed"] % 10000)
        ncfg = case["num_configs"]
    else:
        src, ncfg = atoms, 1
    return abtem.Potential(src, gpts=gpts, slice_thickness=st_arg, projection=case["projection"], **kw), ncfg


def run_pipeline(ctx, case, rec):
    import abtem
    from abtem.multislice import FourierMultislice
    rng = np.random.default_rng(case["seed"])
    pot, ncfg = _potential(case, rng)
    alg = FourierMultislice(order=case["order"], conjugate=case["conjugate"], transpose=case["transpose"])
    b = case["builder"]
    tilt = _tilt_arg(case["tilt"])
    ext = pot.extent
    lazy = case["lazy"]
    if b == "probe":
        pos = np.array(case["positions"]) * np.array(ext)
        if case["on_atom"]:
            pos[0] = np.array(case["cell"]["positions"][0][:2])
        probe = abtem.Probe(energy=case["energy"], semiangle_cutoff=case["cutoff"], tilt=tilt)
        out = probe.multislice(pot, scan=abtem.CustomScan(pos), lazy=lazy, algorithm=alg)
    elif b == "plane":
        out = abtem.PlaneWave(energy=case["energy"], tilt=tilt).multislice(pot, lazy=lazy, algorithm=alg)
    elif b == "smatrix":
        s = abtem.SMatrix(potential=pot, energy=case["energy"], semiangle_cutoff=min(case["cutoff"], 30.0), interpolation=1)
        out = s.build(lazy=lazy)
    else:
        def arr(shape):
            return (rng.standard_normal(shape + tuple(case["gpts"])) + 1j * rng.standard_normal(shape + tuple(case["gpts"])))
        w = _tilted_waves(arr, case["gpts"], pot.sampling, case["energy"], case["tilt"], lead=case["lead"])
        if lazy:
            w = w.ensure_lazy()
        out = w.multislice(pot, algorithm=alg)
    if hasattr(out, "compute"):
        out = out.compute()
    return pot, ncfg


def check_pipeline(ctx, case):
    import abtem
    import warnings
    rec = Recorder()
    with warnings.catch_warnings():
        warnings.simplefilter("ignore")
        with abtem.config.set({"precision": case["precision"], "fft": case["fft"], "diagnostics.progress_bar": False}):
            with G.Wrapped() as w:
                for owner, name, make in make_hooks(rec):
                    w.patch(owner, name, make)
                pot, ncfg = run_pipeline(ctx, case, rec)
    nslices = pot.num_slices
    # reach: the hooks must have seen every slice of every configuration at least once
    ctx.expect(len(rec.steps) >= nslices * ncfg and len(rec.props) >= len(rec.steps), "pipeline-reach",
               steps=len(rec.steps), propagations=len(rec.props), slices=nslices, configs=ncfg)
    ctx.monitor("pipelines-" + case["builder"] + ("-lazy" if case["lazy"] else "-eager"))
    judge(ctx, rec, case)
    phases = [st[3] for st in rec.steps if isinstance(st[3], float) and st[3] == st[3]]
    ctx.nontrivial(len(rec.steps) >= 2 and phases and max(phases) > 0.1)


def _aa_ctx(case):
    import abtem
    cfg = {"precision": case["precision"], "diagnostics.progress_bar": False}
    if case.get("aa"):
        cfg["antialias.cutoff"], cfg["antialias.taper"] = case["aa"]
    if case.get("fft"):
        cfg["fft"] = case["fft"]
    return abtem.config.set(cfg)


def check_blocks(ctx, case):
    import abtem
    import dask.array as da
    import abtem.multislice as ms
    from abtem.antialias import antialias_aperture
    rng = np.random.default_rng(case["seed"])
    gpts, samp, prec = tuple(case["gpts"]), tuple(case["sampling"]), case["precision"]
    tol = TOL[prec]["mod"]
    with _aa_ctx(case):
        # bare Fresnel phase factor
        p = np.asarray(ms._fresnel_propagator_array(case["dz"], gpts, samp, case["energy"], "cpu", order=case["order"]))
        ctx.expect(np.iscomplexobj(p) and p.shape == gpts and float(np.abs(np.abs(p.astype(np.complex128)) - 1).max()) <= tol,
                   "kernel-modulus", where="fresnel-phase", residual=float(np.abs(np.abs(p.astype(np.complex128)) - 1).max()))
        # tilt factor on a unit array
        tl = case["tilt"]
        pairs = tl["t"] if tl["kind"] == "pairs" else ([tl["t"]] if tl["kind"] == "base" else [[3.0, -7.0]])
        for tarr in (pairs[0], pairs):
            k = np.asarray(ms._apply_tilt_to_fresnel_propagator_array(np.ones(gpts, dtype=p.dtype), samp, case["dz"], np.array(tarr)))
            res = float(np.abs(np.abs(k.astype(np.complex128)) - 1).max())
            ctx.expect(res <= tol, "kernel-modulus", where="tilt-factor", residual=res)
        # aperture
        a = np.asarray(antialias_aperture(gpts, samp, np))
        _judge_aperture(ctx, _aperture_stats(a, gpts, samp), "direct")
        # full kernel for waves carrying abTEM's own tilt metadata / axes
        w = _tilted_waves(lambda shape: np.ones(shape + gpts, dtype=complex), gpts, samp, case["energy"], tl)
        k = np.asarray(ms.FresnelPropagator._calculate_array(w, case["dz"], order=case["order"]))
        mod = np.abs(k.astype(np.complex128))
        ok = k.shape[-2:] == gpts and float(mod.max()) <= 1 + tol and float(np.abs(mod - a).max()) <= 5 * tol
        ctx.expect(ok, "kernel-modulus", where="full-kernel", kernel_max=float(mod.max()),
                   modulus_minus_aperture=float(np.abs(mod - a).max()), shape=list(k.shape))
        flat, _ = L.aa_zones(gpts, samp)
        if flat.any():
            ctx.expect(float(np.abs(mod[..., flat] - 1).max()) <= tol, "kernel-modulus", where="flat-zone",
                       residual=float(np.abs(mod[..., flat] - 1).max()))
        # transmission function of real potentials of any sign / size
        pc = case["pot"]
        v = rng.standard_normal((pc["nslices"],) + gpts)
        v = np.abs(v) if pc["sign"] == "pos" else (-np.abs(v) if pc["sign"] == "neg" else v)
        v = (v * pc["amp"]).astype(np.float64 if prec == "float64" else np.float32)
        arr = da.from_array(v, chunks=(1,) + gpts) if pc["lazy"] else v
        pa = abtem.PotentialArray(arr, slice_thickness=1.0, sampling=samp)
        t = pa.transmission_function(case["energy"])
        ta = L.member_arrays(t)
        res = float(np.abs(np.abs(ta.astype(np.complex128)) - 1).max())
        ctx.expect(np.iscomplexobj(ta) and ta.shape == v.shape and res <= tol, "transmission-unit-modulus", where="direct",
                   residual=res, sign=pc["sign"], amp=pc["amp"])
    ctx.nontrivial(gpts[0] * gpts[1] >= 16)


def check_reversible(ctx, case):
    import abtem
    import abtem.multislice as ms
    from abtem.antialias import AntialiasAperture
    rng = np.random.default_rng(case["seed"])
    gpts, samp, prec = tuple(case["gpts"]), tuple(case["sampling"]), case["precision"]
    tol = TOL[prec]
    rec = Recorder()
    with _aa_ctx(case), G.Wrapped() as wr:
        for owner, name, make in make_hooks(rec):
            wr.patch(owner, name, make)
        support = {}

        def arr(shape):
            a, flat = L.bandlimited(rng, shape, gpts, samp, fill=case["fill"])
            support["n"] = int(flat.sum())
            return a
        w0 = _tilted_waves(arr, gpts, samp, case["energy"], case["tilt"], lead=case["lead"])
        ref = w0.array.copy()
        i0 = L.intensity(ref)
        scale = float(np.abs(ref).max())
        # (1) FresnelPropagator.propagate(+dz) then (-dz)
        prop = ms.FresnelPropagator()
        w = w0.copy()
        for dz in case["dz"]:
            w = prop.propagate(w, dz, in_place=case["in_place"], order=case["order"])
            ctx.close(L.intensity(w.array) / i0, np.ones_like(i0), "vacuum-preserves-intensity", rtol=0, atol=tol["vac"], dz=dz)
        back = prop if case["shared"] else ms.FresnelPropagator()
        for dz in reversed(case["dz"]):
            w = back.propagate(w, -dz, in_place=case["in_place"], order=case["order"])
        ctx.close(w.array, ref, "reversible", rtol=0, atol=tol["rev"] * scale, how="propagate", shared=case["shared"])
        ctx.expect(np.array_equal(w0.array, ref) or case["in_place"], "reversible", how="input-untouched-when-not-in-place")
        # (2) the real multislice loop through a zero potential, forwards then conjugate (thickness -> -thickness)
        dzs = [abs(d) for d in case["dz"]]
        dtype = np.float64 if prec == "float64" else np.float32
        vac = abtem.PotentialArray(np.zeros((len(dzs),) + gpts, dtype=dtype), slice_thickness=tuple(dzs), sampling=samp)
        rev = abtem.PotentialArray(np.zeros((len(dzs),) + gpts, dtype=dtype), slice_thickness=tuple(dzs[::-1]), sampling=samp)
        n0 = len(rec.steps)
        fwd = w0.multislice(vac, algorithm=ms.FourierMultislice(order=case["order"], transpose=case["transpose"]))
        fwd = fwd.compute() if hasattr(fwd, "compute") and fwd.is_lazy else fwd
        ctx.close(L.intensity(fwd.array) / i0, np.ones_like(i0), "vacuum-preserves-intensity", rtol=0, atol=tol["vac"] * len(dzs),
                  how="multislice")
        bwd = fwd.multislice(rev, algorithm=ms.FourierMultislice(order=case["order"], conjugate=True,
                                                                 transpose=not case["transpose"]))
        bwd = bwd.compute() if hasattr(bwd, "compute") and bwd.is_lazy else bwd
        ctx.close(np.asarray(bwd.array).reshape(ref.shape), ref, "reversible", rtol=0, atol=tol["rev"] * scale, how="multislice-conjugate")
        ctx.expect(len(rec.steps) - n0 == 2 * len(dzs), "pipeline-reach", steps=len(rec.steps) - n0, want=2 * len(dzs))
        # every vacuum step individually
        for ratio, bound, n, phase, p, _m in rec.steps[n0:]:
            ctx.close(ratio, 1.0, "vacuum-preserves-intensity", rtol=0, atol=tol["vac"], how="step-hook")
    judge(ctx, rec, case)
    ctx.nontrivial(support.get("n", 0) >= 5)


def check_reuse(ctx, case):
    import abtem
    import abtem.multislice as ms
    from abtem.antialias import AntialiasAperture
    rng = np.random.default_rng(case["seed"])
    samp, prec = tuple(case["sampling"]), case["precision"]
    tol = TOL[prec]
    rec = Recorder()
    with _aa_ctx(case), G.Wrapped() as wr:
        for owner, name, make in make_hooks(rec):
            wr.patch(owner, name, make)
        prop = ms.FresnelPropagator()
        aa = AntialiasAperture()
        dtype = np.float64 if prec == "float64" else np.float32
        alive = []

        def make(it):
            sh = case["shapes"][it["shape"]]
            gpts = tuple(sh["gpts"])

            def arr(shape):
                a, _ = L.bandlimited(rng, shape, gpts, samp, fill=it["fill"])
                a *= it["amp"] / np.sqrt(L.intensity(a))[..., None, None]
                return a
            w = L.tilted_waves(arr, gpts, samp, case["energy"], case["tilt"], lead=sh["lead"])
            return w, w.array.copy(), gpts

        def move(w, it, gpts, sign):
            dz = case["items"][0]["dz"] if case["same_dz"] else it["dz"]
            order = it["order"] if case["mixed_order"] else case["order"]
            if it["op"] == "propagate":
                return prop.propagate(w, sign * dz, in_place=it["in_place"], order=order)
            vac = abtem.PotentialArray(np.zeros((1,) + gpts, dtype=dtype), slice_thickness=dz, sampling=samp)
            return ms.conventional_multislice_step(w, next(vac.generate_slices()), prop, aa, conjugate=sign < 0, order=order)

        def judge_fwd(f, ref, k, it):
            i0 = L.intensity(ref)
            ctx.close(L.intensity(f.array) / i0, np.ones_like(i0), "reuse-preserves-intensity", rtol=0, atol=tol["vac"],
                      item=k, op=it["op"], in_place=it["in_place"], amp=it["amp"])

        def judge_back(b, ref, k, it):
            ctx.close(b.array, ref, "reuse-reversible", rtol=0, atol=tol["rev"] * float(np.abs(ref).max()), item=k,
                      op=it["op"], in_place=it["in_place"], amp=it["amp"])

        if case["interleave"]:
            fwd = []
            for k, it in enumerate(case["items"]):
                w, ref, gpts = make(it)
                f = move(w, it, gpts, +1)
                judge_fwd(f, ref, k, it)
                fwd.append((f, ref, gpts, it, k))
                alive.append(w)
            for f, ref, gpts, it, k in (fwd[::-1] if case["back_reversed"] else fwd):
                judge_back(move(f, it, gpts, -1), ref, k, it)
        else:
            for k, it in enumerate(case["items"]):
                w, ref, gpts = make(it)
                f = move(w, it, gpts, +1)
                judge_fwd(f, ref, k, it)
                judge_back(move(f, it, gpts, -1), ref, k, it)
                alive.append(w)         # keep earlier buffers alive: a stale reference must not be rescued by reuse of memory
    judge(ctx, rec, case)
    ctx.nontrivial(len({it["amp"] for it in case["items"]}) >= 2)


def _pattern(case, rng):
    n, m = case["gpts"]
    p = case["pattern"]
    v = np.zeros((n, m))
    if p == "half":
        v[: n // 2] = 1
    elif p == "square":
        v[n // 4: 3 * n // 4, m // 4: 3 * m // 4] = 1
    elif p == "stripe":
        v[:, ::4] = 1
        v[:, 1::4] = 1
    else:
        v = (rng.random((n, m)) < 0.5).astype(float)
    return v


def check_hostile(ctx, case):
    import abtem
    import abtem.multislice as ms
    from abtem.antialias import AntialiasAperture
    rng = np.random.default_rng(case["seed"])
    gpts, samp, prec = tuple(case["gpts"]), tuple(case["sampling"]), case["precision"]
    rec = Recorder()
    with abtem.config.set({"precision": prec}), G.Wrapped() as wr:
        for owner, name, make in make_hooks(rec):
            wr.patch(owner, name, make)
        dtype = np.float64 if prec == "float64" else np.float32
        v = _pattern(case, rng) * case["phase"] / L.sigma(case["energy"])
        # focus a band-limited wave where the band-limited transmission function overshoots most
        t = np.exp(1j * L.sigma(case["energy"]) * v)
        flat, _ = L.aa_zones(gpts, samp, margin=1e-3)
        tbl = np.fft.ifft2(np.fft.fft2(t) * flat)
        ix = np.unravel_index(int(np.argmax(np.abs(tbl))), gpts)
        delta = np.zeros(gpts, dtype=complex)
        delta[ix] = 1.0
        psi = np.fft.ifft2(np.fft.fft2(delta) * flat)
        pa = abtem.PotentialArray(v[None].astype(dtype), slice_thickness=case["dz"], sampling=samp)
        w = abtem.Waves(psi.astype(np.complex128 if prec == "float64" else np.complex64), energy=case["energy"], sampling=samp)
        w.multislice(pa, algorithm=ms.FourierMultislice(order=case["order"]))
    ctx.expect(len(rec.steps) == 1, "pipeline-reach", steps=len(rec.steps))
    judge(ctx, rec, case)
    ctx.nontrivial(True)


def check(ctx, case):
    {"pipeline": check_pipeline, "blocks": check_blocks, "reversible": check_reversible, "hostile": check_hostile,
     "reuse": check_reuse}[case["kind"]](ctx, case)
