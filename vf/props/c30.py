"""C30 Saved results load back unchanged (to_zarr / from_zarr round trip).

Every case builds real array objects (all array-object types; every axis class with random field
values, numpy-typed ordinal values; dtypes f32/f64/c64/c128 with NaN/inf/-0.0/denormal entries; nested
metadata with tuples/lists/dicts/None/numpy scalars/arrays/NaN/inf; eager or lazy with several
chunkings), writes them through the real `to_zarr` (object method, ComputableList, delayed compute,
overwrite) into a directory or a zip store under `tempfile.mkdtemp()`, loads them with the real
`from_zarr` and compares the reloaded object with the original:

  type identical; array bit-identical (sign of zero and NaNs included) and dtype identical; the
  dataclass fields of every axis (ensemble and base) and the metadata dict equal after numpy scalars /
  arrays are normalised to Python (which is all JSON can carry) - tuples must come back as tuples,
  lists as lists, bools as bools.  Floats of ensemble axes and metadata must be bit-identical; base
  axes floats (re-derived by the constructors from extent/gpts) are compared to 1e-12 relative.
The temporary directory is removed per case.
"""
import dataclasses
import math
import os
import shutil
import tempfile
import zipfile

import numpy as np

PROPERTY = "C30"
TECHNIQUE = "runtime monitoring; differential oracle (object before to_zarr vs object after from_zarr), exact structural equality"
RULE = ("kinds: single object, ComputableList of 2-4 objects of mixed types, many-axes objects (10-13 ensemble axes, catches "
        "lexicographic axis ordering); 8 array-object types, 0-3 ensemble axes of lengths 1-5 drawn from all 17 axis classes with "
        "random values for every dataclass field, numpy-typed ordinal values, 4 dtypes with special float values, nested metadata, "
        "eager/lazy with chunk sizes 1..n, directory/zip store, chunks=None/auto on load, method/list/delayed/overwrite writes; "
        "non-trivial = at least one ensemble axis or non-empty metadata; distinct = distinct case dict")
CLAUSES = ["type", "array-values", "dtype", "axes-count", "ensemble-axes-metadata", "base-axes-metadata", "metadata",
           "list-length", "store-kind", "temp-removed"]
ASSUMPTIONS = ["metadata is restricted to what JSON carries: str keys; None/bool/int/float (incl. nan, inf, -0.0)/str/list/tuple/dict values; numpy scalars and arrays are compared after conversion to Python",
               "from_zarr always returns lazy objects: laziness itself is not compared"]
QUICK = dict(n=300, time=35)
THOROUGH = dict(n=61860, time=480, shards=16)


# ------------------------------------------------------------------------------------------- generation
def _obj(rng, kind=None, many=False):
    from vf import lib_arrayobj as L
    if many:
        kind = str(rng.choice(["MeasurementsEnsemble", "Images", "RealSpaceLineProfiles"]))
        d = L.rand_object(rng, kind=kind, max_ens=0, full_fields=True, base_lo=2, base_hi=3)
        d["seed"] = int(rng.integers(0, 2 ** 31))
        n = int(rng.integers(10, 14))
        # all-ones shapes: a permuted axis list still fits the array, so nothing but the comparison can notice it
        ones = rng.random() < 0.5
        d["ens_shape"] = [1 if ones else (2 if (i in (0, n - 1) or rng.random() < 0.15) else 1) for i in range(n)]
        d["axes"] = [L.rand_axis(rng, k, None, True) for k in d["ens_shape"]]
        for i, a in enumerate(d["axes"]):
            a["label"] = "ax%d" % i                       # distinguishable, in order
    else:
        d = L.rand_object(rng, kind=kind, max_ens=3, full_fields=True)
    for a in d["axes"]:
        if "values" in a and rng.random() < 0.35 and not isinstance(a["values"][0], str):
            a["values_np"] = str(rng.choice(["float32", "float64", "int64", "float16"]))
    d["metadata"] = L.rand_metadata(rng)
    if rng.random() < 0.25:
        d["metadata"]["special"] = str(rng.choice(["nan", "inf", "-inf", "-0.0"]))
    d["specials"] = bool(rng.random() < 0.4)
    d["lazy"] = bool(rng.random() < 0.5)
    d["chunks"] = [int(rng.integers(1, n + 1)) for n in d["ens_shape"]]
    return d


def gen(rng, tier):
    k = rng.random()
    common = {"store": str(rng.choice(["dir", "zip"])), "load_chunks": str(rng.choice(["none", "auto"])),
              "ext": str(rng.choice([".zarr", ""]))}
    if k < 0.7:
        return {"kind": "single", "objects": [_obj(rng)], "write": str(rng.choice(["method", "method", "list", "delayed", "overwrite"])),
                **common}
    if k < 0.88:
        return {"kind": "list", "objects": [_obj(rng) for _ in range(int(rng.integers(2, 5)))],
                "write": str(rng.choice(["list", "delayed", "overwrite"])), **common}
    return {"kind": "many-axes", "objects": [_obj(rng, many=True)], "write": "method", **common}


def fixed_cases(tier):
    from vf import lib_arrayobj as L
    rng = np.random.default_rng(30)
    out = []
    for kind in L.KINDS:                         # every type through both stores, lazy and eager
        for store in ("dir", "zip"):
            d = _obj(rng, kind)
            d["lazy"] = store == "zip"
            out.append({"kind": "single", "objects": [d], "write": "method", "store": store, "load_chunks": "none", "ext": ".zarr"})
    for _ in range(3):
        out.append({"kind": "many-axes", "objects": [_obj(rng, many=True)], "write": "method", "store": "dir", "load_chunks": "none",
                    "ext": ".zarr"})
    for cls in L.ALL_AXES:                       # every axis class at least once
        d = _obj(rng, "Images")
        d["ens_shape"] = [3]
        d["chunks"] = [2]
        d["axes"] = [L.rand_axis(rng, 3, [cls], True)]
        out.append({"kind": "single", "objects": [d], "write": "method", "store": "dir", "load_chunks": "auto", "ext": ""})
    return out


# ------------------------------------------------------------------------------------------- comparison
def py(x):
    """Normalise numpy scalars/arrays to Python (what JSON carries); containers keep their type."""
    if isinstance(x, dict):
        return {k: py(v) for k, v in x.items()}
    if isinstance(x, tuple):
        return tuple(py(v) for v in x)
    if isinstance(x, list):
        return [py(v) for v in x]
    if isinstance(x, np.ndarray):
        return py(x.tolist())
    if isinstance(x, np.generic):
        return x.item()
    return x


def same(a, b, rtol=0.0, path=""):
    """None if structurally identical, else a description of the first difference."""
    if type(a) is not type(b):
        return "%s: type %s != %s (%r vs %r)" % (path, type(a).__name__, type(b).__name__, a, b)
    if isinstance(a, dict):
        if list(a.keys()) != list(b.keys()) and set(a.keys()) != set(b.keys()):
            return "%s: keys %r != %r" % (path, sorted(a), sorted(b))
        for k in a:
            r = same(a[k], b[k], rtol, path + "/" + str(k))
            if r:
                return r
        return None
    if isinstance(a, (list, tuple)):
        if len(a) != len(b):
            return "%s: length %d != %d" % (path, len(a), len(b))
        for i, (x, y) in enumerate(zip(a, b)):
            r = same(x, y, rtol, path + "[%d]" % i)
            if r:
                return r
        return None
    if isinstance(a, float):
        if math.isnan(a) or math.isnan(b):
            return None if math.isnan(a) and math.isnan(b) else "%s: %r != %r" % (path, a, b)
        if a == b and math.copysign(1, a) == math.copysign(1, b):
            return None
        if rtol and abs(a - b) <= rtol * max(abs(a), abs(b)):
            return None
        return "%s: %r != %r" % (path, a, b)
    return None if a == b else "%s: %r != %r" % (path, a, b)


def axis_fields(a):
    d = {f.name: getattr(a, f.name) for f in dataclasses.fields(a)}
    d["__class__"] = type(a).__name__
    return py(d)


def bits(a):
    a = np.ascontiguousarray(a)
    return a.view(np.uint8)


# ------------------------------------------------------------------------------------------- build
def _build(desc):
    from vf import lib_arrayobj as L
    d = dict(desc)
    arr = L.make_array(d)
    if d.get("specials") and arr.size >= 4:
        flat = arr.reshape(-1)
        rng = np.random.default_rng(d["seed"] + 1)
        idx = rng.choice(arr.size, size=min(4, arr.size), replace=False)
        tiny = np.finfo(arr.real.dtype).tiny
        for i, v in zip(idx, [np.nan, -0.0, np.inf, tiny / 8]):
            flat[i] = v
    md = dict(d.get("metadata", {}))
    special = md.pop("special", None)
    d["metadata"] = md
    axes = []
    for a in d["axes"]:
        a = dict(a)
        tnp = a.pop("values_np", None)
        axes.append((a, tnp))
    d["axes"] = [a for a, _ in axes]
    obj = L.build_object(d, lazy=d["lazy"], chunks=d["chunks"], array=arr)
    for ax, (a, tnp) in zip(obj.ensemble_axes_metadata, axes):
        if tnp:
            t = np.dtype(tnp).type
            conv = lambda v: tuple(conv(x) for x in v) if isinstance(v, tuple) else t(v)
            ax.values = tuple(conv(v) for v in ax.values)
    if special is not None:
        obj._metadata["special"] = float(special)
        obj._metadata["special_in_tuple"] = (float(special), [float(special)])
    return obj, arr


def check(ctx, case):
    import warnings
    import abtem
    from abtem.array import ComputableList
    objs, arrays = [], []
    with warnings.catch_warnings():
        warnings.simplefilter("ignore")
        for d in case["objects"]:
            o, a = _build(d)
            objs.append(o)
            arrays.append(a)
        # what must come back (taken before writing: to_zarr must not depend on later state)
        want = [{"type": type(o), "ens": [axis_fields(a) for a in o.ensemble_axes_metadata],
                 "base": [axis_fields(a) for a in o.base_axes_metadata], "metadata": py(dict(o.metadata))} for o in objs]
        tmp = tempfile.mkdtemp(prefix="vf-c30-")
        try:
            name = "data" + (".zip" if case["store"] == "zip" else case["ext"])
            url = os.path.join(tmp, name)
            w = case["write"]
            if w == "overwrite":
                other = abtem.Images(np.zeros((2, 2), dtype=np.float32), sampling=0.1)
                other.to_zarr(url)
                ComputableList(objs).to_zarr(url, overwrite=True) if len(objs) > 1 else objs[0].to_zarr(url, overwrite=True)
            elif w == "method":
                objs[0].to_zarr(url)
            elif w == "list":
                ComputableList(objs).to_zarr(url)
            else:
                delayed = ComputableList(objs).to_zarr(url, compute=False)
                ctx.expect(not os.path.exists(url), "store-kind", reason="compute=False wrote the store eagerly")
                delayed.compute()
            if case["store"] == "zip":
                ctx.expect(os.path.isfile(url) and zipfile.is_zipfile(url), "store-kind", store="zip")
            else:
                ctx.expect(os.path.isdir(url), "store-kind", store="dir")
            loaded = abtem.from_zarr(url, chunks=None if case["load_chunks"] == "none" else "auto")
            if len(objs) == 1:
                ctx.expect(not isinstance(loaded, list), "list-length", reason="single object came back as a list")
                loaded = [loaded] if not isinstance(loaded, list) else loaded
            else:
                ctx.expect(isinstance(loaded, list) and len(loaded) == len(objs), "list-length",
                           got=len(loaded) if isinstance(loaded, list) else type(loaded).__name__, want=len(objs))
                if not isinstance(loaded, list):
                    loaded = [loaded]
            for i, (r, o, wnt, arr) in enumerate(zip(loaded, objs, want, arrays)):
                kind = case["objects"][i]["kind"]
                if not ctx.expect(type(r) is wnt["type"], "type", got=type(r).__name__, want=wnt["type"].__name__, item=i):
                    continue
                got = r.array.compute() if hasattr(r.array, "compute") else np.asarray(r.array)
                ctx.expect(got.dtype == arr.dtype, "dtype", got=str(got.dtype), want=str(arr.dtype), kind=kind)
                ok = got.shape == arr.shape and got.dtype == arr.dtype and bool(np.array_equal(bits(got), bits(arr)))
                ctx.expect(ok, "array-values", kind=kind, got_shape=list(got.shape), want_shape=list(arr.shape),
                           lazy=case["objects"][i]["lazy"])
                ge = [axis_fields(a) for a in r.ensemble_axes_metadata]
                gb = [axis_fields(a) for a in r.base_axes_metadata]
                ctx.expect(len(r.axes_metadata) == got.ndim and len(ge) == len(wnt["ens"]), "axes-count",
                           got=len(r.axes_metadata), ndim=got.ndim, kind=kind)
                diff = same(ge, wnt["ens"])
                ctx.expect(diff is None, "ensemble-axes-metadata", diff=diff, kind=kind)
                diff = same(gb, wnt["base"], rtol=1e-12)
                ctx.expect(diff is None, "base-axes-metadata", diff=diff, kind=kind)
                if diff is None and same(gb, wnt["base"]) is not None:
                    ctx.note("base-axis-float-drift-below-1e-12")
                diff = same(py(dict(r.metadata)), wnt["metadata"])
                ctx.expect(diff is None, "metadata", diff=diff, kind=kind)
                # the originals must still be what they were
                diff = same([axis_fields(a) for a in o.ensemble_axes_metadata], wnt["ens"]) or same(py(dict(o.metadata)), wnt["metadata"])
                ctx.expect(diff is None, "metadata", diff=diff, reason="to_zarr changed the original object")
            del loaded
        finally:
            shutil.rmtree(tmp, ignore_errors=True)
        ctx.expect(not os.path.exists(tmp), "temp-removed", path=tmp)
    ctx.nontrivial(any(len(d["ens_shape"]) > 0 or d["metadata"] for d in case["objects"]))
