"""C08 Potentials are covariant under whole-pixel translations and supercell repetition.

Metamorphic relations evaluated on pairs of real builds (nothing is re-implemented):

  * shift      Potential(atoms + (i*dx, j*dy)) == np.roll(Potential(atoms), (i, j)) for every slice
               (infinite and finite projection, eager and lazy, float64 and float32);
  * tile       Potential(atoms * (rx, ry, rz), gpts*(rx, ry), thicknesses*rz)
               == Potential(atoms).build().tile((rx, ry, rz))
               == CrystalPotential(Potential(atoms), (rx, ry, rz)).build()   (eager and lazy),
               including slice thicknesses, extent and sampling of the results;
  * subpixel   infinite projection: an arbitrary real translation (tx, ty) leaves the mean of every
               slice unchanged.

The two builds of a pair always use two freshly constructed Potential objects (no shared
integrator), so a cache cannot make them agree by construction.  About half of the cases construct the potentials with
non-default arguments (vf/lib_potopts.py): the relations are promised for those as well.
"""
import numpy as np

from vf import gen as G
from vf import lib_potopts as P

PROPERTY = "C08"
TECHNIQUE = "runtime monitoring; metamorphic oracle on pairs of real potential builds (roll / tile / slice-mean relations)"
RULE = ("random orthogonal cells 3-8 A with 1-12 atoms of mixed Z, positions anywhere (outside the cell, on cell faces incl. tiny negative rounding "
        "artefacts, on pixel boundaries and pixel centres; in 45 % of the cases 1-3 companion atoms of the same or another "
        "element exactly on / in the same pixel as / within two pixels of / across the periodic boundary from another atom of "
        "the slice), infinite projection occasionally with 1-3 grid points along one axis, grids 7-40 odd/even/rectangular, lobato/kirkland/peng, infinite and finite projection, "
        "slice thickness scalar or sequence, pixel shifts in [-2n, 2n] incl. 0-row/0-column and more than a cell, repetitions "
        "(1-3, 1-3, 1-2), real sub-pixel translations, eager and lazy, float64 and float32; in 55 % of the cases non-default "
        "constructor arguments: parametrization objects with per-element sigmas (all / some / absent elements), custom "
        "Quadrature / ScatteringFactor / Gaussian integrators with non-default cutoff_tolerance, taper, integration_step, "
        "quad_order, inner_cutoff_factor, periodic=False on in-cell atoms, plane permutations (geometry given in the "
        "potential's frame), origin and box passed through; non-trivial = the translation is not "
        "a multiple of the cell (shift), some repetition > 1 (tile), a non-integer pixel translation (subpixel); distinct = "
        "distinct case signature")
CLAUSES = ["shift-infinite", "shift-finite", "tile-array-vs-supercell", "crystal-vs-supercell", "crystal-vs-tile",
           "tile-geometry", "subpixel-mean"]
QUICK = dict(n=150, time=45)
THOROUGH = dict(n=27910, time=480, shards=16)

LIGHT = ["C", "O", "N", "Si", "Al", "S"]

# tolerances relative to max|V| of the reference build: (float64, float32)
TOL = {
    # bilinear delta superposition + FFT: continuous in the positions, error = rounding only
    "infinite": (1e-9, 5e-5),
    # real-space disks: positions are stored in float32 in float32 mode and the radial tables are steep near the core
    "finite": (1e-9, 5e-4),
}
# finite projection centres its pixel disk on round(x/dx): for an atom exactly half-way between two pixels the rounding
# direction may differ between the two builds, and the few pixels just inside the cut-off radius that only one of the two
# index disks reaches hold the tapered tail of the potential (observed <= 2.7e-5 max|V| on 7-9 point grids over 5000 cases, ~1e-4 V*A absolute).  The property
# does not define that float boundary, so such cases are compared with this wider tolerance.
TOL_HALF_PIXEL = 5e-4


def _atoms_case(rng, gpts, cell, n, elements):
    dx = [cell[0] / gpts[0], cell[1] / gpts[1]]
    pos = []
    for _ in range(n):
        p = (rng.random(3) * np.array(cell)).tolist()
        for d in range(2):
            r = rng.random()
            if r < 0.12:      # outside the cell (both sides)
                p[d] = float(rng.uniform(-1.5, 2.5) * cell[d])
            elif r < 0.2:     # exactly on a pixel boundary
                p[d] = float(int(rng.integers(0, gpts[d] + 1)) * dx[d])
            elif r < 0.26:    # exactly on a pixel centre line
                p[d] = float((int(rng.integers(0, gpts[d])) + 0.5) * dx[d])
            elif r < 0.3:     # cell faces, incl. the tiny negative values rotations / surface builders leave behind
                p[d] = float(rng.choice([0.0, cell[d], -0.0, -1e-17, -6e-17, -1e-13]))
        pos.append([float(v) for v in p])
    symbols = [str(rng.choice(elements)) for _ in range(n)]
    # coincident / nearly coincident atoms: the bilinear footprints (infinite projection) or the pixel disks (finite) of
    # different atoms of one slice share grid points, also across the periodic boundary
    if rng.random() < 0.45:
        for _ in range(int(rng.integers(1, 4))):
            j = int(rng.integers(0, len(pos)))
            mode = str(rng.choice(["stacked", "same-pixel", "neighbour", "two-pixels", "boundary"]))
            if mode == "boundary":
                d = int(rng.integers(0, 2))
                pos[j][d] = float(rng.uniform(0.0, 0.5) * dx[d])
            q = list(pos[j])
            for d in range(2):
                if mode == "same-pixel":
                    q[d] += float(rng.uniform(-0.5, 0.5) * dx[d])
                elif mode == "neighbour":
                    q[d] += float(rng.choice([-1.0, 1.0]) * rng.uniform(0.5, 1.5) * dx[d])
                elif mode == "two-pixels":
                    q[d] += float(rng.uniform(-2.0, 2.0) * dx[d])
                elif mode == "boundary":
                    q[d] = float(pos[j][d] - rng.uniform(0.1, 1.5) * dx[d]) if d == 0 or rng.random() < 0.5 else q[d]
            if rng.random() < 0.25:
                q[2] = float(q[2] + rng.uniform(-1, 1) * 1e-3)        # nearly the same height
            pos.append([float(v) for v in q])
            symbols.append(symbols[j] if rng.random() < 0.7 else str(rng.choice(elements)))
    return {"cell": [float(c) for c in cell], "symbols": symbols, "positions": pos}


def _thickness(rng, height):
    if rng.random() < 0.35:
        k = int(rng.integers(1, 6))
        w = rng.uniform(0.5, 1.5, size=k)
        return [float(v) for v in (w / w.sum() * height)]
    return float(rng.uniform(0.4, 1.2) * min(height, 2.5))


def _edges(st, height):
    if isinstance(st, float):
        n = int(np.ceil(height / st))
        return np.arange(1, n) * (height / n)
    return np.cumsum(st)[:-1]


def gen(rng, tier):
    kind = str(rng.choice(["shift", "shift", "tile", "subpixel"]))
    proj = "infinite" if kind == "subpixel" else str(rng.choice(["infinite", "finite"]))
    hi = 40 if proj == "infinite" else 28
    gpts = G.rand_gpts(rng, 7, hi)
    if kind == "tile":
        gpts = G.rand_gpts(rng, 7, 20)
    if proj == "infinite" and rng.random() < 0.08:
        gpts[int(rng.integers(0, 2))] = int(rng.integers(1, 4))      # degenerate axes: 1-3 grid points
    cell = [float(rng.uniform(3.0, 8.0)), float(rng.uniform(3.0, 8.0)), float(rng.uniform(1.5, 6.0))]
    nmax = 12 if proj == "infinite" else 5
    elements = G.ELEMENTS if proj == "infinite" else (LIGHT if rng.random() < 0.7 else G.ELEMENTS)
    atoms = _atoms_case(rng, gpts, cell, int(rng.integers(1, nmax + 1)), elements)
    st = _thickness(rng, cell[2])
    if kind == "tile" and proj == "infinite":
        # the supercell is sliced with float cumulative sums of the repeated thicknesses: keep atoms off the slice
        # boundaries (membership of boundary atoms is C09's subject, not C08's)
        ed = np.concatenate([[0.0, cell[2]], _edges(st, cell[2])])
        for p in atoms["positions"]:
            while np.abs(ed - p[2]).min() < 1e-4:
                p[2] = float(rng.random() * cell[2])
    case = {"kind": kind, "cell": atoms, "gpts": [int(g) for g in gpts], "projection": proj,
            "parametrization": str(rng.choice(["lobato", "lobato", "kirkland", "peng"])), "slice_thickness": st,
            "precision": "float64" if rng.random() < 0.75 else "float32", "lazy": bool(rng.random() < 0.4),
            # non-default constructor arguments (parametrization with sigmas, custom integrators, periodic flag, plane,
            # origin, box); the geometry above is in the potential's frame
            "opts": P.gen(rng, proj, atoms["symbols"])}
    if case["opts"].get("plane"):
        case["opts"].pop("box", None)
    if kind == "shift":
        r = rng.random()
        sh = [int(rng.integers(-2 * gpts[0], 2 * gpts[0] + 1)), int(rng.integers(-2 * gpts[1], 2 * gpts[1] + 1))]
        if r < 0.15:
            sh[int(rng.integers(0, 2))] = 0
        elif r < 0.25:
            sh = [int(rng.choice([-1, 1])), int(rng.choice([-1, 1]))]
        case["shift"] = sh
    elif kind == "tile":
        case["reps"] = [int(rng.integers(1, 4)), int(rng.integers(1, 4)), int(rng.integers(1, 3))]
    else:
        case["translation"] = [float(rng.uniform(-1.5, 1.5) * cell[0]), float(rng.uniform(-1.5, 1.5) * cell[1])]
        if rng.random() < 0.2:
            case["translation"][int(rng.integers(0, 2))] = float(rng.uniform(-0.5, 0.5) * cell[0] / gpts[0])
    return case


def fixed_cases(tier):
    base = {"cell": [4.0, 5.0, 3.0], "symbols": ["Si", "C", "Au"],
            "positions": [[0.0, 0.0, 0.1], [3.9, 4.95, 1.6], [2.0, 2.5, 2.9]]}
    out = []
    for proj in ("infinite", "finite"):
        for lazy in (False, True):
            out.append({"kind": "shift", "cell": base, "gpts": [9, 14], "projection": proj, "parametrization": "lobato",
                        "slice_thickness": 1.0, "precision": "float64", "lazy": lazy, "shift": [-1, 15]})
            out.append({"kind": "tile", "cell": base, "gpts": [8, 11], "projection": proj, "parametrization": "kirkland",
                        "slice_thickness": [0.8, 1.2, 1.0], "precision": "float64", "lazy": lazy, "reps": [2, 3, 2]})
    out.append({"kind": "subpixel", "cell": base, "gpts": [9, 14], "projection": "infinite", "parametrization": "peng",
                "slice_thickness": 0.7, "precision": "float64", "lazy": False, "translation": [0.1234, -7.77]})
    # close pairs of one element and of two elements in one slice: same pixel, neighbouring pixels, exactly stacked, across
    # the periodic boundary (cell 4 x 5, pixels 0.5 x 0.5)
    pairs = {"cell": [4.0, 5.0, 3.0], "symbols": ["Si", "Si", "C", "C", "Au", "Au", "O", "Si", "O", "O"],
             "positions": [[1.1, 1.2, 0.5], [1.3, 1.45, 0.5], [2.6, 3.1, 0.6], [3.1, 3.4, 0.6], [2.0, 2.0, 1.5], [2.0, 2.0, 1.5],
                           [0.1, 4.2, 2.5], [3.8, 4.3, 2.5], [3.9, 4.9, 2.4], [0.15, 0.1, 2.4]]}
    out.append({"kind": "subpixel", "cell": pairs, "gpts": [8, 10], "projection": "infinite", "parametrization": "lobato",
                "slice_thickness": 1.0, "precision": "float64", "lazy": False, "translation": [0.19, -0.33]})
    out.append({"kind": "subpixel", "cell": pairs, "gpts": [1, 10], "projection": "infinite", "parametrization": "kirkland",
                "slice_thickness": 1.0, "precision": "float64", "lazy": True, "translation": [1.23, 0.21]})
    for proj in ("infinite", "finite"):
        out.append({"kind": "shift", "cell": pairs, "gpts": [8, 10], "projection": proj, "parametrization": "lobato",
                    "slice_thickness": 1.0, "precision": "float64", "lazy": False, "shift": [3, -4]})
        out.append({"kind": "tile", "cell": pairs, "gpts": [8, 10], "projection": proj, "parametrization": "lobato",
                    "slice_thickness": 1.0, "precision": "float64", "lazy": False, "reps": [2, 2, 1]})
    # non-default constructor arguments: atoms next to the cell faces, so anything that is not periodic shows
    sig = {"Si": 0.3, "C": 0.2, "Au": 0.15}
    quad = {"type": "quadrature", "cutoff_tolerance": 1e-3, "taper": 0.7, "integration_step": 0.05, "quad_order": 4,
            "inner_cutoff_factor": 3.0}
    for proj, opts in (("finite", {"sigmas": sig}), ("infinite", {"sigmas": sig}), ("finite", {"sigmas": {"Si": 0.3}}),
                       ("finite", {"integrator": quad, "sigmas": sig}), ("infinite", {"integrator": {"type": "scattering"}}),
                       ("finite", {"integrator": {"type": "gaussian"}}), ("finite", {"periodic": False, "sigmas": sig}),
                       ("infinite", {"periodic": False}), ("finite", {"plane": "yx", "sigmas": sig}),
                       ("infinite", {"plane": "zx", "origin": [0.5, -0.25, 0.3]}), ("infinite", {"box": True})):
        out.append({"kind": "shift", "cell": base, "gpts": [16, 20], "projection": proj, "parametrization": "lobato",
                    "slice_thickness": 1.5, "precision": "float64", "lazy": False, "shift": [7, -3], "opts": opts})
    for proj, opts in (("finite", {"sigmas": sig}), ("infinite", {"sigmas": sig, "plane": "xz"}),
                       ("finite", {"integrator": quad, "periodic": False})):
        out.append({"kind": "tile", "cell": base, "gpts": [8, 11], "projection": proj, "parametrization": "lobato",
                    "slice_thickness": [0.8, 1.2, 1.0], "precision": "float64", "lazy": True, "reps": [2, 1, 2], "opts": opts})
    out.append({"kind": "subpixel", "cell": base, "gpts": [9, 14], "projection": "infinite", "parametrization": "kirkland",
                "slice_thickness": 0.7, "precision": "float64", "lazy": False, "translation": [0.1234, -7.77],
                "opts": {"sigmas": sig, "integrator": {"type": "scattering"}}})
    return out


def setup(ctx):
    # imports and the numba compilation of the finite-projection kernel happen here, outside the per-case watchdog
    # (an alarm that interrupts a module import leaves half-initialised modules behind)
    import abtem
    from ase import Atoms
    one = Atoms("C", positions=[[1.0, 1.0, 1.0]], cell=[3.0, 3.0, 2.0], pbc=True)
    for precision in ("float32", "float64"):
        with G.precision(precision):
            abtem.Potential(one, gpts=(8, 8), slice_thickness=1.0, projection="finite").build(lazy=False)
            abtem.Potential(one, gpts=(8, 8), slice_thickness=1.0).build(lazy=True).compute(progress_bar=False)


def _st_arg(st):
    return st if isinstance(st, float) else tuple(st)


def _potential(case, atoms, gpts, st):
    """New Potential (new parametrization / integrator objects) for atoms given in the potential's frame."""
    import abtem
    opts = case.get("opts") or {}
    user_atoms = P.prepare_atoms(atoms, opts)
    kw = P.kwargs(opts, case["projection"], case["parametrization"], cell=user_atoms.cell.lengths())
    return abtem.Potential(user_atoms, gpts=tuple(gpts), slice_thickness=st, **kw)


def _built(pot, lazy):
    pa = pot.build(lazy=lazy)
    if lazy:
        pa = pa.compute(progress_bar=False)
    return pa


def _half_pixel(case):
    c = case["cell"]
    d = np.array([c["cell"][0] / case["gpts"][0], c["cell"][1] / case["gpts"][1]])
    frac = (np.array(c["positions"], dtype=float).reshape(-1, 3)[:, :2] / d) % 1.0
    return bool((np.abs(frac - 0.5) < 1e-6).any())


def _f64(case):
    return case["precision"] == "float64" and not P.single_precision(case.get("opts"))


def _tol(case):
    t = TOL[case["projection"]][0 if _f64(case) else 1]
    if case["projection"] == "finite" and _half_pixel(case):
        t = max(t, TOL_HALF_PIXEL)
    return t


def check(ctx, case):
    with G.precision(case["precision"]):
        _check(ctx, case)


def _check(ctx, case):
    import abtem
    atoms = G.atoms_from(case["cell"])
    gpts = tuple(case["gpts"])
    st = _st_arg(case["slice_thickness"])
    proj = case["projection"]
    cell = case["cell"]["cell"]
    want_dtype = np.float64 if case["precision"] == "float64" else np.float32

    ref = _built(_potential(case, atoms, gpts, st), False)
    a = np.asarray(ref.array)
    scale = float(np.abs(a).max())
    ctx.expect(a.dtype == want_dtype and np.isfinite(a).all() and scale > 0, "reference-build-sane", dtype=str(a.dtype),
               scale=scale)
    ctx.note("precision-" + case["precision"])

    if case["kind"] == "shift":
        i, j = case["shift"]
        moved = atoms.copy()
        moved.positions[:, 0] += i * (cell[0] / gpts[0])
        moved.positions[:, 1] += j * (cell[1] / gpts[1])
        got = _built(_potential(case, moved, gpts, st), case["lazy"])
        g = np.asarray(got.array)
        ctx.monitor("slices-compared", a.shape[0])
        ctx.close(g, np.roll(a, (i, j), axis=(1, 2)), "shift-" + proj, rtol=_tol(case), shift=[i, j])
        ctx.equal(tuple(got.slice_thickness), tuple(ref.slice_thickness), "shift-" + proj)
        # non-trivial: the roll is not the identity and the potential is not (numerically) flat
        ctx.nontrivial((i % gpts[0] != 0 or j % gpts[1] != 0) and float(np.abs(a - np.roll(a, (i, j), axis=(1, 2))).max())
                       > 1e-3 * scale)
        return

    if case["kind"] == "subpixel":
        tx, ty = case["translation"]
        moved = atoms.copy()
        moved.positions[:, 0] += tx
        moved.positions[:, 1] += ty
        got = _built(_potential(case, moved, gpts, st), case["lazy"])
        g = np.asarray(got.array)
        m0 = a.mean(axis=(1, 2), dtype=np.float64)
        m1 = g.mean(axis=(1, 2), dtype=np.float64)
        ctx.monitor("slices-compared", a.shape[0])
        # the mean is the zero-frequency coefficient: N_atoms * f(0) / cell area for every position
        ctx.close(m1, m0, "subpixel-mean", rtol=1e-10 if _f64(case) else 2e-5,
                  translation=[tx, ty])
        frac = [(tx / (cell[0] / gpts[0])) % 1.0, (ty / (cell[1] / gpts[1])) % 1.0]
        ctx.nontrivial(any(1e-3 < f < 1 - 1e-3 for f in frac) and float(np.abs(m0).max()) > 0
                       and float(np.abs(g - a).max()) > 1e-3 * scale)
        return

    # ---- tile
    rx, ry, rz = case["reps"]
    unit_st = tuple(ref.slice_thickness)
    tiled = ref.tile((rx, ry, rz))
    t = np.asarray(tiled.array)
    want = np.tile(a, (rz, rx, ry))
    ctx.equal(t, want, "tile-geometry", what="PotentialArray.tile == np.tile(z, x, y)")
    if rz == 1:
        t2 = ref.tile((rx, ry))
        ctx.equal(np.asarray(t2.array), want, "tile-geometry", what="two-element repetitions")
    ctx.close(tiled.slice_thickness, unit_st * rz, "tile-geometry", rtol=1e-12)
    ctx.close(tiled.extent, (cell[0] * rx, cell[1] * ry), "tile-geometry", rtol=1e-12)
    ctx.equal(tuple(tiled.gpts), (gpts[0] * rx, gpts[1] * ry), "tile-geometry")
    ctx.close(tiled.sampling, ref.sampling, "tile-geometry", rtol=1e-12)

    sup_atoms = atoms * (rx, ry, rz)
    sup = _built(_potential(case, sup_atoms, (gpts[0] * rx, gpts[1] * ry), unit_st * rz), case["lazy"])
    s = np.asarray(sup.array)
    ctx.monitor("slices-compared", s.shape[0])
    ctx.close(t, s, "tile-array-vs-supercell", rtol=_tol(case), reps=[rx, ry, rz])

    unit = _potential(case, atoms, gpts, st)
    crystal = abtem.CrystalPotential(unit, repetitions=(rx, ry, rz))
    ctx.equal(len(crystal), len(unit_st) * rz, "tile-geometry", what="len(CrystalPotential)")
    ctx.close(crystal.slice_thickness, unit_st * rz, "tile-geometry", rtol=1e-12)
    ctx.equal(tuple(crystal.gpts), (gpts[0] * rx, gpts[1] * ry), "tile-geometry")
    ctx.close(crystal.extent, (cell[0] * rx, cell[1] * ry), "tile-geometry", rtol=1e-12)
    cr = _built(crystal, case["lazy"])
    c = np.asarray(cr.array)
    ctx.close(c, s, "crystal-vs-supercell", rtol=_tol(case), reps=[rx, ry, rz])
    # same unit potential, same arithmetic: only copies are involved
    ctx.close(c, t, "crystal-vs-tile", rtol=1e-12 if _f64(case) else 1e-6)
    ctx.close(cr.slice_thickness, unit_st * rz, "tile-geometry", rtol=1e-12)
    ctx.close(cr.sampling, ref.sampling, "tile-geometry", rtol=1e-12)
    # the slices as generated (what multislice consumes) are the tiled unit slices as well
    k = 0
    for slic in crystal.generate_slices():
        ctx.close(np.asarray(slic.array)[0], want[k], "crystal-vs-tile", rtol=1e-12 if _f64(case) else 1e-6,
                  slice=k)
        k += 1
    ctx.equal(k, want.shape[0], "tile-geometry", what="number of generated crystal slices")
    ctx.nontrivial(max(rx, ry, rz) > 1 and scale > 0)
