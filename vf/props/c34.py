"""C34 Temporary configuration changes are always undone.

History monitor.  `abtem.core.config.set.__init__` and `set.__exit__` are wrapped (on the real class, so
contexts opened *by abTEM itself* inside the workload are monitored too): the wrapper of `__init__` deep-copies
the target configuration before the constructor touches it, the wrapper of `__exit__` compares the
configuration with that copy right after the real `__exit__` returned -- after EVERY exit, whether the block
was left normally or by an exception.  The comparison is type-strict (True is not 1, 1 is not 1.0, tuple is
not list) and recursive; key order is not part of the comparison.

The workload is a random *program*: a tree of `with abtem.config.set(...)` blocks (depth 1-5, several sibling
blocks per body), each block setting 0-4 keys that are new or existing, flat / dotted / `__`-kwargs / whole nested
dict values, with dash/underscore aliases, the same key repeated inside one call and in nested calls; bodies may
raise at a random position; any block may catch.  Bodies may also call abTEM code that opens its own contexts
(`repr()` of an axes-metadata list runs `format_axes_metadata`, which uses `config.set` internally).

Paths that descend through a non-dict leaf are excluded by construction (typed key schema): `set()` raises there
before a context exists, which the statement does not talk about.
"""
import copy

import numpy as np

PROPERTY = "C34"
TECHNIQUE = "runtime monitoring; history monitor on config.set.__init__/__exit__ with a deep-copy model, checked after every __exit__"
RULE = ("random programs: trees of config.set contexts, nest depth 1-5, 0-4 settings per context from a typed key schema (existing "
        "and new keys, keys whose default is falsy, flat/dotted paths, whole dict values, dash/underscore aliases, falsy values False/None/0/0.0/''/[]), "
        "one case in five is a chain that sets the same key at every level to falsy values, call forms dict/kwargs(__)/both, exceptions "
        "raised at random body positions and caught at random ancestors, optional abTEM-internal contexts inside bodies, global "
        "or private config dict; non-trivial = at least 2 nested levels and at least one inserted (new) key or an exception exit; "
        "distinct = distinct program signature")
CLAUSES = ["restored-after-exit", "restored-after-exception-exit", "restored-final", "new-keys-removed",
           "inner-exit-restores-own-entry", "internal-context-monitored"]
QUICK = dict(n=4000, time=40)
THOROUGH = dict(n=480000, time=480, shards=16)

# typed schema: dict = section (only ever holds dicts), None = leaf (only ever holds non-dict values)
SCHEMA = {
    "precision": None, "fft": None, "device": None,
    "dask": {"lazy": None, "chunk-size": None, "chunk-size-gpu": None, "vf_x": None,
             "vf-sub": {"k_1": None, "k-2": None}},
    "fftw": {"threads": None, "planning_effort": None, "allow_fallback": None, "vf": {"deep": {"leaf": None}}},
    "visualize": {"use_tex": None, "cmap": None, "autoscale": None, "continuous_update": None, "vf_units": None},
    "warnings": {"overspecified-grid": None, "dask-blockwise-performance": None},
    "diagnostics": {"task_progress": None, "progress_bar": None},      # task_progress is False by default (falsy old value)
    "cupy": {"fft-cache-size": None},
    "antialias": {"cutoff": None, "taper": None},
    "vf_new": None, "vf-dash": None,
    "vf_sec": {"a": None, "b": {"c": None, "d": None}, "e-f": None},
    "vf_other": {"x": None},
}
LEAVES = [True, False, None, 0, 1, 2, -7, 0.5, 1.0, "float64", "float32", "numpy", "cpu", "", "128 MB", [1, 2], [], [[1], "a"],
          0.0, -0.0, "0", "False", [None], [0]]
FALSY = [False, None, 0, 0.0, "", []]
# keys whose value is falsy in the default configuration, and new keys (nothing there at all)
CHAIN_PATHS = [["diagnostics", "task_progress"], ["warnings", "dask-blockwise-performance"], ["visualize", "autoscale"],
               ["visualize", "continuous_update"], ["vf_new"], ["vf_sec", "b", "c"], ["dask", "vf_x"], ["precision"],
               ["dask", "lazy"]]


def _leaf(rng):
    return LEAVES[int(rng.integers(0, len(LEAVES)))]


def _dict_value(rng, schema, depth=0):
    out = {}
    for k, sub in schema.items():
        if rng.random() < 0.5:
            kk = _alias(rng, k)
            out[kk] = _leaf(rng) if sub is None else _dict_value(rng, sub, depth + 1)
    return out


def _alias(rng, k):
    if rng.random() < 0.3:
        if "-" in k:
            return k.replace("-", "_")
        if "_" in k and not k.startswith("vf_") and rng.random() < 0.5:
            return k.replace("_", "-")
    return k


def _setting(rng):
    node = SCHEMA
    path = []
    while True:
        keys = list(node)
        # favour the new keys a little: they exercise the insert path
        w = np.array([3.0 if k.startswith("vf") else 1.0 for k in keys])
        k = keys[int(rng.choice(len(keys), p=w / w.sum()))]
        path.append(_alias(rng, k))
        sub = node[k]
        if sub is None:
            return {"path": path, "value": _leaf(rng)}
        if rng.random() < 0.2:
            return {"path": path, "value": _dict_value(rng, sub)}
        node = sub


def _node(rng, depth, max_depth):
    n_set = int(rng.choice([0, 1, 1, 2, 2, 3, 4]))
    settings = [_setting(rng) for _ in range(n_set)]
    if settings and rng.random() < 0.25:
        # the same key twice in one call (second spelling may be the alias)
        s = settings[int(rng.integers(0, len(settings)))]
        settings.append({"path": list(s["path"]), "value": s["value"] if isinstance(s["value"], dict) else _leaf(rng)})
    form = str(rng.choice(["dict", "kwargs", "both"]))
    children = []
    if depth < max_depth:
        for _ in range(int(rng.choice([1, 1, 2, 3])) if depth + 1 < max_depth else int(rng.choice([0, 1, 2]))):
            children.append(_node(rng, depth + 1, max_depth))
    body = [{"child": i} for i in range(len(children))]
    if rng.random() < 0.15:
        body.insert(int(rng.integers(0, len(body) + 1)), {"action": "repr_axes"})
    raise_at = int(rng.integers(0, len(body) + 1)) if rng.random() < 0.3 else None
    return {"settings": settings, "form": form, "children": children, "body": body, "raise_at": raise_at,
            "exc": str(rng.choice(["Boom", "ValueError", "KeyError"])), "catch": bool(rng.random() < 0.4)}


def _chain(rng):
    """The same key set at every level of one nest, cycling through falsy (and a few truthy) values: the value an inner
    exit has to put back is itself falsy, and so may be the value that was there before the outermost context."""
    path = CHAIN_PATHS[int(rng.integers(0, len(CHAIN_PATHS)))]
    depth = int(rng.integers(2, 6))
    node = None
    for level in range(depth, 0, -1):
        v = FALSY[int(rng.integers(0, len(FALSY)))] if rng.random() < 0.75 else _leaf(rng)
        spelled = [_alias(rng, k) for k in path]
        settings = [{"path": spelled, "value": v}]
        if rng.random() < 0.2:
            settings.append(_setting(rng))
        children = [node] if node is not None else []
        body = [{"child": 0}] if children else []
        raise_at = int(rng.integers(0, len(body) + 1)) if rng.random() < 0.3 else None
        node = {"settings": settings, "form": str(rng.choice(["dict", "kwargs", "both"])), "children": children, "body": body,
                "raise_at": raise_at, "exc": str(rng.choice(["Boom", "ValueError", "KeyError"])), "catch": bool(rng.random() < 0.4)}
    return node, depth


def gen(rng, tier):
    if rng.random() < 0.2:
        root, depth = _chain(rng)
        return {"roots": [root], "own_config": bool(rng.random() < 0.15), "max_depth": depth}
    max_depth = int(rng.choice([1, 2, 3, 3, 4, 5]))
    roots = [_node(rng, 1, max_depth) for _ in range(int(rng.choice([1, 1, 2])))]
    return {"roots": roots, "own_config": bool(rng.random() < 0.15), "max_depth": max_depth}


def fixed_cases(tier):
    leaf = lambda settings, **kw: dict({"settings": settings, "form": "dict", "children": [], "body": [], "raise_at": None,
                                        "exc": "Boom", "catch": False}, **kw)
    def nest(outer, inner, **kw):
        n = leaf(outer, **kw)
        n["children"] = [inner]
        n["body"] = [{"child": 0}]
        return n
    S = lambda path, value: {"path": path.split("."), "value": value}
    out = []
    # new dotted key inside new section, exception from the innermost body
    out.append({"roots": [nest([S("vf_sec.b.c", 1)], nest([S("vf_sec.a", 2), S("vf_sec.b.d", 3)],
                                                           leaf([S("vf_new", 4)], raise_at=0), catch=False), catch=True)],
                "own_config": False, "max_depth": 3})
    # same existing key at three levels, alias spellings
    out.append({"roots": [nest([S("dask.chunk-size", "1 MB")], nest([S("dask.chunk_size", "2 MB")],
                                                                    leaf([S("dask.chunk-size", "3 MB")], form="kwargs")))],
                "own_config": False, "max_depth": 3})
    # section replaced by a dict value, then keys inserted below it
    out.append({"roots": [nest([S("dask", {"lazy": False})], nest([S("dask.chunk-size", "9 MB"), S("dask.vf_x", 1)],
                                                                 leaf([S("dask", {})], raise_at=0), catch=True))],
                "own_config": False, "max_depth": 3})
    # parent and child in one call, both forms, internal abTEM context in the body
    n = leaf([S("vf_sec", {"a": 1}), S("vf_sec.a", 2), S("vf_sec.b.c", 3), S("visualize.use_tex", True)], form="both")
    n["body"] = [{"action": "repr_axes"}]
    out.append({"roots": [n, leaf([])], "own_config": False, "max_depth": 1})
    out.append({"roots": [nest([S("precision", "float64")], leaf([S("vf_other.x", [1, 2])], raise_at=0, exc="KeyError"),
                               catch=True)], "own_config": True, "max_depth": 2})
    # falsy values all the way: existing key whose default is False, then 0 / "" / None / True; exception from the innermost body
    for path in ("diagnostics.task_progress", "vf_new", "dask.lazy", "vf_sec.b.c"):
        chain = leaf([S(path, True)], raise_at=0, exc="ValueError")
        for v in (None, "", 0, False):
            chain = nest([S(path, v)], chain)
        chain["catch"] = True
        out.append({"roots": [chain], "own_config": False, "max_depth": 5})
    # the same with the kwargs form and a falsy replacement of a whole section
    out.append({"roots": [nest([S("visualize.autoscale", 0)], nest([S("visualize.autoscale", None)],
                                                                  leaf([S("visualize", {}), S("visualize.autoscale", "")], form="kwargs"),
                                                                  form="kwargs"), form="kwargs")],
                "own_config": False, "max_depth": 3})
    return out


# --------------------------------------------------------------------------- strict comparison
def strict_diff(a, b, path=()):
    """First difference between two nested structures (type-strict) or None."""
    if type(a) is not type(b):
        return {"path": list(path), "why": "type", "a": repr(a)[:80], "b": repr(b)[:80]}
    if isinstance(a, dict):
        if a.keys() != b.keys():
            return {"path": list(path), "why": "keys", "only_after": sorted(map(str, a.keys() - b.keys())),
                    "only_before": sorted(map(str, b.keys() - a.keys()))}
        for k in a:
            d = strict_diff(a[k], b[k], path + (k,))
            if d:
                return d
        return None
    if isinstance(a, (list, tuple)):
        if len(a) != len(b):
            return {"path": list(path), "why": "len", "a": repr(a)[:80], "b": repr(b)[:80]}
        for i, (x, y) in enumerate(zip(a, b)):
            d = strict_diff(x, y, path + (i,))
            if d:
                return d
        return None
    if a != b and not (a != a and b != b):
        return {"path": list(path), "why": "value", "a": repr(a)[:80], "b": repr(b)[:80]}
    return None


class Boom(Exception):
    pass


EXC = {"Boom": Boom, "ValueError": ValueError, "KeyError": KeyError}


class _Monitor:
    def __init__(self, ctx, cfgmod):
        self.ctx = ctx
        self.cfgmod = cfgmod
        self.live = []          # contexts constructed and not yet exited (LIFO)
        self.exits = 0
        self.exc_exits = 0
        self.internal = 0       # contexts not created by the workload driver
        self.driver_depth = 0
        self.in_driver_call = False

    def wrap_init(self, orig):
        mon = self

        def __init__(self_, *a, **k):
            target = k.get("config", a[1] if len(a) > 1 else mon.cfgmod.config)
            snap = copy.deepcopy(target)
            orig(self_, *a, **k)            # a raising constructor creates no context (outside the statement)
            self_._vf_snap = snap
            self_._vf_depth = len(mon.live)
            self_._vf_internal = not mon.in_driver_call
            if self_._vf_internal:
                mon.internal += 1
            mon.live.append(self_)
        return __init__

    def wrap_exit(self, orig):
        mon = self

        def __exit__(self_, typ, val, tb):
            r = orig(self_, typ, val, tb)
            ctx = mon.ctx
            if mon.live and mon.live[-1] is self_:
                mon.live.pop()
            snap = getattr(self_, "_vf_snap", None)
            if snap is None:
                return r
            mon.exits += 1
            d = strict_diff(self_.config, snap)
            clause = "restored-after-exit" if typ is None else "restored-after-exception-exit"
            if typ is not None:
                mon.exc_exits += 1
            ctx.expect(d is None, clause, diff=d, depth=self_._vf_depth, internal=self_._vf_internal,
                       record=repr(self_._record)[:300])
            if self_._vf_depth > 0:
                ctx.expect(d is None, "inner-exit-restores-own-entry", diff=d, depth=self_._vf_depth)
            if self_._vf_internal:
                ctx.expect(d is None, "internal-context-monitored", diff=d)
            ctx.monitor("exit-evaluations")
            return r
        return __exit__


def _present(cfg, path):
    """Is the (alias-insensitive) key path present in cfg?"""
    d = cfg
    for k in path:
        if not isinstance(d, dict):
            return False
        for kk in (k, k.replace("-", "_"), k.replace("_", "-")):
            if kk in d:
                d = d[kk]
                break
        else:
            return False
    return True


def _call_args(node, own):
    arg, kwargs = {}, {}
    n = len(node["settings"])
    for i, s in enumerate(node["settings"]):
        as_kw = node["form"] == "kwargs" or (node["form"] == "both" and i >= (n + 1) // 2)
        val = copy.deepcopy(s["value"])
        if as_kw:
            key = "__".join(p.replace("-", "_") for p in s["path"])
            kwargs[key] = val
        else:
            arg[".".join(s["path"])] = val
    if own is not None:
        kwargs_extra = {"config": own}
    else:
        kwargs_extra = {}
    return (arg if (arg or node["form"] != "kwargs") else None), kwargs, kwargs_extra


def _axes_repr():
    from abtem.core.axes import AxesMetadataList, RealSpaceAxis, OrdinalAxis
    lst = AxesMetadataList([OrdinalAxis(label="t", values=(1.0, 2.0)), RealSpaceAxis(label="x", sampling=0.1, units="Å")],
                           (2, 4))
    return repr(lst)


def _run(node, mon, cfg_api, own, stats, depth=1):
    stats["max_depth"] = max(stats["max_depth"], depth)
    arg, kwargs, extra = _call_args(node, own)
    target = own if own is not None else mon.cfgmod.config
    for s in node["settings"]:
        if not _present(target, s["path"]):
            stats["inserted"].append(list(s["path"]))
    try:
        mon.in_driver_call = True
        try:
            cm = cfg_api.set(arg, **extra, **kwargs) if arg is not None else cfg_api.set(**extra, **kwargs)
        finally:
            mon.in_driver_call = False
        with cm:
            for i, step in enumerate(node["body"]):
                if node["raise_at"] == i:
                    stats["raised"] += 1
                    raise EXC[node["exc"]]("vf")
                if "child" in step:
                    _run(node["children"][step["child"]], mon, cfg_api, own, stats, depth + 1)
                else:
                    _axes_repr()
                    stats["actions"] += 1
            if node["raise_at"] == len(node["body"]):
                stats["raised"] += 1
                raise EXC[node["exc"]]("vf")
    except (Boom, ValueError, KeyError) as e:
        if e.args != ("vf",):
            raise
        if not (node["catch"] or depth == 1):
            raise


def check(ctx, case):
    import abtem
    from abtem.core import config as cfgmod
    from vf.gen import Wrapped

    ctx.expect(abtem.config is cfgmod and isinstance(cfgmod.config, dict), "restored-final", what="config module identity")
    global_before = copy.deepcopy(cfgmod.config)
    own = copy.deepcopy(cfgmod.config) if case["own_config"] else None
    target = own if own is not None else cfgmod.config
    before = copy.deepcopy(target)
    target_id = id(target)
    mon = _Monitor(ctx, cfgmod)
    stats = {"max_depth": 0, "inserted": [], "raised": 0, "actions": 0}
    try:
        with Wrapped() as w:
            w.patch(cfgmod.set, "__init__", mon.wrap_init)
            w.patch(cfgmod.set, "__exit__", mon.wrap_exit)
            for root in case["roots"]:
                _run(root, mon, abtem.config, own, stats)
                # between sibling top-level programs the configuration must already be back
                d = strict_diff(target, before)
                ctx.expect(d is None, "restored-final", diff=d, where="after-root")
        d = strict_diff(target, before)
        ctx.expect(d is None and id(target) == target_id, "restored-final", diff=d)
        if stats["inserted"]:
            left = [p for p in stats["inserted"] if not _present(before, p) and _present(target, p)]
            ctx.expect(not left, "new-keys-removed", left_behind=left)
        if own is not None:
            d = strict_diff(cfgmod.config, global_before)
            ctx.expect(d is None, "restored-final", diff=d, where="global config touched by a private-config context")
        ctx.expect(not mon.live, "restored-final", what="contexts never exited", n=len(mon.live))
    finally:
        # keep the cases independent of each other even after a violation
        if strict_diff(cfgmod.config, global_before) is not None:
            cfgmod.config.clear()
            cfgmod.config.update(copy.deepcopy(global_before))
    ctx.monitor("contexts-exited", mon.exits)
    ctx.monitor("exception-exits", mon.exc_exits)
    ctx.monitor("abtem-internal-contexts", mon.internal)
    ctx.monitor("max-depth-%d" % stats["max_depth"])
    ctx.nontrivial(stats["max_depth"] >= 2 and (bool(stats["inserted"]) or mon.exc_exits > 0))
